#!/bin/bash
# usage: runmut.sh Cxx  -> runs ./check Cxx against each mutant
cd /var/tmp/w/C10C09
for f in tools/mutants/$1/*.diff; do
  out=$(tools/with_patched_repo -p $PWD/$f -- ./check $1 2>&1); code=$?
  echo "$(basename $f): exit $code :: $(echo "$out" | grep -E 'VIOLATION|INTERNAL' | head -1 | cut -c1-150) :: $(echo "$out" | tail -1 | cut -c1-160)"
done
