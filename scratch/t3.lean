import PewProofs.Srr
namespace Pew.Srr
open Pew

/-- the offset pair used for layer `i` by `subpixel_offset` -/
theorem effOffsets_ne_nil (offs : List (Nat × Nat)) (h : offs ≠ []) : effOffsets offs ≠ [] := by
  cases offs with
  | nil => exact absurd rfl h
  | cons o os => simp only [effOffsets]; split <;> simp

theorem region_general (eff : List (Nat × Nat)) (h : eff ≠ []) (R C p0 p1 i : Nat) :
    let st := eff.getD (i % eff.length) (0, 0)
    region eff (maxList (eff.map (·.1))) (maxList (eff.map (·.2)))
        (R * p0 + maxList (eff.map (·.1))) (C * p1 + maxList (eff.map (·.2))) i
      = ((st.1, st.1 + R * p0), (st.2, st.2 + C * p1)) := by
  intro st
  have hlen : 0 < eff.length := List.length_pos_iff.mpr h
  have hi : i % eff.length < eff.length := Nat.mod_lt _ hlen
  have hst : st = eff[i % eff.length] := getD_of_lt _ _ _ hi
  have hmem : st ∈ eff := by rw [hst]; exact List.getElem_mem hi
  have h1 : st.1 ≤ maxList (eff.map (·.1)) := le_maxList _ _ (List.mem_map.mpr ⟨st, hmem, rfl⟩)
  have h2 : st.2 ≤ maxList (eff.map (·.2)) := le_maxList _ _ (List.mem_map.mpr ⟨st, hmem, rfl⟩)
  unfold region
  simp only
  rw [sliceBounds_region _ _ _ h1 (by omega), sliceBounds_region _ _ _ h2 (by omega)]
  congr 2 <;> omega

end Pew.Srr
