import PewProofs.Srr
namespace Pew.Srr
open Pew

theorem sliceCols_trim {α : Type} (l : Arr2 α) (wn len : Nat) (h : wn + len ≤ l.cols) :
    l.sliceCols (some (wn : Int)) (some ((wn : Int) + (len : Int)))
      = { rows := l.rows, cols := len, get := fun r c => l.get r (wn + c) } := by
  have e : (wn : Int) + (len : Int) = ((wn + len : Nat) : Int) := by push_cast; rfl
  simp only [Arr2.sliceCols, Arr2.slice, sliceBounds, e, normIdx_natCast l.cols wn (by omega),
    normIdx_natCast l.cols (wn + len) h]
  congr 1
  · omega
  · funext r c; simp

theorem prepLayer_even {α : Type} (l : Arr2 α) (wn M len0 len1 i : Nat) (hi : i % 2 = 0)
    (h : wn + len0 ≤ l.cols) :
    prepLayer (wn : Int) M 0 len0 len1 i l
      = { rows := l.rows * M, cols := len0, get := fun r c => l.get (r / M) (wn + c) } := by
  have h1 : ¬ (i % 2 = 1) := by omega
  simp only [prepLayer, hi, if_true, Nat.zero_ne_one, if_false, sliceCols_trim l wn len0 h, Arr2.rep]

theorem prepLayer_odd {α : Type} (l : Arr2 α) (wn M len0 len1 i : Nat) (hi : i % 2 = 1)
    (h : wn + len1 ≤ l.cols) :
    prepLayer (wn : Int) M 0 len0 len1 i l
      = { rows := len1, cols := l.rows * M, get := fun r c => l.get (c / M) (wn + r) } := by
  have h1 : ¬ (i % 2 = 0) := by omega
  simp only [prepLayer, hi, if_true, Nat.one_ne_zero, if_false, sliceCols_trim l wn len1 h, Arr2.rep, Arr2.T]

end Pew.Srr

namespace Pew.Srr

theorem valid_unpack {α : Type} (c : SrrConfig) (M : Nat) (hM : 1 ≤ M) (layers : List (Arr2 α))
    (d0 d1 : Arr2 α) (h0 : layers[0]? = some d0) (h1 : layers[1]? = some d1) (hs : 0 < c.scantime)
    (hv : validForData c (M : Rat) layers = some true) :
    0 ≤ c.warmup ∧ c.warmup + ((d1.rows * M : Nat) : Int) ≤ (d0.cols : Int)
      ∧ c.warmup + ((d0.rows * M : Nat) : Int) ≤ (d1.cols : Int) := by
  unfold validForData at hv
  rw [h0, h1] at hv
  simp only [magInt_natCast M hM, magAxis_natCast M hM, Arr2.dim, if_true] at hv
  split_ifs at hv with a b c' <;> first | (exfalso; simp at hv; done) | skip
  refine ⟨?_, by omega, by omega⟩
  by_contra hneg
  have hw : (c.warmup : Rat) < 0 := by exact_mod_cast (lt_of_not_ge hneg)
  exact a (mul_neg_of_neg_of_pos hw hs)

end Pew.Srr

namespace Pew.Srr

theorem crossed_heads {α : Type} (layers : List (Arr2 α)) (l0 s0 l1 s1 : Nat) (hc : Crossed layers l0 s0 l1 s1) :
    ∃ d0 d1, layers[0]? = some d0 ∧ layers[1]? = some d1 ∧ d0.rows = l0 ∧ d0.cols = s0 ∧ d1.rows = l1 ∧ d1.cols = s1 := by
  obtain ⟨h2, hs⟩ := hc
  have e0 : layers[0]? = some layers[0] := List.getElem?_eq_getElem (by omega)
  have e1 : layers[1]? = some layers[1] := List.getElem?_eq_getElem (by omega)
  have a := hs 0 _ e0
  have b := hs 1 _ e1
  simp at a b
  exact ⟨_, _, e0, e1, a.1, a.2, b.1, b.2⟩

theorem aligned_crossed {α : Type} (z : α) (c : SrrConfig) (M : Nat) (hM : 1 ≤ M) (layers : List (Arr2 α))
    (l0 s0 l1 s1 : Nat) (hc : Crossed layers l0 s0 l1 s1) (wn : Nat) (hw : c.warmup = (wn : Int))
    (hv0 : wn + l1 * M ≤ s0) (hv1 : wn + l0 * M ≤ s1) :
    aligned z c (M : Rat) layers = some
      { rows := l0 * M, cols := l1 * M, depth := layers.length,
        get := fun r cc i => match layers[i]? with
          | some l => if i % 2 = 0 then l.get (r / M) (wn + cc) else l.get (cc / M) (wn + r)
          | none => z } := by
  obtain ⟨d0, d1, h0, h1, r0, c0, r1, c1⟩ := crossed_heads layers l0 s0 l1 s1 hc
  have hprep : ∀ (i : Nat) (l : Arr2 α), layers[i]? = some l →
      prepLayer (wn : Int) M 0 (l1 * M) (l0 * M) i l
        = (if i % 2 = 0 then { rows := l0 * M, cols := l1 * M, get := fun r cc => l.get (r / M) (wn + cc) }
           else { rows := l0 * M, cols := l1 * M, get := fun r cc => l.get (cc / M) (wn + r) }) := by
    intro i l hl
    have hsh := hc.2 i l hl
    by_cases hi : i % 2 = 0
    · simp only [hi, if_true] at hsh ⊢
      rw [prepLayer_even l wn M _ _ i hi (by rw [hsh.2]; exact hv0), hsh.1]
    · have hi' : i % 2 = 1 := by omega
      simp only [hi, if_false] at hsh ⊢
      rw [prepLayer_odd l wn M _ _ i hi' (by rw [hsh.2]; exact hv1), hsh.1]
  unfold aligned
  rw [h0, h1]
  simp only [magInt_natCast M hM, magAxis_natCast M hM, Arr2.dim, if_true, r0, r1, hw]
  split
  · congr 2
    funext r cc i
    cases hl : layers[i]? with
    | none => rfl
    | some l =>
      simp only
      rw [hprep i l hl]
      by_cases hi : i % 2 = 0 <;> simp [hi]
  · rename_i hneg
    exfalso; apply hneg
    rw [List.all_eq_true]
    intro i _
    cases hl : layers[i]? with
    | none => rfl
    | some l =>
      simp only
      rw [hprep i l hl]
      by_cases hi : i % 2 = 0 <;> simp [hi]

end Pew.Srr

namespace Pew.Srr

theorem subpixelOffset_dup {α : Type} (z : α) (x : Arr3 α) (offs : List Nat) (hne : offs ≠ []) (p : Nat) :
    subpixelOffset z x (offs.map (fun o => (o, o))) (p, p) = some
      { rows := x.rows * p + maxList offs, cols := x.cols * p + maxList offs, depth := x.depth,
        get := fun r cc i =>
          if layerOffset offs i ≤ r ∧ r < layerOffset offs i + x.rows * p
              ∧ layerOffset offs i ≤ cc ∧ cc < layerOffset offs i + x.cols * p then
            x.get ((r - layerOffset offs i) / p) ((cc - layerOffset offs i) / p) i
          else z } := by
  have hm1 : ((effList offs).map (fun o => (o, o))).map (·.1) = effList offs := by
    rw [List.map_map]; exact (List.map_congr_left (fun a _ => rfl)).trans (List.map_id _)
  have hm2 : ((effList offs).map (fun o => (o, o))).map (·.2) = effList offs := by
    rw [List.map_map]; exact (List.map_congr_left (fun a _ => rfl)).trans (List.map_id _)
  have hemp : ((effList offs).map (fun o => (o, o))).isEmpty = false := by
    have := effList_ne_nil offs hne
    cases h : effList offs with
    | nil => exact absurd h this
    | cons a as => rfl
  unfold subpixelOffset
  simp only [effOffsets_dup, hm1, hm2, maxList_effList, hemp, Bool.false_eq_true, if_false, region_dup offs hne]
  split
  · rfl
  · rename_i hneg
    exfalso; apply hneg
    rw [List.all_eq_true]
    intro i _
    simp

end Pew.Srr
