from collections.abc import Iterable

import numpy as np

from pewlib.config import Config


class SRRConfig(Config):
    """Class for the super-resolution-reconstruction image parameters.

    Args:
        spotsize: laser-spot diameter, μm
        speed: laser movement speed, μm/s
        scantime: MS acquisition time, s
        warmup: warmup time in s
        subpixel_offsets: list of offsets of layers, (offset, pixelsize)

    See Also:
        :class:`pewlib.config.Config`
    """

    _class = "SRR"

    def __init__(
        self,
        spotsize: float = 35.0,
        speed: float = 140.0,
        scantime: float = 0.25,
        warmup: float = 12.5,
        subpixel_offsets: Iterable[tuple[int, int]] = ((0, 2), (1, 2)),
    ):
        super().__init__(spotsize=spotsize, speed=speed, scantime=scantime)
        self._warmup = 0
        self.warmup = warmup

        self._subpixel_size = 0
        self._subpixel_offsets = np.array([], dtype=np.int32)
        self.subpixel_offsets = np.array(subpixel_offsets)

    @property
    def warmup(self) -> float:
        """Laser warmup (time before data recorded) in seconds."""
        return self._warmup * self.scantime

    @warmup.setter
    def warmup(self, seconds: float) -> None:
        self._warmup = np.round(seconds / self.scantime).astype(int)

    @property
    def magnification(self) -> float:
        """Magnification due to non-equal aspect."""
        return self.spotsize / (self.speed * self.scantime)

    @property
    def subpixel_offsets(self) -> np.ndarray:
        """Layer offsets."""
        return np.array(
            [[offset, self._subpixel_size] for offset in self._subpixel_offsets]
        )

    @subpixel_offsets.setter
    def subpixel_offsets(self, offsets: np.ndarray) -> None:
        offsets = np.array(offsets, dtype=int)
        if offsets.ndim != 2:
            raise ValueError("Offsets must have 2 dimensions.")
        self._subpixel_size = np.lcm.reduce(offsets[:, 1])
        self._subpixel_offsets = offsets[:, 0] * self._subpixel_size // offsets[:, 1]

    @property
    def subpixels_per_pixel(self) -> int:
        """Pixel width in subpixels."""
        mag = (
            1.0 / self.magnification if self.magnification < 1.0 else self.magnification
        )
        mag = np.round(mag).astype(int)
        return np.lcm(self._subpixel_size, mag) // mag

    def set_equal_subpixel_offsets(self, width: int) -> None:
        self._subpixel_offsets = np.arange(0, width, dtype=int)
        self._subpixel_size = width

    def get_pixel_width(self, layer: int | None = None) -> float:
        """Pixel width in μm.

        Args:
            layer: limit to layer
        """
        if layer is None:
            return super().get_pixel_width()
        elif layer % 2 == 0:
            return super().get_pixel_width()
        else:
            return super().get_pixel_height()

    def get_pixel_height(self, layer: int | None = None) -> float:
        """Pixel height in μm.

        Args:
            layer: limit to layer
        """
        if layer is None:
            return super().get_pixel_width() / self.subpixels_per_pixel
        elif layer % 2 == 0:
            return super().get_pixel_height()
        else:
            return super().get_pixel_width()

    # Return without the washout included
    def data_extent(
        self, shape: tuple[int, ...], layer: int | None = None
    ) -> tuple[float, float, float, float]:
        """Extent of data in μm.

        Args:
            shape: data shape
            layer: limit calculation to layer
        """
        px, py = self.get_pixel_width(layer), self.get_pixel_height(layer)
        warmup = self._warmup
        if layer is None:
            return (
                px * warmup,
                px * (warmup + shape[1]),
                py * warmup,
                py * (warmup + shape[0]),
            )
        else:
            return (0.0, px * shape[1], 0.0, py * shape[0])

    def valid_for_data(self, data: list[np.ndarray]) -> bool:
        """Checks if this config is valid for data."""
        if self.warmup < 0:
            return False

        mag = self.magnification
        mag = np.round(1.0 / mag if mag < 1.0 else mag).astype(int)
        mag_axis = 0 if self.magnification >= 1.0 else 1

        limit = (
            data[1].shape[mag_axis] * mag,
            data[0].shape[mag_axis] * mag,
        )

        if data[0].shape[1] < self._warmup + limit[0]:
            return False
        if data[1].shape[1] < self._warmup + limit[1]:  # pragma: no cover
            return False
        return True

    def to_array(self) -> np.ndarray:
        offsets = self.subpixel_offsets
        return np.array(
            (self.spotsize, self.speed, self.scantime, self.warmup, offsets),
            dtype=[
                ("spotsize", np.float64),
                ("speed", np.float64),
                ("scantime", np.float64),
                ("warmup", np.float64),
                ("subpixel_offsets", offsets.dtype, offsets.shape),
            ],
        )

    @classmethod
    def from_array(cls, array: np.ndarray) -> "SRRConfig":
        return cls(**{str(name): array[name] for name in array.dtype.names})
