import sys, os, shutil, subprocess
# usage: mk.py <outfile> <relpath> <old> <new> [<relpath> <old> <new> ...]
out=sys.argv[1]; args=sys.argv[2:]
shutil.rmtree('b', ignore_errors=True); shutil.copytree('a','b')
for k in range(0,len(args),3):
    rel,old,new=args[k:k+3]
    p=os.path.join('b',rel); s=open(p).read()
    assert s.count(old)>=1, (rel, old)
    s=s.replace(old,new,1); open(p,'w').write(s)
d=subprocess.run(['diff','-ru','a','b'],capture_output=True,text=True).stdout
os.makedirs(os.path.dirname(out),exist_ok=True)
open(out,'w').write(d)
print(out, len(d.splitlines()),'lines')
