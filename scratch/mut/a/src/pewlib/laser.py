"""Class for data collected line-by-line.
Line-by-line data is collected in multiple lines, with each line performed as a
continuous ablation in one direction. The lines are then stacked to form an image.
"""

import copy

import numpy as np
import numpy.lib.recfunctions as rfn

from pewlib.calibration import Calibration
from pewlib.config import Config


class Laser(object):
    """Class for line-by-line laser data.

    Args:
        data: structured array of elemental data
        calibration: dict mapping elements to calibrations, optional
        config: laser parameters
        info: dict (str, str) of additional info

    Todo:
        Support rastered collection.
    """

    def __init__(
        self,
        data: np.ndarray,
        calibration: dict[str, Calibration] | None = None,
        config: Config | None = None,
        info: dict[str, str] | None = None,
    ):
        self.data: np.ndarray = data
        self.calibration = {name: Calibration() for name in self.elements}
        if calibration is not None:
            self.calibration.update(copy.deepcopy(calibration))

        if config is None:
            self.config = Config()
        else:
            self.config = copy.copy(config)

        self.info = info or {}

    @property
    def extent(self) -> tuple[float, float, float, float]:
        """Image extent in μm"""
        return self.config.data_extent(self.shape[:2])

    @property
    def elements(self) -> tuple[str, ...]:
        """Elements stored."""
        return self.data.dtype.names

    @property
    def shape(self) -> tuple[int, ...]:
        return self.data.shape

    @property
    def layers(self) -> int:
        return 1

    def add(
        self, element: str, data: np.ndarray, calibration: Calibration | None = None
    ) -> None:
        """Adds a new element.

        Args:
            element: element name
            data: array
            calibration: calibration for data, optional
        """
        assert data.shape == self.data.shape
        new_dtype = self.data.dtype.descr + [(element, data.dtype.str)]

        new_data = np.empty(self.data.shape, dtype=new_dtype)
        for name in self.data.dtype.names:
            new_data[name] = self.data[name]
        new_data[element] = data
        self.data = new_data

        if calibration is None:
            calibration = Calibration()
        self.calibration[element] = calibration

    def remove(self, names: str | list[str]) -> None:
        """Remove element(s)."""
        if isinstance(names, str):
            names = [names]
        self.data = rfn.drop_fields(self.data, names, usemask=False)
        for name in names:
            self.calibration.pop(name)

    def rename(self, names: dict[str, str]) -> None:
        """Change the name of element(s).

        Args:
            names: dict mapping old to new names
        """
        self.data = rfn.rename_fields(self.data, names)
        # rename all at once, so that swaps and chains keep their calibrations
        self.calibration = {
            names.get(name, name): cal for name, cal in self.calibration.items()
        }

    def get(
        self,
        element: str | None = None,
        calibrate: bool | None = False,
        extent: tuple[float, float, float, float] | None = None,
        **kwargs,
    ) -> np.ndarray:
        """Get elemental data.

        If `element` is None then all elements are returned in a structured array.

        Args:
            element: element name, optional
            calibrate: apply calibration
            extent: trim to extent, μm

        Returns:
            structured if element is None else unstructured
        """
        if element is None:
            data = self.data.copy()
        else:
            data = self.data[element]

        if extent is not None:
            x0, x1, y0, y1 = extent
            px, py = self.config.get_pixel_width(), self.config.get_pixel_height()
            # round off floating point error before truncation
            x0, x1 = int(round(x0 / px, 6)), int(round(x1 / px, 6))
            y0, y1 = int(round(y0 / py, 6)), int(round(y1 / py, 6))
            data = data[y0:y1, x0:x1]

        if calibrate:
            if element is None:  # Perform calibration on all data
                for name in data.dtype.names:
                    data[name] = self.calibration[name].calibrate(data[name])
            else:
                data = self.calibration[element].calibrate(data)

        return data

    @classmethod
    def from_list(
        cls,
        elements: list[str],
        datas: list[np.ndarray],
        config: Config | None = None,
        info: dict[str, str] = {},
    ) -> "Laser":
        """Creates class from a list of names and unstructured arrays."""
        assert len(elements) == len(datas)
        dtype = [(element, float) for element in elements]

        structured = np.empty(datas[0].shape, dtype=dtype)
        for element, data in zip(elements, datas):
            structured[element] = data

        return cls(data=structured, config=config, info=info)
