import numpy as np


class Config(object):
    """Class for the rastered parameters of image.

    Args:
        spotsize: laser-spot diameter, μm
        speed: laser movement speed, μm/s
        scantime: MS acquisition time, s
    """

    _class = "Raster"

    def __init__(
        self, spotsize: float = 35.0, speed: float = 140.0, scantime: float = 0.25
    ):
        self.spotsize = spotsize
        self.speed = speed
        self.scantime = scantime

    def data_extent(self, shape: tuple[int, ...]) -> tuple[float, float, float, float]:
        """Extent of data in μm."""
        px, py = self.get_pixel_width(), self.get_pixel_height()
        return (0.0, px * shape[1], 0.0, py * shape[0])

    def to_array(self) -> np.ndarray:
        return np.array(
            (self.spotsize, self.speed, self.scantime),
            dtype=[
                ("spotsize", np.float64),
                ("speed", np.float64),
                ("scantime", np.float64),
            ],
        )

    def get_pixel_width(self) -> float:
        """Pixel width in μm."""
        return self.speed * self.scantime

    def get_pixel_height(self) -> float:
        """Pixel height in μm."""
        return self.spotsize

    @classmethod
    def from_array(cls, array: np.ndarray) -> "Config":
        return cls(
            spotsize=float(array["spotsize"]),
            speed=float(array["speed"]),
            scantime=float(array["scantime"]),
        )


class SpotConfig(Config):
    """Class for the spotwise parameters of image.

    Args:
        spotsize: x, y distance between laser-spots, μm
    """

    _class = "Spot"

    def __init__(self, spotsize: float = 100.0, spotsize_y: float | None = None):
        super().__init__(spotsize=spotsize, speed=0.0, scantime=0.0)
        if spotsize_y is None:
            spotsize_y = spotsize
        self.spotsize_y = spotsize_y

    def to_array(self) -> np.ndarray:
        return np.array(
            [self.spotsize, self.spotsize_y], dtype=[("spotsize", np.float64)]
        )

    def get_pixel_width(self) -> float:
        """Pixel width in μm."""
        return self.spotsize

    def get_pixel_height(self) -> float:
        """Pixel height in μm."""
        return self.spotsize_y

    @classmethod
    def from_array(cls, array: np.ndarray) -> "Config":
        return cls(spotsize=array["spotsize"][0], spotsize_y=array["spotsize"][1])
