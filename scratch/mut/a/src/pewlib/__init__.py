from .calibration import Calibration
from .config import Config
from .laser import Laser
