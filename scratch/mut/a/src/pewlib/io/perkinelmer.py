"""
Import of line-by-line PerkinElmer ELAN 'XL' directories.
"""
import logging
from pathlib import Path

import numpy as np
import numpy.lib.recfunctions

logger = logging.getLogger(__name__)


def is_valid_directory(path: str | Path) -> bool:
    """Tests if a directory contains PerkinElmer data.

    Ensures the path exists, is a directory and contains at least one '.xl' file.
    """
    if isinstance(path, str):  # pragma: no cover
        path = Path(path)

    if not path.exists() or not path.is_dir():
        return False

    return len(list(path.glob("*.xl"))) > 0


def load(
    path: str | Path, import_parameters: bool = True, full: bool = False
) -> np.ndarray| tuple[np.ndarray, dict]:
    """Loads PerkinElmer directory.

    Searches the directory `path` for '.xl' files and used them to reconstruct data.
    If `import_parameters` and a 'parameters.conf' is used then the scantime,
    speed and spotsize can be imported.

    Args:
        path: path to directory
        import_parameters: import params from 'parameters.conf'
        full: also return dict with params

    Returns:
        structured array of data
        dict of params if `full`

    See Also:
        :func:`pewlib.io.perkinelmer.collect_datafiles`
    """
    param_conversion = {
        "ablation.speed": ("speed", 1e3),
        "acquisition.time": ("scantime", 1.0),
        "space.interval": ("spotsize", 1e3),
    }
    if not isinstance(path, Path):  # pragma: no cover
        path = Path(path)

    datafiles = sorted(
        path.glob("*.xl"), key=lambda p: int("".join(filter(str.isdigit, p.stem)))
    )

    data = np.stack(
        [
            np.genfromtxt(df, skip_header=1, delimiter=",", names=True, deletechars="")
            for df in datafiles
        ],
        axis=1,
    )
    params: dict = {"origin": (0.0, 0.0), "times": data["Time_in_Seconds"]}
    data = numpy.lib.recfunctions.drop_fields(data, "Time_in_Seconds")

    if import_parameters:
        parameters = path.joinpath("parameters.conf")
        if parameters.exists():
            try:
                with parameters.open() as fp:
                    for line in fp:
                        if "=" in line:
                            k, v = line.split("=")
                            params[k.strip()] = v.strip()
            except ValueError:  # pragma: no cover
                logger.warning("Parameters could not be read from parameters.conf.")

        for old, (new, mult) in param_conversion.items():
            if old in params:
                params[new] = float(params.pop(old)) * mult

    # positions = path.joinpath("positions.txt")
    # if positions.exists():
    #     np.genfromtxt(
    #         (line for line in positions.open() if "," in line),
    #         delimiter=",",
    #         dtype=float,
    #     )

    if full:
        return data, params
    else:  # pragma: no cover
        return data
