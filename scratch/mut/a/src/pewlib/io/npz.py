"""
Import and export in pew's custom file format, based on numpy's compressed '.npz'.
This format svaes image data, laser parameters and calibrations in one file.
"""

import logging
import time
from importlib.metadata import version
from pathlib import Path

import numpy as np

from pewlib import Calibration, Config, Laser
from pewlib.config import SpotConfig
from pewlib.srr import SRRConfig, SRRLaser

logger = logging.getLogger(__name__)


def compare_version(va: str, vb: str) -> int:

    for a, b in zip(va.split("."), vb.split(".")):
        if int(a) > int(b):
            return 1
        elif int(a) < int(b):
            return -1
    return 0


def pack_info(
    info: dict[str, str], sep: str = "\t", remove_keys: list[str] | None = None
) -> np.ndarray:
    if remove_keys is None:
        remove_keys = ["File Path"]
    string = sep.join(
        f"{key.replace(sep, ' ')}{sep}{val.replace(sep, ' ')}"
        for key, val in info.items()
        if key not in remove_keys
    )  # Makes no sense to store file path so drop it
    return np.array(string)


def unpack_info(x: np.ndarray, sep: str = "\t") -> dict[str, str]:
    tokens = str(x).split(sep)
    return {key: val for key, val in zip(tokens[::2], tokens[1::2])}


def pack_calibration(dict: dict[str, Calibration]) -> np.ndarray:
    size = max(v.x.size for v in dict.values())
    data = np.stack([v.to_array(size=size) for v in dict.values()])
    elements = np.array([k for k in dict.keys()])
    # recfunctions.append_fields does not like 0 length,
    # i.e. when no calibration with points
    packed = np.empty(
        data.size, dtype=[("element", elements.dtype), ("calibration", data.dtype)]
    )
    packed["element"] = elements
    packed["calibration"] = data
    return packed


def unpack_calibration(x: np.ndarray) -> dict[str, Calibration]:
    calibration = {i["element"]: Calibration.from_array(i["calibration"]) for i in x}
    return calibration


def load(path: str | Path) -> Laser:
    """Loads data from '.npz' file.

    Loads files created using :func:`pewlib.io.npz.save`.
    On load the a :class:`Laser` or :class:`SRRLaser` is reformed from the saved data.

    Args:
        path: path to '.npz'

    Returns:
        :class:`Laser` or :class:`SRRLaser`

    Raises:
        ValueError: incomatible version

    See Also:
        :func:`numpy.load`
    """
    if isinstance(path, str):  # pragma: no cover
        path = Path(path)

    npz = np.load(path)

    if "header" not in npz.files:
        if (
            "_version" not in npz.files
            or compare_version(str(npz["_version"]), "0.6.0") == -1
        ):  # pragma: no cover
            raise ValueError(
                "NPZ Version mismatch, only versions >=0.6.0 are supported."
            )
        else:  # < 0.8.0 Prior to use of header
            header = {"version": npz["_version"], "class": npz["_class"]}
    else:
        header = unpack_info(npz["header"])

    data = npz["data"]

    # Compatibility with old file verions
    if (
        compare_version(str(header["version"]), "0.7.0") == -1
    ):  # Prior to use of info dict
        info = {"Name": str(npz["name"])}
    else:
        info = unpack_info(npz["info"])

    if (
        compare_version(str(header["version"]), "0.8.0") == -1
    ):  # Prior to use of packed calibrations
        calibration = {}
        for name in data.dtype.names:
            calibration[name] = Calibration.from_array(npz[f"calibration_{name}"])
    else:
        calibration = unpack_calibration(npz["calibration"])

    # if header["version"] < version("pewlib"):
    #     logger.info(
    #         f"NPZ version of {path} is out of date. {header['version']} < 0.8.0."
    #     )

    if header["class"] in ["Laser", "Raster"]:
        laser = Laser
        config = Config.from_array(npz["config"])
    elif header["class"] in ["Spot"]:
        laser = Laser
        config = SpotConfig.from_array(npz["config"])
    elif header["class"] in ["SRRLaser", "SRR"]:
        laser = SRRLaser  # type: ignore
        config = SRRConfig.from_array(npz["config"])
    else:  # pragma: no cover
        raise ValueError("NPZ unable to import laser class {npz['_class']}.")

    # Update the path
    info["Name"] = info.get("Name", path.stem)  # Ensure name
    info["File Path"] = str(path.resolve())
    info["File Version"] = str(header["version"])

    return laser(
        data=data,
        calibration=calibration,
        config=config,  # type: ignore
        info=info,
    )


def save(path: str | Path, laser: Laser | SRRLaser) -> None:
    """Saves data to '.npz' file.

    Converts a :class:`Laser` or :class:`SRRLaser` to a series of `np.ndarray`
    which are then saved to a compressed '.npz' archive. The time and current
    version are also saved. If `path` does not end in '.npz' it is
    appended.

    Args:
        path: path to save to
        laser: :class:`Laser` or :class:`SRRLaser`

    See Also:
        :func:`numpy.savez_compressed`
    """
    np.savez_compressed(
        path,
        header=pack_info(
            {
                "version": version("pewlib"),
                "class": str(laser.config._class),
                "time": str(time.time()),
            }
        ),
        data=laser.data,
        calibration=pack_calibration(laser.calibration),
        info=pack_info(laser.info),
        config=laser.config.to_array(),
    )
