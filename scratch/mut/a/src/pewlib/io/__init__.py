from . import agilent, csv, imzml, laser, npz, perkinelmer, textimage, thermo, vtk
