#cython: language_level=3

import numpy as np

from libc.math cimport sqrt

DTYPE = np.byte

def zscore_peaks(
    x: np.ndarray, lag: Py_ssize_t, threshold: float = 3.3, influence: float = 0.5
) -> tuple[np.ndarray, np.ndarray]:
    cdef double[:] x_view = x
    cdef char[:] signal = np.zeros(x.size, dtype=DTYPE)
    cdef double[:] filtered = x.copy()

    cdef Py_ssize_t i
    cdef double mean
    cdef double std
    for i in range(lag, x.shape[0]):
        mean = calcmean(filtered, i - lag, i)
        std = calcstd(filtered, i - lag, i , mean)

        if abs(x_view[i] - mean) > std * threshold:
            signal[i] = 1 if x_view[i] > mean else -1
            filtered[i] = influence * x_view[i] + (1.0 - influence) * filtered[i - 1]


    return np.array(signal), np.array(filtered)


cdef double calcmean(double[:] x, Py_ssize_t start, Py_ssize_t end):
    cdef double sum = 0.0
    cdef Py_ssize_t i
    for i in range(start, end):
        sum += x[i]
    return sum / (end - start)


cdef double calcstd(double[:] x, Py_ssize_t start, Py_ssize_t end, double mean):
    cdef double std = 0.0
    cdef Py_ssize_t i
    for i in range(start, end):
        std += (x[i] - mean) ** 2
    return sqrt(std / (end - start))
