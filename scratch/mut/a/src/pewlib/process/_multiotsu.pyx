#cython: language_level=3

import numpy as np

def multiotsu(x: np.ndarray, levels: int, nbins: int = 256) -> list[float]:
    p, bin_edges = np.histogram(x.ravel(), bins=nbins, density=True)

    cdef float [:, :] H = np.empty((nbins, nbins), dtype=np.float32)
    multiotsu_build_H(p, H, nbins)

    t = np.zeros(levels, dtype=np.int32)
    if levels == 2:
        multiotsu_two_level(H, nbins, t)
    elif levels == 3:
        multiotsu_three_level(H, nbins, t)
    else:
        raise ValueError("Levels must be 2 or 3.")

    return (bin_edges[t] + bin_edges[t + 1]) / 2.0


cdef multiotsu_build_H(double[:] p, float[:, :] H, int nbins):
    cdef Py_ssize_t i, j

    cdef float [:] P = np.empty(nbins, dtype=np.float32)
    cdef float [:] S = np.empty(nbins, dtype=np.float32)

    P[0] = S[0] = p[0]

    for i in range(1, nbins):
        P[i] = p[i] + P[i - 1]
        S[i] = p[i] * i + S[i - 1]

        H[0, i] = S[i] * S[i]
        if P[i] != 0.0:
            H[0, i] /= P[i]

    for i in range(1, nbins):
        for j in range(i, nbins):
            Pij = P[j] - P[i - 1]
            Sij = S[j] - S[i - 1]
            H[i, j] = Sij * Sij
            if Pij != 0.0:
                H[i, j] /= Pij


cdef multiotsu_two_level(float[:, :] H, int nbins, int[:] t):
    cdef float smax = 0.0
    cdef float s

    cdef Py_ssize_t i, j

    for i in range(1, nbins - 2):
        for j in range(i + 1, nbins - 1):
            s = H[1, i] + H[i + 1, j] + H[j + 1, nbins - 1]
            if s > smax:
                smax = s
                t[0], t[1] = i, j


cdef multiotsu_three_level(float[:, :] H, int nbins, int[:] t):
    cdef float smax = 0.0
    cdef float s

    cdef Py_ssize_t i, j, k

    for i in range(1, nbins - 3):
        for j in range(i + 1, nbins - 2):
            for k in range(j + 1, nbins - 1):
                s = H[1, i] + H[i + 1, j] + H[j + 1, k] + H[k + 1, nbins - 1]
                if s > smax:
                    smax = s
                    t[0], t[1], t[2] = i, j, k
