import numpy as np


def otsu(x: np.ndarray, remove_nan: bool = False) -> float:
    """Calculates the otsu threshold.

    The Otsu threshold minimises intra-class variance for a two class system.
    If `remove_nan` then all nans are removed before computation.

    Args:
        x: array
        remove_nan: remove nan values

    See Also:
        :func:`skimage.filters.threshold_otsu`
    """
    if remove_nan:
        x = x[~np.isnan(x)]

    hist, bin_edges = np.histogram(x, bins=256)
    bin_centers = (bin_edges[1:] + bin_edges[:-1]) / 2.0

    w1 = np.cumsum(hist)
    w2 = np.cumsum(hist[::-1])[::-1]

    u1 = np.cumsum(hist * bin_centers) / w1
    u2 = (np.cumsum((hist * bin_centers)[::-1]) / w2[::-1])[::-1]

    i = np.argmax(w1[:-1] * w2[1:] * (u1[:-1] - u2[1:]) ** 2)
    return bin_centers[i]
