from collections.abc import Callable

import numpy as np

from pewlib.process.calc import local_maxima, reset_cumsum, view_as_blocks

PEAK_DTYPE = np.dtype(
    {
        "names": ["height", "width", "area", "base", "top", "bottom", "left", "right"],
        "formats": [float, float, float, float, int, int, int, int],
    }
)


def cwt(
    x: np.ndarray, windows: np.ndarray, wavelet: Callable[..., np.ndarray]
) -> np.ndarray:
    """Performs a continuous wavelet transform.

    Args:
        x: array
        windows: int array of window sizes
        wavelet: wavelet function

    Returns:
        a 2d array of transforms"""
    cwt = np.empty((windows.shape[0], x.size), dtype=x.dtype)
    for i in range(cwt.shape[0]):
        n = np.amin((x.size, windows[i] * 10))
        cwt[i] = np.convolve(x, wavelet(n, windows[i]), mode="same")
    return cwt


def ricker_wavelet(size: int, sigma: float) -> np.ndarray:
    """The Ricker wavelet. For use with cwt."""
    x = np.linspace(-size / 2.0, size / 2.0, size)
    a = 2.0 / (np.sqrt(3.0 * sigma) * np.pi**0.25)
    return a * (1.0 - (x / sigma) ** 2) * np.exp(-(x**2 / (2.0 * sigma**2)))


def _cwt_identify_ridges(
    cwt_coef: np.ndarray, windows: np.ndarray, gap_threshold: int | None = None
) -> np.ndarray:
    if gap_threshold is None:
        gap_threshold = len(windows) // 4

    maxima = local_maxima(cwt_coef[-1])
    ridges = np.full((cwt_coef.shape[0], maxima.size), -1, dtype=int)
    ridges[-1] = maxima

    for i in np.arange(cwt_coef.shape[0] - 2, -1, -1):  # Start from second last row
        maxima = local_maxima(cwt_coef[i])

        idx = np.searchsorted(maxima, ridges[i + 1])
        idx1 = np.clip(idx, 0, maxima.size - 1)
        idx2 = np.clip(idx - 1, 0, maxima.size - 1)

        diff1 = maxima[idx1] - ridges[i + 1]
        diff2 = ridges[i + 1] - maxima[idx2]

        min_diffs = np.where(diff1 <= diff2, idx1, idx2)

        ridges[i] = np.where(
            np.abs(ridges[i + 1] - maxima[min_diffs]) <= windows[i] // 4,
            maxima[min_diffs],
            -1,
        )
        maxima[min_diffs] = -1

        remaining_maxima = maxima[maxima > -1]
        if remaining_maxima.size != 0:
            new_ridges = np.full(
                (cwt_coef.shape[0], remaining_maxima.shape[0]), -1, dtype=int
            )
            new_ridges[i] = remaining_maxima
            ridges = np.hstack((ridges, new_ridges))

    return ridges


def _cwt_filter_ridges(
    ridges: np.ndarray,
    cwt_coef: np.ndarray,
    min_length: int | None = None,
    noise_window: int = 100,
    min_noise: float | None = None,
    min_snr: float = 10.0,
) -> np.ndarray:
    if min_noise is None:
        min_noise = np.amax(np.abs(cwt_coef[0])) / 100.0
    if min_length is None:
        min_length = ridges.shape[0] // 2

    # Trim ridges that are to short
    ridge_lengths = np.count_nonzero(ridges > -1, axis=0)
    ridges = ridges[:, ridge_lengths > min_length]

    # Build array of ridge values, filter out non valid ridges
    values = np.take_along_axis(cwt_coef, ridges, axis=1)
    max_rows = np.argmax(np.where(ridges > -1, values, 0), axis=0)
    max_cols = np.take_along_axis(ridges, max_rows[np.newaxis, :], axis=0)[0]

    col_order = np.argsort(max_cols)

    max_coords = np.vstack((max_rows[col_order], max_cols[col_order]))

    # Reducing number of windows here improves performance
    cwt_pad = np.pad(
        cwt_coef[0],
        (noise_window // 2, noise_window - noise_window // 2 - 1),
        mode="edge",
    )
    windows = view_as_blocks(cwt_pad, (noise_window,), (1,))[max_coords[1]]
    signals = cwt_coef[max_coords[0], max_coords[1]]
    noises = np.percentile(np.abs(windows), 10, axis=1)
    noises[noises < min_noise] = min_noise

    snrs = signals / noises

    ridges = ridges[:, col_order][:, snrs > min_snr]
    max_coords = max_coords[:, snrs > min_snr]

    return ridges, max_coords


# def _zscore_peaks(
#     x: np.ndarray, lag: int, threshold: float = 3.3, influence: float = 0.5
# ) -> Tuple[np.ndarray, np.ndarray, np.ndarray, np.ndarray]:

#     signal = np.zeros(x.size, dtype=np.int8)
#     filtered = x.copy()
#     means = np.empty_like(x)
#     means[:lag] = x[:lag]
#     stds = np.zeros_like(x)

#     for i in range(lag, x.shape[0]):
#         means[i] = np.mean(filtered[i - lag : i])
#         stds[i] = np.std(filtered[i - lag : i])

#         if np.abs(x[i] - means[i]) > stds[i] * threshold:
#             signal[i] = 1 if x[i] > means[i] else -1
#             filtered[i] = influence * x[i] + (1.0 - influence) * filtered[i - 1]

#     return signal, filtered, means, stds


def find_peaks_cwt(
    x: np.ndarray,
    min_midth: int,
    max_width: int,
    ridge_gap_threshold: int | None = None,
    ridget_min_length: int | None = None,
    ridge_min_snr: float = 9.0,
    width_factor: float = 2.5,
    peak_base_method: str = "baseline",
    peak_height_method: str = "maxima",
    peak_min_area: float = 0.0,
    peak_min_height: float = 0.0,
    peak_min_width: float = 0.0,
) -> np.ndarray:
    """Finds peaks in `x` using continuous wavelet transformations.

    Data is convolved various width wavelets and the resulting ridges are used to detect
    peaks. Widths should cover the expected peak width / 2.
    Ridges must have appropriate length and SNRs to be accepted as peaks.

    Args:
        x: 1d array
        min_midth: minimum wavelet width
        max_width: maximum wavelet width
        ridge_gap_threshold: maximum allowable ridge gap
        ridget_min_length: minimum ridge length, deafults to length / 2
        ridge_min_snr: minimum ridge signal to noise
        width_factor: peak width multiplier
        peak_base_method: method for determining peak base
        peak_height_method: method for determining peak height
        peak_min_area: minimum peak area
        peak_min_height: minimum peak height
        peak_min_width: minimum peak width

    Returns:
        array of peaks, dtype=`pewlib.peakfinding.PEAK_DTYPE`

    See Also:
        :func:`pewlib.peakfinding.peaks_from_edges`
        :func:`pewlib.peakfinding.filter_peaks`
    """

    windows = np.arange(min_midth, max_width)
    cwt_coef = cwt(x, windows, ricker_wavelet)
    ridges = _cwt_identify_ridges(cwt_coef, windows, gap_threshold=ridge_gap_threshold)
    ridges, ridge_maxima = _cwt_filter_ridges(
        ridges,
        cwt_coef,
        noise_window=windows[-1] * 4,
        min_length=ridget_min_length,
        min_snr=ridge_min_snr,
    )

    if ridges.size == 0:  # pragma: no cover
        return np.array([], dtype=PEAK_DTYPE)

    widths = (np.take(windows, ridge_maxima[0]) * width_factor).astype(int)
    lefts = np.clip(ridge_maxima[1] - widths // 2, 0, x.size - 1)
    rights = np.clip(ridge_maxima[1] + widths // 2, 1, x.size)

    peaks = peaks_from_edges(
        x, lefts, rights, base_method=peak_base_method, height_method=peak_height_method
    )

    peaks = filter_peaks(
        peaks,
        min_area=peak_min_area,
        min_height=peak_min_height,
        min_width=peak_min_width,
    )

    return peaks


def find_peaks_windowed(
    x: np.ndarray,
    size: int,
    baseline: Callable,
    threshold: Callable,
    peak_base_method: str = "baseline",
    peak_height_method: str = "maxima",
    peak_min_area: float = 0.0,
    peak_min_height: float = 0.0,
    peak_min_width: float = 0.0,
):
    """Finds peaks in `x` using a windowed threshold.

    Peaks are regions where `x` > `baseline` + `threshold`.
    Both `baseline` and `threshold` functions must accept an axis kwarg as
    they are applied to a rolling view of the array.

    Args:
        x: 1d array
        baseline: function for baseline, i.e. np.mean
        threshold: function for threshold
        peak_base_method: method for determining peak base
        peak_height_method: method for determining peak height
        peak_min_area: minimum peak area
        peak_min_height: minimum peak height
        peak_min_width: minimum peak width

    Returns:
        array of peaks, dtype=`pewlib.peakfinding.PEAK_DTYPE`

    See Also:
        :func:`pewlib.peakfinding.filter_peaks`
        :func:`pewlib.peakfinding.peaks_from_edges`
    """
    x_pad = np.pad(x, [size // 2, size - size // 2 - 1], mode="edge")
    windows = view_as_blocks(x_pad, (size,), (1,))

    baseline = baseline(windows, axis=1)
    threshold = threshold(windows, axis=1)

    diff = np.diff((x > (baseline + threshold)).astype(np.int8), prepend=0)
    lefts = np.flatnonzero(diff == 1)
    rights = np.flatnonzero(diff == -1)

    if lefts.size == 0 or rights.size == 0:  # pragma: no cover
        return np.array([], dtype=PEAK_DTYPE)

    if lefts.size > rights.size:  # pragma: no cover
        lefts = lefts[1:]
    elif rights.size > lefts.size:  # pragma: no cover
        rights = rights[:-1]

    peaks = peaks_from_edges(
        x,
        lefts,
        rights,
        base_method=peak_base_method,
        height_method=peak_height_method,
        baseline=baseline,
    )

    peaks = filter_peaks(
        peaks,
        min_area=peak_min_area,
        min_height=peak_min_height,
        min_width=peak_min_width,
    )

    return peaks


# def find_peaks_zscore(
#     x: np.ndarray,
#     lag: int = 10,
#     threshold: float = 3.3,
#     influence: float = 0.5,
#     peak_base_method: str = "baseline",
#     peak_height_method: str = "maxima",
#     peak_min_area: float = 0.0,
#     peak_min_height: float = 0.0,
#     peak_min_width: float = 0.0,
#     use_cython: bool = False,
# ) -> np.ndarray:

#     if use_cython:
#         from pewlib.process.zscore import zscore_peaks

#         signal, _ = zscore_peaks(x, lag, threshold, influence)
#     else:
#         signal, _ = _zscore_peaks(x, lag, threshold, influence)
#     signal[signal < 0] = 0  # Only look at positive peaks

#     lefts = np.nonzero(np.logical_and(signal[:-1] == 0, signal[1:] == 1))[0]
#     rights = np.nonzero(np.logical_and(signal[1:] == 0, signal[:-1] == 1))[0] + 1
#     lefts = lefts[: rights.size]  # In case peak overlaps end

#     peaks = peaks_from_edges(
#         x, lefts, rights, base_method=peak_base_method, height_method=peak_height_method
#     )

#     peaks = filter_peaks(
#         peaks,
#         min_area=peak_min_area,
#         min_height=peak_min_height,
#         min_width=peak_min_width,
#     )

#     return peaks


def insert_missing_peaks(
    peaks: np.ndarray,
    distance: float | None = None,
    param: str = "top",
    missing_peak_area: float = 0.0,
) -> np.ndarray:
    """Inserts missing peaks in a regularly spaced aquisition.

    If a gap in `param` greater than `distance` exists then peaks are inserted
    until no gap remains.

    Args:
        peaks: array of PEAK_DTYPE
        distance: gap thrshold, defaults to median distance * 1.1
        param: peak parameters used
        missing_peak_area: inserted peak area
    Returns:
        array with peaks inserted
    """
    assert peaks.ndim == 1

    if distance is None:
        distance = np.median(np.diff(peaks[param])) * 1.1

    diffs = np.diff(peaks[param])
    idx = np.flatnonzero(diffs > distance)
    missing_peak_counts = (diffs[idx] // distance).astype(int)

    # Insert more peaks were required
    idx = np.repeat(idx, missing_peak_counts)

    # Get the distance new peaks are offset
    distances = np.concatenate((np.diff(idx) == 0, [0]))
    distances = (reset_cumsum(distances, 0) + 1) * distance

    missing_peaks = np.zeros(np.sum(missing_peak_counts), dtype=peaks.dtype)
    missing_peaks["area"] = missing_peak_area
    missing_peaks[param] = peaks[param][idx] + distances

    return np.insert(peaks, idx + 1, missing_peaks)


def filter_peaks(
    peaks: np.ndarray,
    min_area: float = 0.0,
    min_height: float = 0.0,
    min_width: float = 0.0,
) -> np.ndarray:
    """Filters peaks based on area, height and width."""
    bad_area = peaks["area"] < min_area
    bad_heights = peaks["height"] < min_height
    bad_widths = peaks["width"] < min_width
    bad_peaks = np.logical_or.reduce((bad_area, bad_heights, bad_widths))

    return peaks[~bad_peaks]


def peaks_from_edges(
    x: np.ndarray,
    lefts: np.ndarray,
    rights: np.ndarray,
    base_method: str = "baseline",
    height_method: str = "maxima",
    baseline: np.ndarray | None = None,
) -> np.ndarray:
    """Creates a peak array from left and right indicies.

    Args:
        x: array
        lefts: left indices of peaks
        right: right indices of peaks
        base_method: method for determining peak base
        height_method: method for determining peak height
        baseline: value for 'baseline' `base_method`

    Returns:
        array of peaks, dtype=`pewlib.peakfinding.PEAK_DTYPE`
    """
    # TODO: This could be done using ufunc.reduceat
    widths = rights - lefts
    indicies = lefts + np.arange(np.amax(widths) + 1)[:, None]
    indicies = np.clip(indicies, 0, x.size - 1)
    indicies = np.where(indicies - lefts < widths, indicies, rights)

    if height_method == "center":
        tops = (lefts + rights) // 2
    elif height_method == "maxima":
        tops = np.argmax(x[indicies], axis=0) + lefts
    else:  # pragma: no cover
        raise ValueError("Valid values for height_method are 'center', 'maxima'.")

    if base_method == "baseline":
        bottoms = tops  # Default to tops
        bwin = np.amax(widths) * 4
        if baseline is None:
            x_pad = np.pad(x, (bwin // 2, bwin - bwin // 2 - 1), mode="edge")
            windows = view_as_blocks(x_pad, (bwin,), (1,))
            bases = np.percentile(windows[bottoms], 25, axis=1)
        else:
            bases = baseline[bottoms]
    elif base_method == "edge":
        bottoms = np.minimum(lefts, rights)
        bases = x[bottoms]
    elif base_method == "minima":
        bottoms = np.argmin(x[indicies], axis=0) + lefts
        bases = x[bottoms]
    elif base_method == "prominence":
        bottoms = np.maximum(lefts, rights)
        bases = x[bottoms]
    elif base_method == "zero":
        bottoms = tops  # Default to tops
        bases = 0.0
    else:
        raise ValueError(  # pragma: no cover
            "Valid values for base_method are 'baseline', "
            "'edge', 'prominence', 'minima', 'zero'."
        )

    area = np.trapezoid(x[indicies] - bases, indicies, axis=0)

    peaks = np.empty(tops.shape, dtype=PEAK_DTYPE)
    peaks["area"] = area
    peaks["height"] = x[tops] - bases
    peaks["width"] = widths
    peaks["base"] = bases
    peaks["top"] = tops
    peaks["bottom"] = bottoms
    peaks["left"] = lefts
    peaks["right"] = rights
    return peaks
