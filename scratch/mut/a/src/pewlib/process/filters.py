"""Filtering can be used to remove artifacts, such as spikes, from images.
Care must be taken when using filtering to ensure that legitmate data is not
also altered.
"""

import numpy as np

from pewlib.process.calc import view_as_blocks


def rolling_mean(
    x: np.ndarray, block: int | tuple[int, ...], threshold: float = 3.0
) -> np.ndarray:
    """Filter an array using rolling mean.

    Each value of `x` is compared to the mean of its `block`, the values arround it.
    If it is `threshold` times the standard deviation *with the central value* then
    it is considered an outlier. Outliers are set to the local mean *without the
    central value*.

    Args:
        x: array
        block: size of window, int or same dims as `x`
        threshold: number of stddevs away from mean to consider outlier

    Returns:
        array with outliers set to local means

    Example
    -------

    Removing spikes from 1d data.

    >>> import numpy as np
    >>> from pewlib.process import filters
    >>> a = np.sin(np.linspace(0, 1, 50))
    >>> a[5::10] +=np.random.choice([-1, 1], size=10)
    >>> b = filters.rolling_mean(a, 3, threshold=1.0)

    .. plot::

        import matplotlib.pyplot as plt
        import numpy as np
        from pewlib.process import filters
        a = np.sin(np.linspace(0, 10, 50))
        a[5::10] +=np.random.choice([-1, 1], size=5)
        b = filters.rolling_mean(a, 3, threshold=1.0)

        plt.plot(a, c="black")
        plt.plot(b, ls=":", c="red", label="filtered")
        plt.legend()
        plt.show()
    """
    if isinstance(block, int):
        block = tuple([block] * x.ndim)
    assert len(block) == x.ndim

    # Prepare array by padding with nan
    pads = [(b // 2, b // 2) for b in block]
    x_pad = np.pad(x, pads, mode="mean", stat_length=pads)  # type: ignore

    blocks = view_as_blocks(x_pad, block, tuple([1] * x.ndim))

    # Calculate means and stds
    axes = tuple(np.arange(x.ndim, x.ndim * 2))

    means = np.mean(blocks, axis=axes)

    mask = np.ones(block, dtype=bool)
    mask[tuple(np.array(block) // 2)] = False

    # Mask out central (tested) value when calculating stddev
    masked_stds = np.std(blocks, axis=axes, where=mask)
    # Recalc means without central value
    masked_means = np.mean(blocks, axis=axes, where=mask)

    # Check for outlying values and set as nan
    outliers = np.abs(x - means) > threshold * masked_stds

    return np.where(outliers, masked_means, x)


def rolling_median(
    x: np.ndarray,
    block: int | tuple[int, ...],
    threshold: float = 3.0,
) -> np.ndarray:
    """Filter an array using rolling median.

    Each value of `x` is compared to the median of its `block`, the values arround it.
    If it is `threshold` times the stdev from the median then it is considered an
    outlier. Outliers are set to the local median.

    Args:
        x: array
        block: size of window, int or same dims as `x`
        threshold: number of SDs (via MAD) away from median to consider outlier

    Returns:
        array with outliers set to local means

    Example
    -------

    Removing poisson noise from an image.

    >>> import numpy as np
    >>> from pewlib.process import filters
    >>> a = np.sin(np.linspace(0, 1, 2500).reshape((50, 50)))
    >>> a += np.random.poisson(lam=0.01, size=(50, 50))
    >>> b = filters.rolling_median(a, (5, 5), threshold=3.0)

    .. plot::

        import matplotlib.pyplot as plt
        import numpy as np
        from pewlib.process import filters
        a = np.sin(np.linspace(0, 1, 2500).reshape((50, 50)))
        a += np.random.poisson(lam=0.01, size=(50, 50))
        b = filters.rolling_median(a, (5, 5), threshold=3.0)

        f, ax = plt.subplots(1, 2)
        ax[0].imshow(a, vmax=1.0)
        ax[0].set_title("raw image 'a'")
        ax[1].imshow(b, vmax=1.0)
        ax[1].set_title("filtered image 'b'")
        plt.show()

    """
    if isinstance(block, int):  # pragma: no cover
        block = tuple([block] * x.ndim)
    assert len(block) == x.ndim

    # Prepare array by padding with nan
    pads = [(b // 2, b // 2) for b in block]
    y = np.pad(x, pads, mode="median", stat_length=pads)  # type: ignore

    blocks = view_as_blocks(y, block, tuple([1] * x.ndim))

    # Calculate median and differences
    axes = tuple(np.arange(x.ndim, x.ndim * 2))
    medians = np.median(blocks, axis=axes)

    # Remove padding and set to differences
    diff = np.abs(x - medians)
    diff_pad = np.pad(diff, pads, mode="median", stat_length=pads)  # type: ignore
    diff_blocks = view_as_blocks(diff_pad, block, tuple([1] * x.ndim))

    # Median of differences
    mad = np.median(diff_blocks, axis=axes) * 1.4826  # estimate stddev

    # Outliers are n medians from data
    outliers = diff > threshold * mad

    return np.where(outliers, medians, x)
