"""Module for registering and merging images."""

from collections.abc import Sequence

import numpy as np
import numpy.lib.recfunctions as rfn


def anchor_offset(a: np.ndarray, b: np.ndarray, anchor: str) -> tuple[int, int]:
    """Return offset of `b` from `a` given a common achor point.

    Both `a` and `b` must be 2d arrays.
    Valid anchors are 'top left', 'top right', 'bottom left', 'bottom right' or
    'center'.

    Args:
        anchor: anchor poisition
        a: nd array
        b: nd array

    Returns:
        offset of 'b' from 'a' in pixels
    """
    assert a.ndim == 2 and b.ndim == 2

    if anchor == "top left":
        return (0, 0)
    elif anchor == "top right":
        return (0, a.shape[1] - b.shape[1])
    elif anchor == "bottom left":
        return (a.shape[0] - b.shape[0], 0)
    elif anchor == "bottom right":
        return (a.shape[0] - b.shape[0], a.shape[1] - b.shape[1])
    elif anchor == "center":
        return tuple((np.array(a.shape, dtype=int) + b.shape) // 2 - b.shape)
    else:  # pragma: no cover
        raise ValueError("Unknown anchor string.")


def fft_register_offset(a: np.ndarray, b: np.ndarray) -> tuple[int, ...]:
    """Register two images using FFT correlation.

    Arrays are zero-padded to `a.shape` + `b.shape` - 1

    Args:
        a: nd array
        b: nd array

    Returns:
        offset of 'b' from 'a' in pixels
    """
    s = np.array(a.shape) + b.shape - 1
    a_shape = np.array(a.shape)

    a = np.pad(a, np.stack((np.zeros(a.ndim, dtype=int), s - a.shape), axis=1))
    b = np.pad(b, np.stack((np.zeros(b.ndim, dtype=int), s - b.shape), axis=1))

    # pass the shape, the default output is one short when the last axis is odd
    xcorr = np.fft.irfftn(np.fft.rfftn(a) * np.fft.rfftn(b).conj(), s=s)

    # offsets up to the size of a are stored first, negative offsets wrap to the end
    idx = np.array(np.unravel_index(np.argmax(xcorr), xcorr.shape))
    return np.where(idx < a_shape, idx, idx - s)


def overlap_arrays(
    arrays: list[np.ndarray],
    offsets: list[Sequence[int]],
    fill: float = np.nan,
    mode: str = "replace",
) -> np.ndarray:
    """Merges two arrays by enlarging.

    Creates a new array from `arrays` by positioning each array at its respective,
    simplified offset from `offsets`. Non-overlapping areas are filled with `fill`.
    Overlapped values are calculated using `mode`. Mode 'replace' will replace
    values with those last in `array`, 'mean' and 'sum' uses the mean and sum of
    `arrays` respectively.

    Args:
        arrays: list of arrays
        offsets: offset for each array
        fill: value for non-overlapping areas
        mode: value for overlapped areas, {'replace', 'mean', 'sum'}

    Returns:
        new overlapped array, same dtype as arrays[0]

    Example
    -------

    >>> import numpy as np
    >>> from pewlib.process import register
    >>> a = np.arange(9.0).reshape(3, 3)
    >>> b = np.arange(9.0).reshape(3, 3)
    >>> c = register.overlap_arrays([a, b], [(0, 0), (2, 2)], fill=0, mode="sum")


    .. plot::

        import numpy as np
        from pewlib.process import register
        import matplotlib.pyplot as plt
        c = register.overlap_arrays(
            [np.arange(9.0).reshape(3, 3), np.arange(9.0).reshape(3, 3)],
            [(0, 0), (2, 2)], fill=0, mode="sum"
        )

        plt.imshow(c)
        plt.show()
    """

    if not all(a.ndim == arrays[0].ndim for a in arrays):  # pragma: no cover
        raise ValueError("Arrays must have the same dimensions.")

    min_offset = np.amin(offsets, axis=0)
    offsets = [(offset - min_offset) for offset in offsets]
    new_shape = np.amax(
        [np.array(offset) + a.shape for offset, a in zip(offsets, arrays)], axis=0
    )

    # sums start from zero, the fill is applied to unvisited values afterwards
    overlap = np.full(
        new_shape, fill if mode == "replace" else 0, dtype=arrays[0].dtype
    )
    visits = np.zeros(new_shape, dtype=int)  # Track idx for mean calc
    for i, (offset, array) in enumerate(zip(offsets, arrays)):
        slice_idx = tuple(slice(o, o + s) for o, s in zip(offset, array.shape))
        if mode == "replace":
            nans = np.isnan(array)
            overlap[slice_idx][~nans] = array[~nans]
        elif mode == "mean" or mode == "sum":
            overlap[slice_idx] = np.nansum([overlap[slice_idx], array], axis=0)
        visits[slice_idx][~np.isnan(array)] += 1

    if mode == "mean" or mode == "sum":
        overlap[visits == 0] = fill
    if mode == "mean":
        overlap[visits > 1] /= visits[visits > 1]

    return overlap


def overlap_structured_arrays(
    arrays: list[np.ndarray],
    offsets: list[Sequence[int]],
    fill: float = np.nan,
    mode: str = "replace",
) -> np.ndarray:
    """Merges two structured arrays by enlarging.

    Shared names in `arrays` are calculated using `mode` where overlap occurs.

    Args:
        arrays: list of arrays
        offset: offset for each array
        fill: value for non-overlapping areas
        mode: value for overlapped areas, {'replace', 'mean', 'sum'}

    Returns:
        new overlapped array

    See Also:
        :func:`pewlib.process.register.overlap_arrays`
    """
    min_offset = np.amin(offsets, axis=0)
    offsets = [(offset - min_offset) for offset in offsets]
    rfn.merge_arrays
    new_shape = np.amax(
        [np.array(offset) + a.shape for offset, a in zip(offsets, arrays)], axis=0
    )
    new_dtype = list(arrays[0].dtype.descr)
    for array in arrays[1:]:
        new_dtype.extend([x for x in array.dtype.descr if x not in new_dtype])
    c = np.empty(new_shape, dtype=new_dtype)
    for name in c.dtype.names:
        name_arrays = [
            array[name] if name in array.dtype.names else np.full(array.shape, np.nan)
            for array in arrays
        ]
        c[name] = overlap_arrays(name_arrays, offsets, fill=fill, mode=mode)
    return c
