from .srr import SRRLaser
from .config import SRRConfig
