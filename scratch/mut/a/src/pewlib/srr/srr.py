"""
Class for Super-Resolution-Reconstruction (SRR) LA-ICP-MS.
SRR is performed by ablating layers of a sample in a line-by-line fashion.
Layers are offset by a faction of the spotsize to increase image resolution.
The resulting image is 3d, but can be flattened to a higher resolution 2d image.

References:
    Westerhausen, M. T.; Bishop, D. P.; Dowd, A.; Wanagat, J.; Cole, N.
    & Doble, P. A. Super-Resolution Reconstruction for Two- and Three-Dimensional
    LA-ICP-MS Bioimaging Analytical Chemistry, American Chemical Society (ACS), 2019
"""

import copy

import numpy as np
import numpy.lib.recfunctions as rfn

from pewlib.calibration import Calibration
from pewlib.laser import Laser
from pewlib.process.calc import subpixel_offset_equal
from pewlib.srr.config import SRRConfig


class SRRLaser(Laser):
    """Class for SRR laser data.

    Args:
        data: list of structured arrays
        calibration: dict mapping elements to calibrations, optional
        config: SRR laser parameters
        info: dict(str, str) of additional info

    See Also:
        :class:`pewlib.laser.Laser`
    """

    def __init__(
        self,
        data: list[np.ndarray],
        calibration: dict[str, Calibration] | None = None,
        config: SRRConfig | None = None,
        info: dict[str, str] | None = None,
    ):
        assert len(data) > 1
        # a list, so that layers can be replaced, e.g. when loaded as one stacked array
        self.data: list[np.ndarray] = list(data)
        self.calibration = {name: Calibration() for name in self.elements}
        if calibration is not None:
            self.calibration.update(copy.deepcopy(calibration))

        self.config: SRRConfig = (
            copy.copy(config) if config is not None else SRRConfig()
        )
        self.info = info or {}

    @property
    def extent(self) -> tuple[float, float, float, float]:
        """Data extent in μm

        This is calculated *post* SRR.
        """
        pixelsize = self.config.subpixels_per_pixel
        offset = np.max(self.config._subpixel_offsets)
        new_shape = np.array(self.shape[:2]) * self.config.magnification
        new_shape = new_shape * pixelsize + offset
        return self.config.data_extent(new_shape)

    @property
    def elements(self) -> tuple[str, ...]:
        if len(self.data) == 0:  # pragma: no cover
            return ()
        return self.data[0].dtype.names

    @property
    def layers(self) -> int:
        return len(self.data)

    @property
    def shape(self) -> tuple[int, ...]:
        return (self.data[0].shape[0], self.data[1].shape[0], len(self.data))

    def add(
        self,
        element: str,
        data: list[np.ndarray],
        calibration: Calibration | None = None,
    ) -> None:
        """Add an element."""
        assert len(data) == len(self.data)
        for i in range(0, len(self.data)):
            assert data[i].shape == self.data[i].shape
            dtype = self.data[i].dtype
            new_dtype = dtype.descr + [(element, data[i].dtype.str)]

            new_data = np.empty(self.data[i].shape, dtype=new_dtype)
            for name in dtype.names:
                new_data[name] = self.data[i][name]
            new_data[element] = data[i]
            self.data[i] = new_data

        if calibration is None:
            calibration = Calibration()
        self.calibration[element] = calibration

    def remove(self, names: str | list[str]) -> None:
        """Remove element(s)."""
        if isinstance(names, str):
            names = [names]
        for i in range(len(self.data)):
            self.data[i] = rfn.drop_fields(self.data[i], names, usemask=False)
        for name in names:
            self.calibration.pop(name)

    def rename(self, names: dict[str, str]) -> None:
        """Rename element(s).

        Args:
            names: dict mapping old to new name
        """
        for i in range(len(self.data)):
            self.data[i] = rfn.rename_fields(self.data[i], names)
        # rename all at once, so that swaps and chains keep their calibrations
        self.calibration = {
            names.get(name, name): cal for name, cal in self.calibration.items()
        }

    def get(
        self,
        element: str | None = None,
        calibrate: bool = False,
        extent: tuple[float, float, float, float] | None = None,
        flat: bool = False,
        layer: int | None = None,
        **kwargs,
    ) -> np.ndarray:
        """Get elemental data.

        If `element` is None then all elements are returned in a structured array.
        If a 2d array is required then `flat` will flatten the array by calculating
        the mean across the 2nd axis. If a `layer` is given then the layer is extracted
        otherwise SRR is performed and the resulting array returned.

        Args:
            element: element name, optional
            calibrate: apply calibration
            extent: trim to extent, μm
            flat: flatten to 2d
            layer: extract layer, optional

        Returns:
            structured if element is None else unstructured
            2d if layer or flat, else 3d
        """
        if layer is not None:
            data = self.data[layer].copy()
            # Flip alternate layers
            if layer % 2 == 1:
                data = data.T
        else:
            data = self.krisskross()

        if element is not None:
            data = data[element]

        if extent is not None:
            x0, x1, y0, y1 = extent
            px, py = (
                self.config.get_pixel_width(layer),
                self.config.get_pixel_height(layer),
            )
            # round off floating point error before truncation
            x0, x1 = int(round(x0 / px, 6)), int(round(x1 / px, 6))
            y0, y1 = int(round(y0 / py, 6)), int(round(y1 / py, 6))
            # We have to invert the extent, as mpl use bottom left y coords
            ymax = data.shape[0]
            data = data[ymax - y1 : ymax - y0, x0:x1]

        if calibrate:  # pragma: no cover, covered in laser
            if element is None:  # Perform calibration on all data
                for name in data.dtype.names:
                    data[name] = self.calibration[name].calibrate(data[name])
            else:
                data = self.calibration[element].calibrate(data)

        if flat and data.ndim > 2:
            if element is not None:
                data = np.mean(data, axis=2)
            else:
                structured = np.empty(data.shape[:2], data.dtype)
                for name in data.dtype.names:
                    structured[name] = np.mean(data[name], axis=2)
                data = structured

        return data

    def check_config_valid(self, config: SRRConfig) -> bool:
        """Checks if SRRConfig is valid for data."""
        return config.valid_for_data(self.data)

    def krisskross(self) -> np.ndarray:
        """Perform SRR."""
        # Calculate the line lengths
        mag = self.config.magnification
        mag = np.round(1.0 / mag if mag < 1.0 else mag).astype(int)
        mag_axis = 0 if self.config.magnification >= 1.0 else 1

        length = (
            self.data[1].shape[mag_axis] * mag,
            self.data[0].shape[mag_axis] * mag,
        )
        # Reshape the layers and stack into matrix
        aligned = np.empty(
            (length[1], length[0], self.layers), dtype=self.data[0].dtype
        )
        for i, layer in enumerate(self.data):
            # Trim data of warmup time and excess
            layer = layer[:, self.config._warmup : self.config._warmup + length[i % 2]]
            # Stretch array
            layer = np.repeat(layer, mag, axis=mag_axis)
            # Flip vertical layers
            if i % 2 == 1:
                layer = layer.T
            aligned[:, :, i] = layer

        return subpixel_offset_equal(
            aligned, self.config._subpixel_offsets, self.config.subpixels_per_pixel
        )

    @classmethod
    def from_list(
        cls,
        elements: list[str],
        layers: list[list[np.ndarray]],
        config: SRRConfig | None = None,
        info: dict[str, str] | None = None,
    ) -> "SRRLaser":
        """Creates class from a list of names and lists of unstructured arrays."""
        dtype = [(element, float) for element in elements]

        structured_layers = []
        for datas in layers:
            assert len(elements) == len(datas)
            structured = np.empty(datas[0].shape, dtype=dtype)
            for element, data in zip(elements, datas):
                structured[element] = data
            structured_layers.append(structured)

        return cls(data=structured_layers, config=config, info=info)

    @classmethod
    def from_lasers(cls, lasers: list[Laser]) -> "SRRLaser":
        """Stacks :class:`Laser` to form SRR.

        Calibration and config are taken from the first :class:`Laser`.
        """
        assert all(lasers[0].elements == laser.elements for laser in lasers[1:])

        config = SRRConfig(
            lasers[0].config.spotsize, lasers[0].config.speed, lasers[0].config.scantime
        )
        calibration = lasers[0].calibration
        data = [laser.data for laser in lasers]

        return cls(
            data=data,
            calibration=calibration,
            config=config,
            info=lasers[0].info,
        )
