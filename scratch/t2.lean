import PewProofs.Srr
namespace Pew.Srr
open Pew

theorem foldl_lcm_dvd_acc (l : List Nat) (a : Nat) : a ∣ l.foldl Nat.lcm a := by
  induction l generalizing a with
  | nil => simp
  | cons x xs ih => simp only [List.foldl_cons]; exact Nat.dvd_trans (Nat.dvd_lcm_left a x) (ih _)

theorem foldl_lcm_dvd_mem (l : List Nat) (a x : Nat) (h : x ∈ l) : x ∣ l.foldl Nat.lcm a := by
  induction l generalizing a with
  | nil => simp at h
  | cons y ys ih =>
    simp only [List.foldl_cons]
    rcases List.mem_cons.mp h with rfl | h'
    · exact Nat.dvd_trans (Nat.dvd_lcm_right a x) (foldl_lcm_dvd_acc ys _)
    · exact ih _ h'

theorem foldl_lcm_pos (l : List Nat) (a : Nat) (ha : 0 < a) (h : ∀ x ∈ l, 0 < x) : 0 < l.foldl Nat.lcm a := by
  induction l generalizing a with
  | nil => simpa
  | cons y ys ih =>
    simp only [List.foldl_cons]
    exact ih _ (Nat.lcm_pos ha (h y (by simp))) (fun x hx => h x (by simp [hx]))

theorem foldl_lcm_const (l : List Nat) (s : Nat) (h : ∀ x ∈ l, x = s) : l.foldl Nat.lcm s = s := by
  induction l with
  | nil => rfl
  | cons y ys ih =>
    simp only [List.foldl_cons]
    rw [h y (by simp), Nat.lcm_self]
    exact ih (fun x hx => h x (by simp [hx]))

theorem lcmList_const (l : List Nat) (s : Nat) (hne : l ≠ []) (h : ∀ x ∈ l, x = s) : lcmList l = s := by
  cases l with
  | nil => exact absurd rfl hne
  | cons y ys =>
    simp only [lcmList, List.foldl_cons]
    rw [h y (by simp), Nat.lcm_one_left]
    exact foldl_lcm_const ys s (fun x hx => h x (by simp [hx]))

theorem roundtrip_state (c : SrrConfig) (hs : c.scantime ≠ 0) (ho : c.offs ≠ []) (hz : 1 ≤ c.size) :
    SrrConfig.fromArray c.toArray = c := by
  have hw : roundHalfEven ((c.warmup : Rat) * c.scantime / c.scantime) = c.warmup := by
    rw [mul_div_assoc, div_self hs, mul_one]; exact roundHalfEven_intCast _
  have hl : lcmList ((c.offs.map (fun o => (o, c.size))).map (·.2)) = c.size := by
    apply lcmList_const
    · simpa using ho
    · intro x hx; simp at hx; exact hx.2.symm
  have hoff : (c.offs.map (fun o => (o, c.size))).map (fun od => od.1 * c.size / od.2) = c.offs := by
    rw [List.map_map]
    refine (List.map_congr_left (fun a _ => ?_)).trans (List.map_id _)
    simp only [Function.comp]
    exact Nat.mul_div_cancel a (by omega)
  cases c with
  | mk spotsize speed scantime warmup size offs =>
    simp only [SrrConfig.fromArray, SrrConfig.toArray, SrrConfig.make, SrrConfig.warmupSeconds,
      SrrConfig.subpixelOffsets] at hw hl hoff ⊢
    rw [hw, hl, hoff]

end Pew.Srr
