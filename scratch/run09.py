import sys, json, time
sys.path.insert(0, '/var/tmp/w/C10C09')
from harness import core
from harness.c09 import PROP
ctx = core.Ctx()
t0=time.time()
bad=0; feats={}
cases = [("t",i,c) for i,c in enumerate(PROP.targeted("quick"))] + list(core.gen_cases(PROP, int(sys.argv[1]) if len(sys.argv)>1 else 0, "quick", 200))
for kind,i,c in cases:
    o = PROP.evaluate(c, ctx)
    for f in o["features"]: feats[f]=feats.get(f,0)+1
    if not o["spec_ok"] or not o["model_ok"]:
        bad+=1
        if bad<=2:
            print(kind,i,json.dumps(c)); print("spec_ok",o["spec_ok"],"model_ok",o["model_ok"],"undet",o["undetermined"])
            print("impl", core.canon(o["impl"])[:1500]); print("spec", core.canon(o["spec"])[:1500]); print("model", core.canon(o["model"])[:800])
print("bad",bad,"of",len(cases),"time",time.time()-t0)
print(json.dumps(feats,indent=0,sort_keys=True))
ctx.close()
