/-! Spike: flattened row-major index, variable row width (C02 binary_pixel, C16 vtk, C09). -/

theorem flatten_index {α : Type} (M : List (List α)) (k : Nat)
    (hk : ∀ row ∈ M, row.length = k) (r j : Nat) (hr : r < M.length) (hj : j < k) :
    M.flatten[r * k + j]? = (M[r]?).bind (fun row => row[j]?) := by
  induction M generalizing r with
  | nil => simp at hr
  | cons row rest ih =>
    have hrow : row.length = k := hk row (by simp)
    cases r with
    | zero =>
      simp only [List.flatten_cons, Nat.zero_mul, Nat.zero_add, List.getElem?_cons_zero, Option.bind_some]
      rw [List.getElem?_append_left (by omega)]
    | succ r' =>
      have hr' : r' < rest.length := by simpa using hr
      have := ih (fun x hx => hk x (by simp [hx])) r' hr'
      simp only [List.flatten_cons, List.getElem?_cons_succ]
      rw [List.getElem?_append_right (by rw [hrow, Nat.succ_mul]; omega)]
      have e : (r' + 1) * k + j - row.length = r' * k + j := by rw [hrow, Nat.succ_mul]; omega
      rw [e, this]

/-- the clip in `binary_read_datafile` is inactive -/
theorem clip_inactive (R k r j : Nat) (hr : r < R) (hj : j < k) : r * k + j ≤ R * k - 1 := by
  have h1 : r * k + j < (r + 1) * k := by rw [Nat.succ_mul]; omega
  have h2 : (r + 1) * k ≤ R * k := Nat.mul_le_mul_right k hr
  omega

#print axioms flatten_index
#print axioms clip_inactive
