import Mathlib.Tactic.Linarith
import Mathlib.Tactic.Ring
import Mathlib.Tactic.FieldSimp
import Mathlib.Tactic.Positivity
import Mathlib.Algebra.Order.Field.Rat
import Mathlib.Algebra.BigOperators.Group.List.Basic
import Mathlib.Algebra.Order.BigOperators.Group.List

structure Pt where
  x : ℚ
  y : ℚ
  w : ℚ

def S (f : Pt → ℚ) (l : List Pt) : ℚ := (l.map f).sum

@[simp] theorem S_nil (f : Pt → ℚ) : S f [] = 0 := rfl
@[simp] theorem S_cons (f : Pt → ℚ) (p : Pt) (l : List Pt) : S f (p :: l) = f p + S f l := by
  simp [S]

def Sw (l : List Pt) := S (fun p => p.w) l
def Swx (l : List Pt) := S (fun p => p.w * p.x) l
def Swy (l : List Pt) := S (fun p => p.w * p.y) l
def Swxx (l : List Pt) := S (fun p => p.w * p.x * p.x) l
def Swxy (l : List Pt) := S (fun p => p.w * p.x * p.y) l
def D (l : List Pt) := Sw l * Swxx l - Swx l ^ 2
def grad (l : List Pt) := (Sw l * Swxy l - Swx l * Swy l) / D l
def icpt (l : List Pt) := (Swy l - grad l * Swx l) / Sw l
def cost (a b : ℚ) (l : List Pt) := S (fun p => p.w * (p.y - (a * p.x + b)) ^ 2) l

/-- cost as a quadratic form in (a, b) -/
theorem cost_expand (a b : ℚ) (l : List Pt) :
    cost a b l = S (fun p => p.w * p.y * p.y) l - 2 * a * Swxy l - 2 * b * Swy l
      + a ^ 2 * Swxx l + 2 * a * b * Swx l + b ^ 2 * Sw l := by
  induction l with
  | nil => simp [cost, Sw, Swx, Swy, Swxx, Swxy]
  | cons p r ih =>
    simp only [cost, Sw, Swx, Swy, Swxx, Swxy, S_cons] at *
    rw [ih]; ring

theorem normal_eq1 (l : List Pt) (hD : D l ≠ 0) (hw : Sw l ≠ 0) :
    Swy l - grad l * Swx l - icpt l * Sw l = 0 := by
  unfold icpt; field_simp; ring

theorem normal_eq2 (l : List Pt) (hD : D l ≠ 0) (hw : Sw l ≠ 0) :
    Swxy l - grad l * Swxx l - icpt l * Swx l = 0 := by
  unfold icpt grad D at *; field_simp; ring

/-- weighted sum of squares is nonnegative -/
theorem quad_nonneg (u v : ℚ) (l : List Pt) (hw : ∀ p ∈ l, 0 ≤ p.w) :
    0 ≤ u ^ 2 * Swxx l + 2 * u * v * Swx l + v ^ 2 * Sw l := by
  have : u ^ 2 * Swxx l + 2 * u * v * Swx l + v ^ 2 * Sw l = S (fun p => p.w * (u * p.x + v) ^ 2) l := by
    induction l with
    | nil => simp [Sw, Swx, Swxx]
    | cons p r ih =>
      have ih' := ih (fun q hq => hw q (by simp [hq]))
      simp only [Sw, Swx, Swxx, S_cons] at *
      linarith [ih', show p.w * (u * p.x + v) ^ 2 = u^2 * (p.w * p.x * p.x) + 2*u*v*(p.w*p.x) + v^2 * p.w by ring]
  rw [this]
  unfold S
  apply List.sum_nonneg
  intro q hq
  simp only [List.mem_map] at hq
  obtain ⟨p, hp, rfl⟩ := hq
  exact mul_nonneg (hw p hp) (sq_nonneg _)

theorem optimal (l : List Pt) (hw : ∀ p ∈ l, 0 ≤ p.w) (hD : D l ≠ 0) (hS : Sw l ≠ 0) (a b : ℚ) :
    cost (grad l) (icpt l) l ≤ cost a b l := by
  have e1 := normal_eq1 l hD hS
  have e2 := normal_eq2 l hD hS
  have q := quad_nonneg (a - grad l) (b - icpt l) l hw
  rw [cost_expand, cost_expand]
  generalize grad l = g at *
  generalize icpt l = c at *
  have key : (S (fun p => p.w * p.y * p.y) l - 2 * a * Swxy l - 2 * b * Swy l + a ^ 2 * Swxx l
        + 2 * a * b * Swx l + b ^ 2 * Sw l)
      - (S (fun p => p.w * p.y * p.y) l - 2 * g * Swxy l - 2 * c * Swy l + g ^ 2 * Swxx l
        + 2 * g * c * Swx l + c ^ 2 * Sw l)
      = ((a - g) ^ 2 * Swxx l + 2 * (a - g) * (b - c) * Swx l + (b - c) ^ 2 * Sw l)
        - 2 * (a - g) * (Swxy l - g * Swxx l - c * Swx l)
        - 2 * (b - c) * (Swy l - g * Swx l - c * Sw l) := by ring
  rw [e1, e2] at key
  linarith

#print axioms optimal
