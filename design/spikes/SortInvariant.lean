import Mathlib.Data.List.Sort
import Mathlib.Order.Basic

def sortBy {α : Type} (key : α → Nat) (l : List α) : List α :=
  l.mergeSort (fun a b => decide (key a ≤ key b))

theorem sortBy_perm_invariant {α : Type} (key : α → Nat) (l₁ l₂ : List α)
    (hp : l₁.Perm l₂) (hinj : ∀ a ∈ l₁, ∀ b ∈ l₁, key a = key b → a = b) :
    sortBy key l₁ = sortBy key l₂ := by
  unfold sortBy
  have ht : ∀ a b c : α, decide (key a ≤ key b) = true → decide (key b ≤ key c) = true → decide (key a ≤ key c) = true := by
    intro a b c h1 h2; simp at *; omega
  have htot : ∀ a b : α, (decide (key a ≤ key b) || decide (key b ≤ key a)) = true := by
    intro a b; simp; omega
  have s1 := List.pairwise_mergeSort (le := fun a b => decide (key a ≤ key b)) ht htot l₁
  have s2 := List.pairwise_mergeSort (le := fun a b => decide (key a ≤ key b)) ht htot l₂
  have p : (l₁.mergeSort fun a b => decide (key a ≤ key b)).Perm (l₂.mergeSort fun a b => decide (key a ≤ key b)) :=
    (List.mergeSort_perm _ _).trans (hp.trans (List.mergeSort_perm _ _).symm)
  apply List.Perm.eq_of_pairwise (le := fun a b => decide (key a ≤ key b) = true) _ s1 s2 p
  intro a b ha hb h1 h2
  have ha' : a ∈ l₁ := (List.mergeSort_perm _ _).mem_iff.mp ha
  have hb' : b ∈ l₁ := hp.mem_iff.mpr ((List.mergeSort_perm _ _).mem_iff.mp hb)
  simp at h1 h2
  exact hinj a ha' b hb' (by omega)
#print axioms sortBy_perm_invariant
