/-! Spike: effect IR, concrete semantics, flow-sensitive may-write analysis, soundness. -/
abbrev Var := Nat
abbrev Obj := Nat

inductive Src where
  | param (i : Nat) | fresh | alias (ys : List Var) | unknown
deriving Repr

inductive Stmt where
  | skip | bind (x : Var) (s : Src) | write (x : Var)
  | seq (a b : Stmt) | branch (a b : Stmt) | loop (b : Stmt)
deriving Repr

structure St where
  env : Var → Option Obj
  next : Nat
  written : List Obj

def upd (e : Var → Option Obj) (x : Var) (o : Obj) : Var → Option Obj :=
  fun y => if y = x then some o else e y

/-- `Exec np s σ done σ'`: running `s` from `σ` can reach `σ'`; `done = false` means an exception
    was raised somewhere inside (the state is whatever had been done by then). -/
inductive Exec (np : Nat) : Stmt → St → Bool → St → Prop where
  | raise (s σ) : Exec np s σ false σ
  | skip (σ) : Exec np .skip σ true σ
  | bindParam (x i σ) : i < np → Exec np (.bind x (.param i)) σ true { σ with env := upd σ.env x i }
  | bindFresh (x σ) : Exec np (.bind x .fresh) σ true { σ with env := upd σ.env x σ.next, next := σ.next + 1 }
  | bindAlias (x ys y o σ) : y ∈ ys → σ.env y = some o →
      Exec np (.bind x (.alias ys)) σ true { σ with env := upd σ.env x o }
  | bindUnknown (x o σ) : o < σ.next → Exec np (.bind x .unknown) σ true { σ with env := upd σ.env x o }
  | write (x o σ) : σ.env x = some o → Exec np (.write x) σ true { σ with written := o :: σ.written }
  | seq (a b σ σ₁ d σ₂) : Exec np a σ true σ₁ → Exec np b σ₁ d σ₂ → Exec np (.seq a b) σ d σ₂
  | seqRaise (a b σ σ₁) : Exec np a σ false σ₁ → Exec np (.seq a b) σ false σ₁
  | branchL (a b σ d σ') : Exec np a σ d σ' → Exec np (.branch a b) σ d σ'
  | branchR (a b σ d σ') : Exec np b σ d σ' → Exec np (.branch a b) σ d σ'
  | loopDone (b σ) : Exec np (.loop b) σ true σ
  | loopStep (b σ σ₁ d σ₂) : Exec np b σ true σ₁ → Exec np (.loop b) σ₁ d σ₂ → Exec np (.loop b) σ d σ₂
  | loopRaise (b σ σ₁) : Exec np b σ false σ₁ → Exec np (.loop b) σ false σ₁

/-- abstract state: per variable the parameters it may point into; parameters possibly written -/
structure A where
  top : Bool
  env : List (Var × List Nat)
  w : List Nat
deriving Repr

def allParams (np : Nat) : List Nat := List.range np

def A.raw (a : A) (x : Var) : List Nat := (a.env.lookup x).getD []
def A.set (a : A) (x : Var) (ps : List Nat) : A := { a with env := (x, ps) :: a.env }
def A.vars (a : A) : List Var := a.env.map (·.1)

def joinA (a b : A) : A :=
  { top := a.top || b.top
    env := (a.vars ++ b.vars).map (fun x => (x, a.raw x ++ b.raw x))
    w := a.w ++ b.w }

def leA (a b : A) : Bool :=
  b.top || (!a.top && a.vars.all (fun x => (a.raw x).all (fun p => (b.raw x).contains p))
            && a.w.all (fun p => b.w.contains p))

def topA : A := { top := true, env := [], w := [] }

def iter (f : A → A) : Nat → A → Option A
  | 0, _ => none
  | n + 1, a => let a' := joinA a (f a); if leA a' a then some a else iter f n a'

def ana (np : Nat) : Stmt → A → A
  | .skip, a => a
  | .bind x (.param i), a => a.set x [i]
  | .bind x .fresh, a => a.set x []
  | .bind x (.alias ys), a => a.set x (ys.flatMap a.raw)
  | .bind x .unknown, a => a.set x (allParams np)
  | .write x, a => { a with w := a.raw x ++ a.w }
  | .seq s t, a => ana np t (ana np s a)
  | .branch s t, a => joinA (ana np s a) (ana np t a)
  | .loop b, a =>
      match iter (ana np b) 8 a with
      | some a' => if leA (ana np b a') a' && leA a a' then a' else topA
      | none => topA

/-- what is reported: the parameters a function may write -/
def A.report (np : Nat) (a : A) : List Nat := if a.top then allParams np else a.w

#eval ana 2 (.seq (.bind 0 (.param 0)) (.seq (.bind 0 .fresh) (.write 0))) ⟨false, [], []⟩
#eval ana 2 (.seq (.bind 0 (.param 0)) (.seq (.bind 1 (.alias [0])) (.write 1))) ⟨false, [], []⟩
#eval (ana 2 (.seq (.bind 0 (.param 1)) (.loop (.seq (.write 2) (.bind 2 (.alias [0]))))) ⟨false, [], []⟩).report 2

/-! ## soundness -/

def A.may (a : A) (x : Var) (o : Nat) : Prop := a.top = true ∨ o ∈ a.raw x
def A.mayW (a : A) (o : Nat) : Prop := a.top = true ∨ o ∈ a.w

def Rel (np : Nat) (σ : St) (a : A) : Prop :=
  (∀ x o, σ.env x = some o → o < np → a.may x o) ∧
  (∀ o, o ∈ σ.written → o < np → a.mayW o) ∧ np ≤ σ.next

def WRel (np : Nat) (σ : St) (a : A) : Prop := ∀ o, o ∈ σ.written → o < np → a.mayW o

theorem raw_set (a : A) (x y : Var) (ps : List Nat) :
    (a.set x ps).raw y = if y = x then ps else a.raw y := by
  unfold A.raw A.set
  by_cases hyx : y = x
  · subst hyx; simp [List.lookup]
  · have : (y == x) = false := by simpa using hyx
    simp [List.lookup, this, hyx]

theorem lookup_map_self {β : Type} (l : List Var) (f : Var → β) (x : Var) :
    (l.map (fun y => (y, f y))).lookup x = if x ∈ l then some (f x) else none := by
  induction l with
  | nil => simp
  | cons y r ih =>
    simp only [List.map_cons, List.lookup_cons, List.mem_cons]
    by_cases h : x = y
    · subst h; simp
    · have : (x == y) = false := by simpa using h
      simp [this, ih, h]

theorem lookup_some_mem {β : Type} (l : List (Var × β)) (x : Var) (v : β)
    (h : l.lookup x = some v) : x ∈ l.map (·.1) := by
  induction l with
  | nil => simp at h
  | cons p r ih =>
    obtain ⟨y, w⟩ := p
    simp only [List.lookup_cons] at h
    by_cases hxy : x = y
    · subst hxy; simp
    · have : (x == y) = false := by simpa using hxy
      simp [this] at h
      simp [ih h]

theorem raw_mem_vars {a : A} {x : Var} {o : Nat} (h : o ∈ a.raw x) : x ∈ a.vars := by
  unfold A.raw at h
  cases hl : a.env.lookup x with
  | none => simp [hl] at h
  | some v => exact lookup_some_mem a.env x v hl

theorem raw_join (a b : A) (x : Var) (o : Nat) (h : o ∈ a.raw x ∨ o ∈ b.raw x) :
    o ∈ (joinA a b).raw x := by
  have hx : x ∈ a.vars ++ b.vars := by
    rcases h with h | h
    · exact List.mem_append_left _ (raw_mem_vars h)
    · exact List.mem_append_right _ (raw_mem_vars h)
  unfold A.raw joinA
  simp only [lookup_map_self, hx, if_true, Option.getD_some, List.mem_append]
  exact h

theorem may_join_l (a b : A) (x : Var) (o : Nat) (h : a.may x o) : (joinA a b).may x o := by
  rcases h with h | h
  · left; simp [joinA, h]
  · right; exact raw_join a b x o (Or.inl h)

theorem may_join_r (a b : A) (x : Var) (o : Nat) (h : b.may x o) : (joinA a b).may x o := by
  rcases h with h | h
  · left; simp [joinA, h]
  · right; exact raw_join a b x o (Or.inr h)

theorem mayW_join_l (a b : A) (o : Nat) (h : a.mayW o) : (joinA a b).mayW o := by
  rcases h with h | h
  · left; simp [joinA, h]
  · right; simp [joinA, h]

theorem mayW_join_r (a b : A) (o : Nat) (h : b.mayW o) : (joinA a b).mayW o := by
  rcases h with h | h
  · left; simp [joinA, h]
  · right; simp [joinA, h]

theorem rel_join_l {np σ} (a b : A) (h : Rel np σ a) : Rel np σ (joinA a b) :=
  ⟨fun x o h1 h2 => may_join_l a b x o (h.1 x o h1 h2), fun o h1 h2 => mayW_join_l a b o (h.2.1 o h1 h2), h.2.2⟩
theorem rel_join_r {np σ} (a b : A) (h : Rel np σ b) : Rel np σ (joinA a b) :=
  ⟨fun x o h1 h2 => may_join_r a b x o (h.1 x o h1 h2), fun o h1 h2 => mayW_join_r a b o (h.2.1 o h1 h2), h.2.2⟩

theorem le_may {a b : A} (h : leA a b = true) (x : Var) (o : Nat) (hm : a.may x o) : b.may x o := by
  unfold leA at h
  by_cases hb : b.top = true
  · left; exact hb
  · simp [hb] at h
    obtain ⟨⟨hat, hv⟩, _⟩ := h
    rcases hm with hm | hm
    · simp [hat] at hm
    · right
      have := hv x (raw_mem_vars hm) o hm
      simpa using this

theorem le_mayW {a b : A} (h : leA a b = true) (o : Nat) (hm : a.mayW o) : b.mayW o := by
  unfold leA at h
  by_cases hb : b.top = true
  · left; exact hb
  · simp [hb] at h
    obtain ⟨⟨hat, _⟩, hw⟩ := h
    rcases hm with hm | hm
    · simp [hat] at hm
    · right; simpa using hw o hm

theorem rel_le {np σ} {a b : A} (h : leA a b = true) (hr : Rel np σ a) : Rel np σ b :=
  ⟨fun x o h1 h2 => le_may h x o (hr.1 x o h1 h2), fun o h1 h2 => le_mayW h o (hr.2.1 o h1 h2), hr.2.2⟩

theorem rel_top {np σ} (h : np ≤ σ.next) : Rel np σ topA :=
  ⟨fun _ _ _ _ => Or.inl rfl, fun _ _ _ => Or.inl rfl, h⟩

theorem set_top (a : A) (x : Var) (ps : List Nat) : (a.set x ps).top = a.top := rfl
theorem set_w (a : A) (x : Var) (ps : List Nat) : (a.set x ps).w = a.w := rfl

theorem mayW_set {a : A} {x : Var} {ps : List Nat} {o : Nat} (h : a.mayW o) : (a.set x ps).mayW o := h

theorem may_set_ne {a : A} {x y : Var} {ps : List Nat} {o : Nat} (hne : y ≠ x) (h : a.may y o) :
    (a.set x ps).may y o := by
  rcases h with h | h
  · exact Or.inl h
  · right; rw [raw_set]; simp [hne, h]

theorem may_set_eq {a : A} {x : Var} {ps : List Nat} {o : Nat} (h : o ∈ ps) : (a.set x ps).may x o := by
  right; rw [raw_set]; simp [h]

/-- the analysis never forgets a possibly-written parameter -/
theorem w_mono (np : Nat) (s : Stmt) : ∀ (a : A) (o : Nat), a.mayW o → (ana np s a).mayW o := by
  induction s with
  | skip => intro a o h; exact h
  | bind x src => intro a o h; cases src <;> exact h
  | write x =>
    intro a o h
    rcases h with h | h
    · exact Or.inl h
    · right; show o ∈ a.raw x ++ a.w; simp [h]
  | seq s t ihs iht => intro a o h; exact iht _ o (ihs a o h)
  | branch s t ihs _ => intro a o h; exact mayW_join_l _ _ o (ihs a o h)
  | loop b _ =>
    intro a o h
    show (match iter (ana np b) 8 a with
      | some a' => if leA (ana np b a') a' && leA a a' then a' else topA
      | none => topA).mayW o
    split
    · split
      · rename_i a' _ hc
        simp at hc
        exact le_mayW hc.2 o h
      · exact Or.inl rfl
    · exact Or.inl rfl

theorem wrel_of_rel {np σ a} (h : Rel np σ a) : WRel np σ a := h.2.1

theorem loop_inv (np : Nat) (b : Stmt) (P Q : St → Prop)
    (hbody : ∀ σ σ₁, P σ → Exec np b σ true σ₁ → P σ₁)
    (hraise : ∀ σ σ₁, P σ → Exec np b σ false σ₁ → Q σ₁)
    (hPQ : ∀ σ, P σ → Q σ) :
    ∀ σ d σ', Exec np (.loop b) σ d σ' → P σ → (d = true → P σ') ∧ Q σ' := by
  intro σ d σ' h
  generalize hs : Stmt.loop b = s at h
  induction h with
  | raise s σ => intro hp; exact ⟨(fun h => by cases h), hPQ _ hp⟩
  | loopDone b' σ => intro hp; exact ⟨fun _ => hp, hPQ _ hp⟩
  | loopStep b' σ σ₁ d σ₂ h1 _ _ ih2 =>
    cases hs
    intro hp
    exact ih2 rfl (hbody _ _ hp h1)
  | loopRaise b' σ σ₁ h1 =>
    cases hs
    intro hp
    exact ⟨(fun h => by cases h), hraise _ _ hp h1⟩
  | _ => cases hs

theorem sound (np : Nat) (s : Stmt) :
    ∀ (a : A) (σ : St) (d : Bool) (σ' : St), Exec np s σ d σ' → Rel np σ a →
      (d = true → Rel np σ' (ana np s a)) ∧ WRel np σ' (ana np s a) := by
  induction s with
  | skip =>
    intro a σ d σ' h hr
    cases h with
    | raise => exact ⟨(fun h => by cases h), hr.2.1⟩
    | skip => exact ⟨fun _ => hr, hr.2.1⟩
  | bind x src =>
    intro a σ d σ' h hr
    cases h with
    | raise => exact ⟨(fun h => by cases h), fun o h1 h2 => w_mono np _ a o (hr.2.1 o h1 h2)⟩
    | bindParam _ i _ hi =>
      have : Rel np { σ with env := upd σ.env x i } (a.set x [i]) := by
        refine ⟨?_, fun o h1 h2 => hr.2.1 o h1 h2, hr.2.2⟩
        intro y o hy ho
        by_cases hyx : y = x
        · subst hyx; simp [upd] at hy; subst hy; exact may_set_eq (by simp)
        · simp [upd, hyx] at hy; exact may_set_ne hyx (hr.1 y o hy ho)
      exact ⟨fun _ => this, this.2.1⟩
    | bindFresh =>
      have : Rel np { σ with env := upd σ.env x σ.next, next := σ.next + 1 } (a.set x []) := by
        refine ⟨?_, fun o h1 h2 => hr.2.1 o h1 h2, Nat.le_succ_of_le hr.2.2⟩
        intro y o hy ho
        by_cases hyx : y = x
        · subst hyx; simp [upd] at hy; subst hy; exact absurd ho (Nat.not_lt.mpr hr.2.2)
        · simp [upd, hyx] at hy; exact may_set_ne hyx (hr.1 y o hy ho)
      exact ⟨fun _ => this, this.2.1⟩
    | bindAlias _ ys y o _ hy ho =>
      have : Rel np { σ with env := upd σ.env x o } (a.set x (ys.flatMap a.raw)) := by
        refine ⟨?_, fun o h1 h2 => hr.2.1 o h1 h2, hr.2.2⟩
        intro z o' hz ho'
        by_cases hzx : z = x
        · subst hzx; simp [upd] at hz; subst hz
          rcases hr.1 y o ho ho' with ht | hm
          · exact Or.inl ht
          · exact may_set_eq (List.mem_flatMap.mpr ⟨y, hy, hm⟩)
        · simp [upd, hzx] at hz; exact may_set_ne hzx (hr.1 z o' hz ho')
      exact ⟨fun _ => this, this.2.1⟩
    | bindUnknown _ o _ ho =>
      have : Rel np { σ with env := upd σ.env x o } (a.set x (allParams np)) := by
        refine ⟨?_, fun o h1 h2 => hr.2.1 o h1 h2, hr.2.2⟩
        intro z o' hz ho'
        by_cases hzx : z = x
        · subst hzx; simp [upd] at hz; subst hz
          exact may_set_eq (by simp [allParams, ho'])
        · simp [upd, hzx] at hz; exact may_set_ne hzx (hr.1 z o' hz ho')
      exact ⟨fun _ => this, this.2.1⟩
  | write x =>
    intro a σ d σ' h hr
    cases h with
    | raise => exact ⟨(fun h => by cases h), fun o h1 h2 => w_mono np _ a o (hr.2.1 o h1 h2)⟩
    | write _ o _ ho =>
      have : Rel np { σ with written := o :: σ.written } { a with w := a.raw x ++ a.w } := by
        refine ⟨fun y o' hy ho' => hr.1 y o' hy ho', ?_, hr.2.2⟩
        intro o' hm ho'
        simp at hm
        rcases hm with rfl | hm
        · rcases hr.1 x o' ho ho' with ht | hm'
          · exact Or.inl ht
          · right; show o' ∈ a.raw x ++ a.w; simp [hm']
        · rcases hr.2.1 o' hm ho' with ht | hm'
          · exact Or.inl ht
          · right; show o' ∈ a.raw x ++ a.w; simp [hm']
      exact ⟨fun _ => this, this.2.1⟩
  | seq s t ihs iht =>
    intro a σ d σ' h hr
    cases h with
    | raise => exact ⟨(fun h => by cases h), fun o h1 h2 => w_mono np _ a o (hr.2.1 o h1 h2)⟩
    | seq _ _ _ σ₁ _ _ h1 h2 =>
      exact iht _ σ₁ d σ' h2 ((ihs a σ true σ₁ h1 hr).1 rfl)
    | seqRaise _ _ _ _ h1 =>
      exact ⟨(fun h => by cases h), fun o hm ho => w_mono np t _ o ((ihs a σ false σ' h1 hr).2 o hm ho)⟩
  | branch s t ihs iht =>
    intro a σ d σ' h hr
    cases h with
    | raise => exact ⟨(fun h => by cases h), fun o h1 h2 => w_mono np _ a o (hr.2.1 o h1 h2)⟩
    | branchL _ _ _ _ _ h1 =>
      have := ihs a σ d σ' h1 hr
      exact ⟨fun hd => rel_join_l _ _ (this.1 hd), fun o hm ho => mayW_join_l _ _ o (this.2 o hm ho)⟩
    | branchR _ _ _ _ _ h1 =>
      have := iht a σ d σ' h1 hr
      exact ⟨fun hd => rel_join_r _ _ (this.1 hd), fun o hm ho => mayW_join_r _ _ o (this.2 o hm ho)⟩
  | loop b ih =>
    intro a σ d σ' h hr
    show (d = true → Rel np σ' (match iter (ana np b) 8 a with
      | some a' => if leA (ana np b a') a' && leA a a' then a' else topA
      | none => topA)) ∧ WRel np σ' (match iter (ana np b) 8 a with
      | some a' => if leA (ana np b a') a' && leA a a' then a' else topA
      | none => topA)
    -- invariant-based argument for a checked post-fixpoint, or top
    have key : ∀ a', (leA (ana np b a') a' = true) → Rel np σ a' →
        (d = true → Rel np σ' a') ∧ WRel np σ' a' := by
      intro a' hpost hra
      exact loop_inv np b (fun τ => Rel np τ a') (fun τ => WRel np τ a')
        (fun τ τ₁ hp he => rel_le hpost ((ih a' τ true τ₁ he hp).1 rfl))
        (fun τ τ₁ hp he => fun o hm ho => le_mayW hpost o ((ih a' τ false τ₁ he hp).2 o hm ho))
        (fun τ hp => hp.2.1) σ d σ' h hra
    have htop : (d = true → Rel np σ' topA) ∧ WRel np σ' topA := by
      have hpost : leA (ana np b topA) topA = true := by simp [leA, topA]
      exact key topA hpost (rel_top hr.2.2)
    split
    · split
      · rename_i a' _ hc
        simp at hc
        exact key a' hc.1 (rel_le hc.2 hr)
      · exact htop
    · exact htop

/-- Corollary: a parameter the analysis does not report is never written, whether the body
    returns or raises. -/
theorem mayWrite_sound (np : Nat) (s : Stmt) (σ σ' : St) (d : Bool)
    (h : Exec np s σ d σ') (h0 : σ.written = []) (hn : np ≤ σ.next)
    (henv : ∀ x o, σ.env x = some o → o < np → False)  -- body starts with no variable bound to a parameter
    (p : Nat) (hp : p < np) (hnot : p ∉ (ana np s ⟨false, [], []⟩).report np) :
    p ∉ σ'.written := by
  intro hmem
  have hr : Rel np σ ⟨false, [], []⟩ :=
    ⟨fun x o h1 h2 => (henv x o h1 h2).elim, fun o hm _ => by simp [h0] at hm, hn⟩
  have := (sound np s _ σ d σ' h hr).2 p hmem hp
  apply hnot
  unfold A.report
  rcases this with ht | hw
  · simp [ht, allParams, hp]
  · by_cases ht : (ana np s ⟨false, [], []⟩).top = true
    · simp [ht, allParams, hp]
    · simp [ht, hw]

#print axioms mayWrite_sound
