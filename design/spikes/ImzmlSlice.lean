import Mathlib.Tactic.Linarith
import Mathlib.Algebra.Order.Field.Rat
import Mathlib.Algebra.Order.Ring.Rat

/-! Spike: searchsorted + slice sum = filtered sum, on sorted lists. -/

def ssLeft (mz : List Rat) (v : Rat) : Nat := (mz.takeWhile (· < v)).length

def windowSum : List Rat → List Rat → Rat → Rat → Rat
  | m :: ms, i :: is, lo, hi => (if lo ≤ m ∧ m < hi then i else 0) + windowSum ms is lo hi
  | _, _, _, _ => 0

def sliceSum (it : List Rat) (a b : Nat) : Rat := ((it.drop a).take (b - a)).sum

/-- strictly increasing -/
def Incr : List Rat → Prop
  | [] => True
  | [_] => True
  | a :: b :: r => a < b ∧ Incr (b :: r)




theorem incr_tail {a : Rat} {l : List Rat} (h : Incr (a :: l)) : Incr l := by
  cases l with
  | nil => trivial
  | cons b r => exact h.2

theorem incr_head_lt {a : Rat} {l : List Rat} (h : Incr (a :: l)) : ∀ x ∈ l, a < x := by
  induction l generalizing a with
  | nil => intro x hx; cases hx
  | cons b r ih =>
    intro x hx
    cases hx with
    | head => exact h.1
    | tail _ hx' => exact lt_trans h.1 (ih h.2 x hx')

theorem ssLeft_cons_lt {m v : Rat} (ms : List Rat) (h : m < v) : ssLeft (m :: ms) v = ssLeft ms v + 1 := by
  simp [ssLeft, List.takeWhile, h]

theorem ssLeft_cons_ge {m v : Rat} (ms : List Rat) (h : ¬ m < v) : ssLeft (m :: ms) v = 0 := by
  simp [ssLeft, List.takeWhile, h]

theorem ssLeft_zero_of_all_ge {ms : List Rat} {v : Rat} (h : ∀ x ∈ ms, v ≤ x) : ssLeft ms v = 0 := by
  cases ms with
  | nil => simp [ssLeft]
  | cons a r => exact ssLeft_cons_ge r (by have := h a (by simp); linarith)

theorem windowSum_zero_of_all_ge {ms it : List Rat} {lo hi : Rat} (h : ∀ x ∈ ms, hi ≤ x) :
    windowSum ms it lo hi = 0 := by
  induction ms generalizing it with
  | nil => simp [windowSum]
  | cons a r ih =>
    cases it with
    | nil => simp [windowSum]
    | cons i is =>
      have ha : ¬ a < hi := by have := h a (by simp); linarith
      simp [windowSum, ha, ih (fun x hx => h x (by simp [hx]))]

theorem sliceSum_cons_succ (i : Rat) (is : List Rat) (a b : Nat) :
    sliceSum (i :: is) (a + 1) (b + 1) = sliceSum is a b := by
  simp [sliceSum]

theorem sliceSum_cons_zero_succ (i : Rat) (is : List Rat) (b : Nat) :
    sliceSum (i :: is) 0 (b + 1) = i + sliceSum is 0 b := by
  simp [sliceSum]

theorem slice_eq_windowSum (mz it : List Rat) (lo hi : Rat) (hs : Incr mz)
    (hlen : it.length = mz.length) (hle : lo ≤ hi) :
    sliceSum it (ssLeft mz lo) (ssLeft mz hi) = windowSum mz it lo hi := by
  induction mz generalizing it with
  | nil => cases it <;> simp_all [sliceSum, ssLeft, windowSum]
  | cons m ms ih =>
    cases it with
    | nil => simp at hlen
    | cons i is =>
      have hlen' : is.length = ms.length := by simpa using hlen
      have hgt := incr_head_lt hs
      have ih' := ih is (incr_tail hs) hlen'
      by_cases h1 : m < lo
      · have h2 : m < hi := by linarith
        rw [ssLeft_cons_lt ms h1, ssLeft_cons_lt ms h2, sliceSum_cons_succ, ih']
        have : ¬ lo ≤ m := by linarith
        simp [windowSum, this]
      · have hlo : lo ≤ m := by linarith
        have hz : ssLeft ms lo = 0 := ssLeft_zero_of_all_ge (fun x hx => by have := hgt x hx; linarith)
        rw [ssLeft_cons_ge ms h1]
        by_cases h2 : m < hi
        · rw [ssLeft_cons_lt ms h2, sliceSum_cons_zero_succ]
          rw [hz] at ih'
          simp [windowSum, hlo, h2, ih']
        · rw [ssLeft_cons_ge ms h2]
          have hw : windowSum ms is lo hi = 0 :=
            windowSum_zero_of_all_ge (fun x hx => by have := hgt x hx; linarith)
          simp [windowSum, h2, hw, sliceSum]

#print axioms slice_eq_windowSum
