#!/bin/bash
# imports every finished seeder worktree under /tmp/seed that is not yet in seeded/ (needs notes2.md to exist = seeder done)
cd /verif
for d in /tmp/seed/C*/; do p=$(basename $d); [ -f $d/_seed/notes2.md ] || continue; [ -d seeded/$p-1 ] && [ -d seeded/$p-2 ] && continue
  [ -f harness/$(echo $p | tr A-Z a-z).py ] || { echo "$p: no check yet"; continue; }
  for i in 1 2; do echo "== $p-$i"; timeout 1800 tools/import_seed.py $p $d $i 2>&1 | tail -3; done
  git -C /repo worktree remove --force $d
done
