#!/usr/bin/env python3
"""For every kept seeded change: run its property's check against the patched scratch copy, take the shrunk failing
case of the replay file and keep it as corpus/<Cxx>/seeded-<id>.json (replayed first on every run from then on)."""
import json, re, subprocess, sys
from concurrent.futures import ThreadPoolExecutor
from pathlib import Path
V = Path(__file__).resolve().parent.parent
ids = sys.argv[1:] or sorted(p.name for p in (V / "seeded").iterdir() if (p / "patch.diff").exists())
byprop = {}
for sid in ids:
    byprop.setdefault(sid.split("-")[0], []).append(sid)
def prop(pid):
    out = []
    for sid in byprop[pid]:
        dst = V / "corpus" / pid / f"seeded-{sid}.json"
        if dst.exists():
            out.append((sid, "exists")); continue
        r = subprocess.run(f"VERIF_SEED=0 tools/with_patched_repo -p {V}/seeded/{sid}/patch.diff -- ./check {pid} --workers 2",
                           shell=True, cwd=V, capture_output=True, text=True)
        m = re.search(r"^VIOLATION property=\S+ replay=(\S+)", r.stdout, re.M)
        if not m:
            out.append((sid, "no violation")); continue
        rp = json.loads((V / m.group(1)).read_text())
        if rp.get("kind") != "impl_vs_spec" or rp.get("case") is None:
            out.append((sid, "no failing input (" + str(rp.get("kind")) + ")")); continue
        dst.parent.mkdir(parents=True, exist_ok=True)
        dst.write_text(json.dumps({"case": rp["case"], "origin": f"shrunk failing input of seeded change {sid}"}, indent=1) + "\n")
        out.append((sid, "kept"))
    return out
with ThreadPoolExecutor(4) as ex:
    for res in ex.map(prop, sorted(byprop)):
        for sid, what in res:
            print(sid, what)
