#!/usr/bin/env python3
"""Regenerates MANIFEST.json from tools/claims.json (one entry per claimed property)."""
import json
from pathlib import Path

V = Path(__file__).resolve().parent.parent
claims = json.loads((V / "tools" / "claims.json").read_text())
props = [json.loads(l) for l in (V / "properties.jsonl").read_text().splitlines() if l.strip()]
checks, na = [], []
for p in props:
    pid = p["id"]
    c = claims.get(pid)
    if c is None or c.get("not_applicable"):
        na.append({"property_id": pid, "reason": (c or {}).get("not_applicable", "check not built yet (work in progress); not claimed")})
        continue
    checks.append({
        "property_id": pid,
        "quick_cmd": f"./check {pid} --tier quick",
        "thorough_cmd": f"./check {pid} --tier thorough",
        "evidence_file": f"evidence/{pid}.json",
        "replay_cmd_template": f"./check {pid} --replay {{path}}",
        "engine": "lean-proof+correspondence",
        "level_claimed": {"category": "proof", "text": c["text"], "design_ref": c.get("design_ref", "")},
        "level_note": c["note"],
        "technique": c.get("technique", "Lean 4 theorems about a hand-written model of the mechanism (kernel-checked, axioms audited) + differential correspondence check of the model's executable definitions against the real pewlib functions"),
    })
m = {
    "version": 1,
    "setup_cmd": "./setup",
    "hooks": {"guard": "PEWLIB_VERIF", "enable": "no source hooks: the harness substitutes module attributes in-process (DESIGN.md 2.4)",
              "baseline_off_cmd": "cd /repo && /venv/bin/python -m pytest -ra -q -p no:cacheprovider --timeout=900 --continue-on-collection-errors",
              "source_commits": [], "add_only": True},
    "engines": [{"name": "lean-proof+correspondence", "path": "check", "serves_properties": [c["property_id"] for c in checks],
                 "kind_free_text": "Lean 4 model + theorems (lean/), compiled model driver (lean/Main.lean), Python differential harness (harness/)"}],
    "checks": checks,
    "notes": "See DESIGN.md. Known findings and fixed defects: known_findings.json.",
    "not_applicable": na,
}
(V / "MANIFEST.json").write_text(json.dumps(m, indent=1) + "\n")
print(len(checks), "claimed;", len(na), "not claimed")
