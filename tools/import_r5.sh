#!/bin/bash
# imports finished round-5 seeders (/tmp/seed/S5Cxx, three changes each) as seeded/Cxx-c1..c3; usage: tools/import_r5.sh [Cxx ...]
cd /verif
props=${@:-$(ls -d /tmp/seed/S5C* 2>/dev/null | sed 's#.*/S5##')}
for p in $props; do d=/tmp/seed/S5$p; [ -d $d ] || continue
  for i in 1 2 3; do [ -f $d/_seed/patch$i.diff ] && [ -f $d/_seed/demo$i.py ] || continue; [ -d seeded/$p-c$i ] && continue
    echo "== $p-c$i"; IMPORT_LABEL=c timeout 1800 tools/import_seed.py $p $d $i 2>&1 | tail -4; done
done
