#!/bin/bash
# merges finished extension branches wip-E<Cxx> into main (evidence conflicts resolved in favour of the branch; evidence is regenerated afterwards anyway)
cd /verif
for p in "$@"; do
  git merge --no-edit wip-E$p >/dev/null 2>&1 || {
    for f in $(git diff --name-only --diff-filter=U); do
      case $f in evidence/*) git checkout --theirs $f && git add $f;; *) echo "CONFLICT $p: $f";; esac
    done
    git diff --name-only --diff-filter=U | grep -q . && { echo "unresolved conflicts for $p"; exit 1; }
    git commit -qm "Merge branch 'wip-E$p'"
  }
  echo "merged $p: $(git log --oneline | head -1)"
done
