#!/usr/bin/env python3
"""Re-runs the current checks against every kept seeded change (scratch copy of /repo; /repo untouched) and
records the result in seeded/<id>/meta.json under `current`.  usage: tools/recheck_seeds.py [ids...]"""
import json, subprocess, sys
from concurrent.futures import ThreadPoolExecutor
from pathlib import Path
V = Path(__file__).resolve().parent.parent
ids = sys.argv[1:] or sorted(p.name for p in (V / "seeded").iterdir() if (p / "patch.diff").exists())
def one(sid):
    d = V / "seeded" / sid
    meta = json.loads((d / "meta.json").read_text())
    pid = meta["property"]
    res = {}
    for seed in (0, 1):
        tier = meta.get("tier", "quick")
        r = subprocess.run(f"VERIF_SEED={seed} tools/with_patched_repo -p {d}/patch.diff -- ./check {pid} --tier {tier} --workers 2", shell=True,
                           cwd=V, capture_output=True, text=True)
        line = [l for l in r.stdout.splitlines() if l.startswith("VIOLATION")]
        res[f"{pid}/seed{seed}"] = {"exit": r.returncode, "violation": (line[0] if line else None)}
    meta.setdefault("first_import", {"check_results": meta.get("check_results"), "caught": meta.get("caught")})
    meta["current"] = {"check_results": res, "caught_all_seeds": all(v["exit"] == 1 for v in res.values()),
                       "no_failing_input_found": any("no-failing-input-found" in (v["violation"] or "") for v in res.values())}
    (d / "meta.json").write_text(json.dumps(meta, indent=1) + "\n")
    return sid, meta["current"]["caught_all_seeds"], meta["current"]["no_failing_input_found"]
with ThreadPoolExecutor(4) as ex:
    for sid, ok, nfi in ex.map(one, ids):
        print(sid, "caught" if ok else "MISSED", "(no-failing-input-found)" if nfi else "")
subprocess.run("rm -rf replays", shell=True, cwd=V)
