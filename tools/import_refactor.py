#!/usr/bin/env python3
"""usage: tools/import_refactor.py <Cxx> <worktree> <i>
Verifies harmless rewrite i of a worktree (applies cleanly, suite passes, equivalence program passes with and
without it), runs the property's check against a patched scratch copy (must stay quiet) and stores it under
seeded/harmless/<Cxx>-r<i>/."""
import json, shutil, subprocess, sys
from pathlib import Path
V = Path(__file__).resolve().parent.parent
pid, wt, i = sys.argv[1], Path(sys.argv[2]), sys.argv[3]
out_i = sys.argv[4] if len(sys.argv) > 4 else i  # number under which it is kept (round 6: r4, r5)
sd = wt / "_refactor"
def sh(cmd, **kw):
    return subprocess.run(cmd, shell=True, capture_output=True, text=True, **kw)
sh("git checkout -q -- .", cwd=wt)
env = f"PYTHONPATH={wt}/src"
r0 = sh(f"{env} timeout 900 /venv/bin/python _refactor/equiv{i}.py", cwd=wt).returncode
ap = sh(f"git apply _refactor/patch{i}.diff", cwd=wt)
if ap.returncode: sys.exit("patch does not apply: " + ap.stderr)
t = sh(f"{env} /venv/bin/python -m pytest -q -p no:cacheprovider --timeout=900 2>&1 | tail -1", cwd=wt).stdout.strip()
r1 = sh(f"{env} timeout 900 /venv/bin/python _refactor/equiv{i}.py", cwd=wt).returncode
sh("git checkout -q -- .", cwd=wt)
ok = r0 == 0 and r1 == 0 and "91 passed" in t
print(f"suite: {t}; equiv clean={r0} patched={r1}; confirmed={ok}")
results = {}
for seed in (0, 1):
    r = sh(f"VERIF_SEED={seed} tools/with_patched_repo -p {sd}/patch{i}.diff -- ./check {pid}", cwd=V)
    line = [l for l in r.stdout.splitlines() if l.startswith("VIOLATION")]
    results[f"{pid}/seed{seed}"] = {"exit": r.returncode, "violation": line[0] if line else None}
    print(pid, seed, r.returncode, line[:1])
    if line:
        rp = line[0].split("replay=")[1].split()[0]
        try: print("   ", json.dumps(json.loads((V / rp).read_text()))[:700])
        except Exception: pass
if not ok:
    sys.exit("rewrite not confirmed; not imported")
d = V / "seeded" / "harmless" / f"{pid}-r{out_i}"
d.mkdir(parents=True, exist_ok=True)
shutil.copy(sd / f"patch{i}.diff", d / "patch.diff")
shutil.copy(sd / f"equiv{i}.py", d / "equiv.py")
notes = (sd / f"notes{i}.md").read_text() if (sd / f"notes{i}.md").exists() else ""
(d / "notes.md").write_text(notes)
meta = {"property": pid, "kind": "harmless rewrite (the property must still hold; the check should stay quiet)",
        "confirmed": {"applies": True, "suite": t, "equiv_clean_exit": r0, "equiv_patched_exit": r1},
        "ran": [f"tools/with_patched_repo -p seeded/harmless/{pid}-r{out_i}/patch.diff -- ./check {pid}"],
        "check_results": results, "quiet": all(v["exit"] == 0 for v in results.values())}
(d / "meta.json").write_text(json.dumps(meta, indent=1) + "\n")
sh("rm -rf replays", cwd=V)
