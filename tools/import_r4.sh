#!/bin/bash
# imports finished round-4 seeders (/tmp/seed/S4Cxx) as seeded/Cxx-b1, -b2
cd /verif
for d in /tmp/seed/S4C*/; do p=$(basename $d); p=${p#S4}; [ -f $d/_seed/notes2.md ] || continue; [ -d seeded/$p-b1 ] && [ -d seeded/$p-b2 ] && continue
  for i in 1 2; do echo "== $p-b$i"; IMPORT_LABEL=b timeout 1800 tools/import_seed.py $p $d $i 2>&1 | tail -3; done
done
