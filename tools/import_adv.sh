#!/bin/bash
# imports finished adversarial-round seeders (/tmp/seed/ACxx) as seeded/Cxx-a1, -a2
cd /verif
for d in /tmp/seed/AC*/; do p=$(basename $d); p=${p#A}; [ -f $d/_seed/notes2.md ] || continue; [ -d seeded/$p-a1 ] && [ -d seeded/$p-a2 ] && continue
  for i in 1 2; do echo "== $p-a$i"; IMPORT_LABEL=a timeout 1800 tools/import_seed.py $p $d $i 2>&1 | tail -3; done
  git -C /repo worktree remove --force $d
done
