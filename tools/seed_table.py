#!/usr/bin/env python3
"""prints the markdown table of kept seeded changes (DESIGN.md section 10) from seeded/*/meta.json and notes.md"""
import json, re
from pathlib import Path
V = Path(__file__).resolve().parent.parent
print("| seed | change (first line of the seeder's notes) | first import | current checks |")
print("|------|-------------------------------------------|--------------|----------------|")
for d in sorted((V / "seeded").iterdir()):
    if not (d / "meta.json").exists():
        continue
    m = json.loads((d / "meta.json").read_text())
    notes = (d / "notes.md").read_text().strip().splitlines()
    title = re.sub(r"^#+\s*", "", notes[0]) if notes else ""
    title = re.sub(r"^(C\d\d\s*seed\s*\d\s*[—:-]+\s*|Seed\s*C\d\d-\d:?\s*|Change\s*\d\s*[—:-]*\s*|notes\d?\s*[—:-]*\s*)", "", title, flags=re.I)[:150]
    fi = m.get("first_import") or {"check_results": m.get("check_results"), "caught": m.get("caught")}
    def fmt(res):
        vals = list(res.values())
        n = sum(1 for v in vals if v["exit"] == 1)
        nfi = any("no-failing-input-found" in (v.get("violation") or "") for v in vals)
        return f"{n}/{len(vals)} seeds" + (" (no-failing-input-found)" if nfi else "")
    cur = m.get("current", {}).get("check_results")
    print(f"| {d.name} | {title} | {fmt(fi['check_results'])} | {fmt(cur) if cur else '-'} |")
