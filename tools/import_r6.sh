#!/bin/bash
# imports finished round-6 seeders (/tmp/seed/S6Cxx): two breaking changes as seeded/Cxx-d1,d2 and two harmless rewrites as seeded/harmless/Cxx-r4,r5
cd /verif
for p in "$@"; do d=/tmp/seed/S6$p; [ -d $d ] || continue
  for i in 1 2; do [ -f $d/_seed/patch$i.diff ] && [ -f $d/_seed/demo$i.py ] || continue; [ -d seeded/$p-d$i ] && continue
    echo "== $p-d$i"; IMPORT_LABEL=d timeout 2400 tools/import_seed.py $p $d $i 2>&1 | tail -4; done
  for j in 1 2; do [ -f $d/_refactor/patch$j.diff ] && [ -f $d/_refactor/equiv$j.py ] || continue; k=$((j+3)); [ -d seeded/harmless/$p-r$k ] && continue
    echo "== $p-r$k (harmless)"; timeout 2400 tools/import_refactor.py $p $d $j $k 2>&1 | grep -v "^    " | tail -4; done
done
