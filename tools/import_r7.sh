#!/bin/bash
# imports finished round-7 seeders (/tmp/seed/S7Cxx, two breaking changes each) as seeded/Cxx-e1, -e2
cd /verif
for p in "$@"; do d=/tmp/seed/S7$p; [ -d $d ] || continue
  for i in 1 2; do [ -f $d/_seed/patch$i.diff ] && [ -f $d/_seed/demo$i.py ] || continue; [ -d seeded/$p-e$i ] && continue
    echo "== $p-e$i"; IMPORT_LABEL=e timeout 2400 tools/import_seed.py $p $d $i 2>&1 | tail -4; done
done
