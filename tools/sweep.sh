#!/bin/bash
# soak for false alarms on the unchanged tree: every claimed check, several seeds (usage: tools/sweep.sh quick|thorough "0 1 2")
cd "$(dirname "$0")/.." || exit 2
tier=${1:-quick}; seeds=${2:-"0 1 2 3 4 5 6 7"}
[ -x lean/.lake/build/bin/pewdriver ] || ./setup >/dev/null || exit 2
for s in $seeds; do for p in $(python3 -c "import json;print(' '.join(c['property_id'] for c in json.load(open('MANIFEST.json'))['checks']))"); do
  out=$(VERIF_SEED=$s ./check $p --tier $tier 2>&1); code=$?
  echo "seed=$s $p exit=$code $(echo "$out" | grep -E 'cases,' | sed 's/.*\] //')"
  [ $code -ne 0 ] && echo "$out" | grep -E "VIOLATION|INTERNAL|PROBLEM" | head -5
done; done
