#!/usr/bin/env python3
"""Re-runs the current checks against every kept harmless rewrite (seeded/harmless/*): they must stay quiet (exit 0)."""
import json, subprocess, sys
from concurrent.futures import ThreadPoolExecutor
from pathlib import Path
V = Path(__file__).resolve().parent.parent
H = V / "seeded" / "harmless"
ids = sys.argv[1:] or sorted(p.name for p in H.iterdir() if (p / "patch.diff").exists())
def one(sid):
    d = H / sid
    meta = json.loads((d / "meta.json").read_text())
    pid = meta["property"]
    res = {}
    for seed in (0, 1):
        r = subprocess.run(f"VERIF_SEED={seed} tools/with_patched_repo -p {d}/patch.diff -- ./check {pid} --workers 2", shell=True,
                           cwd=V, capture_output=True, text=True)
        line = [l for l in r.stdout.splitlines() if l.startswith("VIOLATION")]
        res[f"{pid}/seed{seed}"] = {"exit": r.returncode, "violation": (line[0] if line else None)}
    meta.setdefault("first_import", {"check_results": meta.get("check_results"), "quiet": meta.get("quiet")})
    meta["current"] = {"check_results": res, "quiet": all(v["exit"] == 0 for v in res.values())}
    (d / "meta.json").write_text(json.dumps(meta, indent=1) + "\n")
    return sid, meta["current"]["quiet"]
with ThreadPoolExecutor(4) as ex:
    for sid, ok in ex.map(one, ids):
        print(sid, "quiet" if ok else "ALARM")
subprocess.run("rm -rf replays", shell=True, cwd=V)
