#!/usr/bin/env python3
"""usage: tools/import_seed.py <Cxx> <seed-worktree> <i> [<check-prop>...]
Verifies seed i of a seeder worktree (applies cleanly, suite passes, demo fails with / passes without),
runs the named checks (default: Cxx) against a patched scratch copy, and stores patch, demo and
meta.json under seeded/<Cxx>-<i>/."""
import json, shutil, subprocess, sys, re
from pathlib import Path
V = Path(__file__).resolve().parent.parent
pid, wt, i = sys.argv[1], Path(sys.argv[2]), sys.argv[3]
checks = sys.argv[4:] or [pid]
sd = wt / "_seed"
def sh(cmd, **kw):
    return subprocess.run(cmd, shell=True, capture_output=True, text=True, **kw)
sh("git checkout -q -- .", cwd=wt)
env = f"PYTHONPATH={wt}/src"
r0 = sh(f"{env} /venv/bin/python _seed/demo{i}.py", cwd=wt).returncode
ap = sh(f"git apply _seed/patch{i}.diff", cwd=wt)
if ap.returncode: sys.exit("patch does not apply: " + ap.stderr)
t = sh(f"{env} /venv/bin/python -m pytest -q -p no:cacheprovider --timeout=900 2>&1 | tail -1", cwd=wt).stdout.strip()
r1 = sh(f"{env} /venv/bin/python _seed/demo{i}.py", cwd=wt).returncode
sh("git checkout -q -- .", cwd=wt)
ok = r0 == 0 and r1 == 1 and "91 passed" in t
print(f"suite: {t}; demo clean={r0} patched={r1}; confirmed={ok}")
results = {}
for c in checks:
    for seed in (0, 1):
        r = sh(f"VERIF_SEED={seed} tools/with_patched_repo -p {sd}/patch{i}.diff -- ./check {c}", cwd=V)
        line = [l for l in r.stdout.splitlines() if l.startswith("VIOLATION")]
        results[f"{c}/seed{seed}"] = {"exit": r.returncode, "violation": line[0] if line else None}
        print(c, seed, r.returncode, line[:1])
if not ok:
    sys.exit("seed not confirmed; not imported")
import os
label = os.environ.get("IMPORT_LABEL", "") + str(i)
d = V / "seeded" / f"{pid}-{label}"
d.mkdir(parents=True, exist_ok=True)
shutil.copy(sd / f"patch{i}.diff", d / "patch.diff")
shutil.copy(sd / f"demo{i}.py", d / "demo.py")
notes = (sd / f"notes{i}.md").read_text() if (sd / f"notes{i}.md").exists() else ""
(d / "notes.md").write_text(notes)
meta = {"property": pid, "needs": notes[:1500], "confirmed": {"applies": True, "suite": t, "demo_clean_exit": r0, "demo_patched_exit": r1},
        "ran": [f"tools/with_patched_repo -p seeded/{pid}-{label}/patch.diff -- ./check {c}" for c in checks],
        "check_results": results, "caught": any(v["exit"] == 1 for v in results.values())}
(d / "meta.json").write_text(json.dumps(meta, indent=1) + "\n")
sh("rm -rf replays", cwd=V)
