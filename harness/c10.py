"""C10 — extents, pixel sizes and extent-based reads: pewlib.config.Config / SpotConfig,
pewlib.laser.Laser.extent / get(extent=...), pewlib.srr.config.SRRConfig, pewlib.srr.srr.SRRLaser.extent
against PewModel/Extent.lean (mechanism `laserExtent`, `get`, `srrLaserExtent`; specification
`Cfg.specExtent`, `rectSpec`, `Srr.reconRows/reconCols`)."""
import math
import sys
from fractions import Fraction

import numpy as np

from harness import core
from harness.core import Prop, outcome, rat, unrat

REL = 1e-12  # extent values against the exact rational
RATIO_REL = 1e-9  # (extent / pixel size) against an integer shape

# values that are inexact in binary floating point, and a few exact ones
SPOTSIZES = [35.0, 0.1 * 3, 33.3 * 1.3, 0.007, 10.0, 12.5, 2.2, 99.9, 1 / 3, 1e-3, 5.0, 0.7, 1.1 * 1.1]
SPEEDS = [140.0, 1.7, 0.1 * 3, 33.3, 0.007, 7.3, 250.0, 1 / 3, 10.0, 0.6, 1.3]
SCANTIMES = [0.25, 0.1, 0.007, 0.1 * 3, 1.3, 0.05, 1 / 3, 0.5, 0.33, 1.0, 0.7]


def pick(rng, pool):
    """a pool value, a product of two pool values, or a random decimal (all positive)"""
    t = rng.random()
    if t < 0.5:
        return rng.choice(pool)
    if t < 0.7:
        return rng.choice(pool) * rng.choice([3, 1.3, 0.1, 7, 0.7])
    k = rng.choice([1, 2, 3, 5])
    v = round(rng.uniform(0.001, 500.0), k)
    return v if v > 0 else 10.0 ** -k


def gen_cfg(rng):
    if rng.random() < 0.6:
        return {"kind": "raster", "spotsize": pick(rng, SPOTSIZES), "speed": pick(rng, SPEEDS), "scantime": pick(rng, SCANTIMES)}
    sx = pick(rng, SPOTSIZES)
    sy = sx if rng.random() < 0.3 else pick(rng, SPOTSIZES)
    return {"kind": "spot", "sx": sx, "sy": sy}


def cfg_json(cfg):
    return {k: (v if k == "kind" else rat(v)) for k, v in cfg.items()}


def make_cfg(cfg, types=None):
    """`types`: abstract key -> one of TYPES (the same value as an int, a NumPy scalar, a 0-d array ...)"""
    from pewlib.config import Config, SpotConfig

    t = types or {}
    if cfg["kind"] == "raster":
        return Config(spotsize=typed(cfg["spotsize"], t.get("spotsize")), speed=typed(cfg["speed"], t.get("speed")),
                      scantime=typed(cfg["scantime"], t.get("scantime")))
    if t.get("sy") == "omitted" and cfg["sx"] == cfg["sy"]:
        return SpotConfig(spotsize=typed(cfg["sx"], t.get("sx")))
    return SpotConfig(spotsize=typed(cfg["sx"], t.get("sx")), spotsize_y=typed(cfg["sy"], t.get("sy")))


# ----------------------------------------------------------------------------- SRR inputs (shared with C09)
def int_mag_triple(rng, M):
    """(spotsize, speed, scantime) for which spotsize / (speed * scantime) evaluates to the integer M
    in floating point (DESIGN 6a)"""
    for _ in range(200):
        speed, scantime = pick(rng, SPEEDS), pick(rng, SCANTIMES)
        p = speed * scantime
        for cand in (M * p, np.nextafter(M * p, math.inf), np.nextafter(M * p, 0.0)):
            cand = float(cand)
            if cand > 0 and cand / (speed * scantime) == float(M):
                return cand, speed, scantime
    return 35.0 * M, 140.0, 0.25


def gen_pairs(rng, maxden=6):
    k = rng.choice([1, 2, 2, 3, 4])
    pairs = []
    common = rng.random() < 0.5
    den0 = rng.randint(1, maxden)
    for i in range(k):
        den = den0 if common else rng.randint(1, maxden)
        num = rng.randint(0, den - 1) if rng.random() < 0.85 else rng.randint(den, 2 * den)
        pairs.append([num, den])
    if rng.random() < 0.5:
        pairs[0][0] = 0
    return pairs


def warmup_samples(seconds, scantime):
    """the number of warm-up samples an exact evaluation of round-half-even gives (input sizing only)"""
    return round(Fraction(seconds) / Fraction(scantime))


def gen_srr(rng, max_vox=24000, force_valid=True):
    """an abstract SRR case: config + crossed stack shapes (+ which way it is made invalid)"""
    for _ in range(100):
        M = rng.choice([1, 1, 1, 2, 2, 2, 3, 3, 4, 4, 5, 7])
        n = rng.choice([2, 2, 3, 3, 4, 5])
        l0, l1 = rng.randint(1, 6), rng.randint(1, 6)
        if rng.random() < 0.15:
            l1 = l0
        spotsize, speed, scantime = int_mag_triple(rng, M)
        w = rng.choice([0, 0, 1, 2, 3, 5])
        mode = rng.choice(["exact", "exact", "frac", "frac", "tie", "neartie"])
        if mode == "neartie":  # the float product (w + 1/2) * scantime and its neighbours: the exact quotient is w + 1/2 +- ~1e-16,
            seconds = (w + 0.5) * scantime  # so the float rounding of the division decides the warm-up in samples
            step = rng.choice([0, 0, 1, -1])
            if step:
                seconds = float(np.nextafter(seconds, math.inf if step > 0 else -math.inf))
        elif mode == "exact":
            seconds = w * scantime
        elif mode == "frac":
            seconds = (w + rng.choice([0.3, -0.3, 0.45, -0.45, 0.1])) * scantime
            if seconds < 0:
                seconds = w * scantime
        else:  # an exact tie: the quotient is exactly w + 1/2
            spotsize, speed, scantime = 35.0 * M, 140.0, 0.25
            seconds = (w + 0.5) * 0.25
        weff = warmup_samples(seconds, scantime)
        if mode == "neartie":  # input sizing only: here the float quotient decides, so that most of these stacks are long enough
            weff = max(0, round(seconds / scantime))
        pairs = gen_pairs(rng)
        size = math.lcm(*[d for _, d in pairs])
        p = math.lcm(size, M) // M
        ov = max(o * size // d for o, d in pairs)
        ex0, ex1 = rng.choice([0, 0, 1, 2, 7]), rng.choice([0, 0, 1, 3])
        s0, s1 = weff + l1 * M + ex0, weff + l0 * M + ex1
        short = None
        if not force_valid and rng.random() < 0.25:
            short = rng.choice(["s0", "s1", "neg"])
            if short == "s0":
                s0 = max(1, weff + l1 * M - rng.choice([1, 1, 2]))
            elif short == "s1":
                s1 = max(1, weff + l0 * M - rng.choice([1, 1, 2]))
            else:
                seconds = -rng.choice([1, 2]) * scantime
        elif rng.random() < 0.12:  # both layer kinds with the same number of samples, no warm-up
            seconds, weff, mode = 0.0, 0, "exact"
            s0 = s1 = max(l0, l1) * M + rng.choice([0, 1, 2, 5])
        if (l0 * M * p + ov) * (l1 * M * p + ov) * n > max_vox:
            continue
        return {"spotsize": spotsize, "speed": speed, "scantime": scantime, "warmup": seconds, "pairs": pairs,
                "mag": M, "n": n, "shapes": [[l0, s0], [l1, s1]], "short": short, "wmode": mode}
    raise core.InternalError("could not generate an SRR case")


def srr_cfg_json(case):
    """the INPUTS of an SRRConfig: the constructor arguments (exact values of the floats) and, under "ops", the changes made
    to that object afterwards (see `cfg_op`); Lean's `SrrConfig.make` / setters compute the state from them"""
    return {"spotsize": rat(case["spotsize"]), "speed": rat(case["speed"]), "scantime": rat(case["scantime"]),
            "warmup": rat(case["warmup"]), "pairs": case["pairs"], "ops": list(case.get("ops", []))}


def cfg_op(op, **kw):
    """one change of an SRRConfig object for the driver: warmup(seconds) | offsets(pairs) | equal(width) |
    params(spotsize, speed, scantime) | new(spotsize, speed, scantime, warmup, pairs)"""
    out = {"op": op}
    for k, v in kw.items():
        out[k] = rat(v) if isinstance(v, float) else v
    return out


def enc_rec(arr):
    """a structured NumPy array as the driver's `RecArr`: dtype names in order, dim (None = 0-d, n = shape (n,)), one record
    per element; a field is a float64 scalar ({"num": exact value}) or a (k, 2) integer sub-array ({"table": rows}).
    None when the array is something else (2-d, other field types)."""
    arr = np.asarray(arr)
    if arr.dtype.names is None or arr.ndim > 1:
        return None
    names = [str(n) for n in arr.dtype.names]
    elems = [arr[()]] if arr.ndim == 0 else [arr[i] for i in range(arr.shape[0])]
    recs = []
    for el in elems:
        rec = []
        for n in names:
            v = np.asarray(el[n])
            if v.ndim == 0 and v.dtype.kind == "f" and np.isfinite(v):
                rec.append({"num": rat(float(v))})
            elif v.ndim == 2 and v.shape[1] == 2 and v.dtype.kind in "iu":
                rec.append({"table": [[int(a), int(b)] for a, b in v]})
            else:
                return None
        recs.append(rec)
    return {"names": names, "dim": None if arr.ndim == 0 else int(arr.shape[0]), "recs": recs}


def float_mag(case):
    """the magnification as it evaluates in floating point; the generator makes it an integer"""
    return case["spotsize"] / (case["speed"] * case["scantime"])


def make_srr_cfg(case):
    from pewlib.srr.config import SRRConfig

    return SRRConfig(spotsize=case["spotsize"], speed=case["speed"], scantime=case["scantime"], warmup=case["warmup"],
                     subpixel_offsets=[tuple(p) for p in case["pairs"]])


def stack_shapes(case):
    return [case["shapes"][i % 2] for i in range(case["n"])]


# ----------------------------------------------------------------------------- helpers
MIN_NORMAL, MAX_FLOAT = Fraction(2) ** -1022, Fraction(sys.float_info.max)


def in_range(q: Fraction) -> bool:
    """zero, or inside the normal exponent range of float64 (where `Pew.fl` is the float64 rounding and a relative
    tolerance makes sense)"""
    return q == 0 or MIN_NORMAL <= abs(q) <= MAX_FLOAT


def fclose(a: float, q: Fraction, rel=REL) -> bool:
    if a == q:
        return True
    if not in_range(q):  # the exact value under/overflows: nothing a relative tolerance can say (recorded by the caller)
        return True
    if math.isinf(a) or math.isnan(a):
        return False
    return abs(Fraction(a) - q) <= Fraction(rel) * max(abs(Fraction(a)), abs(q))


def f32_exact(v) -> bool:
    """a value float32 keeps exactly and whose products with another such value and an index <= 128 stay exact in float32:
    numerator below 128, denominator a power of two up to 8"""
    try:
        f = Fraction(v)
    except (TypeError, ValueError, OverflowError):
        return False
    return f > 0 and f.numerator < 128 and f.denominator in (1, 2, 4, 8)


TYPES = ("float", "int", "i64", "f64", "arr0", "f32")


def typed(v, t):
    """the value `v` (a float) as an object of another numeric type with the SAME value; `float` when that type cannot hold it"""
    v = float(v)
    if t == "int" and v.is_integer() and abs(v) < 2 ** 53:
        return int(v)
    if t == "i64" and v.is_integer() and abs(v) < 2 ** 53:
        return np.int64(int(v))
    if t == "f64":
        return np.float64(v)
    if t == "arr0":
        return np.array(v)  # a 0-d array: what SRRConfig.from_array hands to the constructor
    if t == "f32" and f32_exact(v):
        return np.float32(v)
    return v


def type_used(v, t):
    """the type `typed` really produced"""
    w = typed(v, t)
    return {int: "int", float: "float"}.get(type(w), t)


DTYPES = {"f8": np.float64, "f4": np.float32, "i8": np.int64, "i4": np.int32, "u2": np.uint16}
DTYPE_CAP = {"f8": 2 ** 53, "f4": 2 ** 24, "i8": 2 ** 62, "i4": 2 ** 31 - 1, "u2": 2 ** 16 - 1}


def ext_close(vals, rats) -> bool:
    return len(vals) == len(rats) and all(fclose(float(v), unrat(r)) for v, r in zip(vals, rats))


def near_int(q: Fraction):
    """the integer q is within RATIO_REL of, else the float"""
    k = round(q)
    if abs(q - k) <= Fraction(RATIO_REL) * max(1, abs(k)):
        return int(k)
    return float(q)


def bound(mode, k, px, pw_exact):
    """float bound of pixel boundary k: how a caller would compute it"""
    if mode == "mul":
        return k * px
    if mode == "exact":
        return float(k * pw_exact)
    if mode == "up":
        return float(np.nextafter(k * px, math.inf))
    if mode == "down":
        return float(np.nextafter(k * px, -math.inf)) if k > 0 else 0.0
    raise core.InternalError(mode)


def summarize(res, cols, off, full):
    """canonical form of a sub-rectangle of the token grid (token of pixel (r, c) = r*cols + c + 1 + off)"""
    out = {"shape": list(res.shape)}
    if res.ndim != 2:
        return out
    h, w = res.shape
    if h == 0 or w == 0:
        out["first"] = out["last"] = None
    else:
        f, last = float(res[0, 0]) - off, float(res[-1, -1]) - off
        out["first"] = int(f) if f.is_integer() else f
        out["last"] = int(last) if last.is_integer() else last
        expected = res[0, 0] + np.arange(h, dtype=np.float64)[:, None] * cols + np.arange(w, dtype=np.float64)[None, :]
        if not np.array_equal(res, expected):
            out["irregular"] = True
    if full:
        out["data"] = [[int(v - off) if float(v - off).is_integer() else float(v - off) for v in row] for row in res]
    return out


def token_data(rows, cols, fields, dtypes=None, layout="C"):
    """structured array; `fields` = [(name, k)]: pixel (r, c) of field `name` holds r*cols + c + 1 + k*rows*cols.
    `dtypes`: one key of DTYPES per field (float64 where the tokens would not fit); `layout`: "C", "F" (Fortran order) or
    "view" (a strided view of a larger array)"""
    top = rows * cols * (max([k for _, k in fields] + [0]) + 1)
    dts = []
    for i, _ in enumerate(fields):
        d = (dtypes or [])[i % len(dtypes)] if dtypes else "f8"
        dts.append(d if d in DTYPES and top <= DTYPE_CAP[d] else "f8")
    dtype = [(n, DTYPES[d]) for (n, _), d in zip(fields, dts)]
    if layout == "view" and rows * cols <= 200_000:
        data = np.zeros((2 * rows + 1, 3 * cols + 2), dtype=dtype)[1::2, 2::3]
    elif layout == "F" and rows * cols <= 1_000_000:
        data = np.empty((cols, rows), dtype=dtype).T
    else:
        data = np.empty((rows, cols), dtype=dtype)
    base = np.arange(1, rows * cols + 1, dtype=np.float64).reshape(rows, cols)
    for n, k in fields:
        data[n] = base + k * rows * cols
    return data

# ----------------------------------------------------------------------------- histories on one object
ATTRS = {"raster": {"spotsize": "spotsize", "speed": "speed", "scantime": "scantime"},
         "spot": {"sx": "spotsize", "sy": "spotsize_y"}}  # abstract key -> attribute of the configuration object
POOLS = {"spotsize": SPOTSIZES, "speed": SPEEDS, "scantime": SCANTIMES, "sx": SPOTSIZES, "sy": SPOTSIZES}


def srr_vox(pairs, M, l0, l1, n):
    """voxels of the reconstruction (input sizing only)"""
    size = math.lcm(*[d for _, d in pairs])
    p = math.lcm(size, M) // M
    ov = max(o * size // d for o, d in pairs)
    return (l0 * M * p + ov) * (l1 * M * p + ov) * n


class C10(Prop):
    id = "C10"
    anchored = ["src/pewlib/config.py", "src/pewlib/laser.py", "src/pewlib/srr/config.py", "src/pewlib/srr/srr.py"]
    cases = {"quick": 950, "thorough": 38000}
    rule = ("raster/spot configs with parameters from pools of binary-inexact values (0.1*3, 33.3*1.3, 0.007, 1/3 ...), "
            "their products and random decimals; shapes 1..8 (every pixel-aligned rectangle read), medium and up to 4000 per side "
            "(random aligned rectangles incl. own extent, empty, first/last row/column); bounds computed as k*px, as the correctly "
            "rounded exact product, and one ulp above/below; SRR stacks (2..5 crossed layers, mag 1..4 from float-integer triples, "
            "warm-up, offsets) for extent/pixel = reconstructed shape; histories on ONE Laser object (2..5 steps: observe extent / pixel "
            "sizes / own-extent read / aligned reads, then edit one or several configuration attributes in place, replace the "
            "configuration object, assign data of another shape, add/remove an element, observe again - each observation against the "
            "model/spec for the configuration and shape held then) and on ONE SRRLaser object (offsets, equal offsets, warm-up, spot "
            "size/speed/scan time edited in place, configuration replaced; the driver is told the constructor arguments and the sequence of "
            "setter calls, Lean's setters compute the state). Every extent observation also encodes the real to_array() result (dtype names, "
            "shape, values) for the driver and runs Config.from_array / SpotConfig.from_array on the real arrays of all three configuration "
            "classes (outcome or exception class against the model's from_array). Every case is non-trivial; distinct by canonical case hash")
    trusted = [
        "float64 multiplication/division are correctly rounded, hence for the generated magnitudes (indices <= 4000) the float "
        "quotient bound/pixel-size is within 5e-7 of the exact quotient (assumption of get_aligned_rect); the model evaluates the exact quotient",
        "Python round(x, 6) is round-half-even on the exact value of x and int() truncates (theorem get_aligned_rect shows no tie is reachable)",
        "extent values are compared with the exact rational at 1e-12 relative; SRR extent/pixel ratios with the integer shape at 1e-9 relative",
        "SRR: 'integer magnification' means spotsize/(speed*scantime) evaluates to an integer in float64 (DESIGN 6a); the driver computes "
        "that float64 value from the inputs (PewModel/Srr.lean `fl`) and the SRR configuration from the constructor / setter inputs",
        "structured arrays: NumPy >= 2 semantics of float(array) (TypeError unless 0-d), array[name] (ValueError for a missing field), "
        "indexing a 0-d array (IndexError); arrays are encoded for the driver field by field (names in dtype order, shape, exact values)",
        "structural ties: the ~350-line typed translator harness/structural_c10.py (expression trees of the SRR configuration arithmetic, "
        "SRRLaser.extent, Laser.get's index conversion -> Lean definitions, proved equal to the model functions on every run)",
    ]
    assumptions = [
        "SRR extent/shape clause: when the model's validity check accepts the configuration the demanded shape is Lean's "
        "reconRows/reconCols (the C09 specification) and both the extent/pixel ratio and the shape pewlib reconstructs must equal it; "
        "when the reconstruction raises nothing is compared (C09 covers success)",
        "a change of the array LAYOUT of to_array (field names, order, the SpotConfig two-element array) that keeps the values through "
        "the round trip is reported as an implementation-vs-model difference, not as a violation of the specification",
    ]

    # ------------------------------------------------------------------ generation
    def gen_shape(self, rng, tier):
        t = rng.random()
        if t < 0.35:
            return rng.randint(1, 8), rng.randint(1, 8)
        if t < 0.7:
            return rng.randint(1, 120), rng.randint(1, 120)
        cap = 16_000_000 if (tier == "thorough" and rng.random() < 0.1) else 1_500_000
        a = rng.choice([4000, 3999, rng.randint(1000, 4000), rng.randint(121, 4000)])
        b = rng.choice([1, 2, rng.randint(1, 4000), rng.randint(1, 4000), 4000])
        b = max(1, min(b, cap // a))
        return (a, b) if rng.random() < 0.5 else (b, a)

    def gen_rect(self, rng, rows, cols):
        def pair(n):
            t = rng.random()
            if t < 0.2:
                return 0, n
            if t < 0.3:
                k = rng.randint(0, n)
                return k, k
            if t < 0.4:
                return n - 1, n
            if t < 0.5:
                return 0, 1
            a, b = rng.randint(0, n), rng.randint(0, n)
            return min(a, b), max(a, b)

        r0, r1 = pair(rows)
        c0, c1 = pair(cols)
        return [r0, r1, c0, c1]

    # histories: observe, change the configuration / shape of the SAME object, observe again
    def gen_obs(self, rng, rows, cols):
        t = rng.random()
        if t < 0.4:
            return {"o": "extent"}
        if t < 0.7:
            return {"o": "own"}
        return {"o": "rect", "rect": self.gen_rect(rng, rows, cols), "modes": [rng.choice(["mul", "mul", "exact", "up", "down"]) for _ in range(4)]}

    def gen_hist(self, rng, tier):
        cfg = gen_cfg(rng)
        t = rng.random()
        if t < 0.5:
            shape = lambda: (rng.randint(1, 8), rng.randint(1, 8))
        elif t < 0.88:
            shape = lambda: (rng.randint(1, 120), rng.randint(1, 120))
        else:
            shape = lambda: self.gen_shape(rng, "quick")
        rows, cols = rows0, cols0 = shape()
        nel = rng.choice([1, 1, 2])
        steps = []
        cur, nf = dict(cfg), nel
        for i in range(rng.choice([2, 2, 3, 3, 4, 5])):
            u = rng.random()
            if i == 0 and u < 0.8:
                ch = None
            elif u < 0.40:  # one attribute in place
                k = rng.choice(sorted(ATTRS[cur["kind"]]))
                ch = {"op": "set", "attrs": {k: pick(rng, POOLS[k])}}
            elif u < 0.58:  # several attributes in place
                keys = sorted(ATTRS[cur["kind"]])
                keys = [k for k in keys if rng.random() < 0.7] or keys
                ch = {"op": "set", "attrs": {k: pick(rng, POOLS[k]) for k in keys}}
            elif u < 0.72:
                ch = {"op": "replace", "cfg": gen_cfg(rng)}
            elif u < 0.86:
                nr, nc = shape()
                if rng.random() < 0.3:
                    nr, nc = rng.choice([(cols, rows), (rows, nc), (nr, cols), (rows + 1, cols), (rows, max(1, cols - 1))])
                ch = {"op": "data", "rows": nr, "cols": nc}
            elif u < 0.91:
                ch = {"op": "add"}
            elif u < 0.96:
                ch = {"op": "remove", "index": rng.randint(0, 2)}
            else:
                ch = None
            if ch is not None:  # follow the state, for rectangles that fit and sizes that stay small
                if ch["op"] == "set":
                    cur.update(ch["attrs"])
                elif ch["op"] == "replace":
                    cur = dict(ch["cfg"])
                elif ch["op"] == "data":
                    rows, cols = ch["rows"], ch["cols"]
                elif ch["op"] == "add":
                    if nf >= 3 or rows * cols > 400_000:
                        ch = None
                    else:
                        nf += 1
                elif ch["op"] == "remove":
                    nf = max(1, nf - 1)
            obs = [self.gen_obs(rng, rows, cols) for _ in range(rng.choice([1, 1, 2, 3]))]
            if rng.random() < 0.1:
                obs = []
            steps.append({"change": ch, "obs": obs, "element": rng.choice([None, 0, 1])})
        if not steps[-1]["obs"]:
            steps[-1]["obs"] = [{"o": "extent"}, {"o": "own"}]
        return {"kind": "hist", "cfg": cfg, "rows": rows0, "cols": cols0, "nel": nel, "steps": steps}

    def gen_srr_hist(self, rng):
        base = gen_srr(rng, max_vox=6000)
        M, n = base["mag"], base["n"]
        (l0, s0), (l1, s1) = base["shapes"]
        wmax = max(0, min(s0 - l1 * M, s1 - l0 * M))  # warm-up samples the layers can afford
        cur = {k: base[k] for k in ("spotsize", "speed", "scantime", "warmup", "pairs", "mag")}

        def new_pairs(equal):
            for _ in range(50):
                if equal:
                    w = rng.choice([1, 2, 3, 3, 4, 4, 5])
                    pairs = [[i, w] for i in range(w)]
                else:
                    pairs = gen_pairs(rng)
                if srr_vox(pairs, cur["mag"], l0, l1, n) <= 6000:
                    return pairs
            return [[0, 1]]

        def new_warmup(scantime):
            w = rng.randint(0, wmax)
            seconds = w * scantime
            return seconds if warmup_samples(seconds, scantime) <= wmax else 0.0

        steps = [{"change": None}] if rng.random() < 0.85 else []
        for _ in range(rng.choice([1, 1, 2, 3])):
            op = rng.choice(["pairs", "pairs", "equal", "equal", "warmup", "pairs+warmup", "triple", "replace"])
            if op == "pairs":
                ch = {"op": "set", "pairs": new_pairs(False)}
            elif op == "equal":
                ch = {"op": "equal", "pairs": new_pairs(True)}
            elif op == "warmup":
                ch = {"op": "set", "warmup": new_warmup(cur["scantime"])}
            elif op == "pairs+warmup":
                ch = {"op": "set", "pairs": new_pairs(False), "warmup": new_warmup(cur["scantime"])}
            elif op == "replace":
                ch = {"op": "replace", "pairs": new_pairs(rng.random() < 0.3), "warmup": new_warmup(cur["scantime"])}
            else:  # spot size, speed and scan time in place (another float-integer magnification <= the old one), then the warm-up
                M2 = rng.randint(1, M)
                spotsize, speed, scantime = int_mag_triple(rng, M2)
                if srr_vox(cur["pairs"], M2, l0, l1, n) > 6000:
                    ch = {"op": "set", "warmup": new_warmup(cur["scantime"])}
                else:
                    ch = {"op": "triple", "spotsize": spotsize, "speed": speed, "scantime": scantime, "mag": M2, "warmup": new_warmup(scantime)}
            cur.update({k: v for k, v in ch.items() if k != "op"})
            steps.append({"change": ch})
        return {"kind": "srr_hist", **base, "steps": steps}

    def generate(self, rng, tier):
        t = rng.random()
        if t < 0.17:
            return self.gen_hist(rng, tier)
        if t < 0.23:
            return self.gen_srr_hist(rng)
        if t < 0.42:
            return {"kind": "srr", **gen_srr(rng, max_vox=6000), "roundtrip": rng.random() < 0.3}
        cfg = gen_cfg(rng)
        rows, cols = self.gen_shape(rng, tier)
        if t < 0.58:
            return {"kind": "extent", "cfg": cfg, "rows": rows, "cols": cols}
        nel = rng.choice([1, 1, 2])
        if rows * cols > 400_000:
            nel = 1
        element = rng.choice([None, 0, nel - 1])
        if rows <= 4 and cols <= 4 and rng.random() < 0.7:
            return {"kind": "get_all", "cfg": cfg, "rows": rows, "cols": cols, "nel": nel, "element": element,
                    "mode": rng.choice(["mul", "exact", "up", "down"])}
        rect = self.gen_rect(rng, rows, cols)
        own = rect == [0, rows, 0, cols] and rng.random() < 0.7
        modes = ["own"] * 4 if own else [rng.choice(["mul", "mul", "exact", "up", "down"]) for _ in range(4)]
        return {"kind": "get", "cfg": cfg, "rows": rows, "cols": cols, "nel": nel, "element": element, "rect": rect, "modes": modes}

    def targeted(self, tier):
        cfgs = [{"kind": "raster", "spotsize": 35.0, "speed": 1.7, "scantime": 0.1},
                {"kind": "raster", "spotsize": 0.1 * 3, "speed": 33.3 * 1.3, "scantime": 0.007},
                {"kind": "spot", "sx": 0.1 * 3, "sy": 0.007}]
        # the witness of the repaired defect: own extent of a 59 x 53 image
        yield {"kind": "get", "cfg": cfgs[0], "rows": 59, "cols": 53, "nel": 1, "element": 0, "rect": [0, 59, 0, 53], "modes": ["own"] * 4}
        yield {"kind": "extent", "cfg": cfgs[0], "rows": 59, "cols": 53}
        for cfg in cfgs:
            for rows, cols in ((1, 1), (2, 3), (3, 2), (4, 4), (1, 5)):
                yield {"kind": "get_all", "cfg": cfg, "rows": rows, "cols": cols, "nel": 1, "element": 0, "mode": "mul"}
            yield {"kind": "extent", "cfg": cfg, "rows": 4000, "cols": 4000}
            yield {"kind": "extent", "cfg": cfg, "rows": 1, "cols": 1}
            yield {"kind": "get", "cfg": cfg, "rows": 4000, "cols": 3, "nel": 1, "element": None, "rect": [0, 4000, 0, 3], "modes": ["own"] * 4}
            yield {"kind": "get", "cfg": cfg, "rows": 2, "cols": 4000, "nel": 2, "element": 1, "rect": [1, 2, 3999, 4000], "modes": ["mul"] * 4}
        if tier == "thorough":  # every aligned rectangle of every image up to 6 x 6, four ways of computing the bounds
            for cfg in cfgs + [{"kind": "raster", "spotsize": 33.3 * 1.3, "speed": 0.007, "scantime": 1 / 3}]:
                for rows in range(1, 7):
                    for cols in range(1, 7):
                        for mode in ("mul", "exact", "up", "down"):
                            yield {"kind": "get_all", "cfg": cfg, "rows": rows, "cols": cols, "nel": 1, "element": 0, "mode": mode}
        # histories on one object: observe, change configuration or shape, observe again
        E, O = {"o": "extent"}, {"o": "own"}

        def R(r0, r1, c0, c1):
            return {"o": "rect", "rect": [r0, r1, c0, c1], "modes": ["mul"] * 4}

        def hist(cfg, rows, cols, *steps, nel=1):
            return {"kind": "hist", "cfg": cfg, "rows": rows, "cols": cols, "nel": nel,
                    "steps": [{"change": ch, "obs": list(obs), "element": 0} for ch, obs in steps]}

        def setc(**attrs):
            return {"op": "set", "attrs": attrs}

        ras = {"kind": "raster", "spotsize": 0.5, "speed": 0.1, "scantime": 3.0}
        spt = {"kind": "spot", "sx": 10.0, "sy": 25.0}
        yield hist(ras, 7, 11, (None, [E, O, R(1, 5, 2, 9)]), (setc(scantime=6.0), [E, O, R(1, 5, 2, 9)]),
                   (setc(spotsize=20.0, speed=35.0), [E, O, R(1, 5, 2, 9)]))
        yield hist(spt, 7, 11, (None, [E, O, R(1, 5, 2, 9)]), (setc(sy=40.0), [E, O, R(1, 5, 2, 9)]), (setc(sx=0.1 * 3), [E, O]))
        for first in ([E], [O]):  # the first read of the extent is direct, or inside get(extent=own extent)
            for second in ([E], [O]):
                for k, v in (("spotsize", 0.1 * 3), ("speed", 33.3), ("scantime", 0.007)):
                    yield hist(cfgs[0], 5, 3, (None, first), (setc(**{k: v}), second))
                for k, v in (("sx", 33.3 * 1.3), ("sy", 1 / 3)):
                    yield hist(cfgs[2], 3, 5, (None, first), (setc(**{k: v}), second))
        for cfg in (ras, spt):
            other = cfgs[2] if cfg["kind"] == "raster" else cfgs[1]
            same = {**cfg, "spotsize": 2.2} if cfg["kind"] == "raster" else {**cfg, "sx": 2.2}
            yield hist(cfg, 4, 6, (None, [E, O]), ({"op": "replace", "cfg": same}, [E, O, R(1, 3, 2, 6)]),
                       ({"op": "replace", "cfg": other}, [E, O, R(0, 4, 5, 6)]), ({"op": "replace", "cfg": cfg}, [E, O]))
            yield hist(cfg, 4, 6, (None, [E, O]), ({"op": "data", "rows": 6, "cols": 4}, [E, O, R(4, 6, 0, 4)]),
                       ({"op": "data", "rows": 1, "cols": 9}, [O, E]), ({"op": "data", "rows": 4000, "cols": 2}, [O, E]), nel=2)
            yield hist(cfg, 3, 3, (None, [E]), ({"op": "add"}, [E, O]), ({"op": "remove", "index": 0}, [O, E]), nel=2)
            # edited and edited back; edited without a read in between; edited after the object was replaced
            k = "scantime" if cfg["kind"] == "raster" else "sy"
            yield hist(cfg, 2, 9, (None, [E]), (setc(**{k: 0.7}), [E, O]), (setc(**{k: cfg[k]}), [E, O]))
            yield hist(cfg, 2, 9, (None, [O]), (setc(**{k: 0.7}), []), (setc(**{k: 1.3}), [O, E]))
            yield hist(cfg, 2, 9, (None, [E]), ({"op": "replace", "cfg": same}, [E]), (setc(**{k: 0.7}), [E, O]))
            yield hist(cfg, 2, 9, (None, [E]), ({"op": "data", "rows": 9, "cols": 2}, [E]), (setc(**{k: 0.7}), [E, O]))
        base = {"spotsize": 70.0, "speed": 140.0, "scantime": 0.25, "warmup": 0.5, "pairs": [[0, 2], [1, 2]],
                "mag": 2, "n": 2, "shapes": [[2, 12], [3, 10]], "short": None, "wmode": "exact"}
        yield {"kind": "srr_hist", **base, "steps": [
            {"change": None}, {"change": {"op": "set", "pairs": [[0, 3], [1, 3], [2, 3]]}},
            {"change": {"op": "equal", "pairs": [[0, 4], [1, 4], [2, 4], [3, 4]]}}, {"change": {"op": "set", "warmup": 0.0}},
            {"change": {"op": "triple", "spotsize": 35.0, "speed": 140.0, "scantime": 0.25, "mag": 1, "warmup": 0.25}},
            {"change": {"op": "replace", "pairs": [[1, 2]], "warmup": 0.5}}, {"change": {"op": "set", "pairs": [[0, 1]], "warmup": 0.75}}]}
        # the witness of the repaired SRR shape defect: layers 4 x 20 and 6 x 20
        yield {"kind": "srr", "spotsize": 35.0, "speed": 140.0, "scantime": 0.25, "warmup": 0.0, "pairs": [[0, 2], [1, 2]],
               "mag": 1, "n": 2, "shapes": [[4, 20], [6, 20]], "short": None, "wmode": "exact"}
        yield {"kind": "srr", "spotsize": 70.0, "speed": 140.0, "scantime": 0.25, "warmup": 0.5, "pairs": [[1, 3], [2, 3]],
               "mag": 2, "n": 3, "shapes": [[2, 9], [3, 7]], "short": None, "wmode": "exact"}

    def search_extra(self, tier):
        rng = core.case_rng(0, self.id, "extra", 0)
        for _ in range(200):
            cfg = gen_cfg(rng)
            rows, cols = rng.randint(1, 200), rng.randint(1, 200)
            yield {"kind": "get", "cfg": cfg, "rows": rows, "cols": cols, "nel": 1, "element": 0, "rect": [0, rows, 0, cols], "modes": ["own"] * 4}

    # ------------------------------------------------------------------ evaluation
    def make_laser(self, cfg, rows, cols, nel, tokens=True, types=None, dtypes=None, layout="C"):
        from pewlib.laser import Laser

        names = ["A", "B"][:nel]
        if not tokens:  # only the shape matters: a read-only broadcast view of one pixel, so that any shape costs no memory
            data = np.broadcast_to(np.zeros((), dtype=[(n, np.uint8) for n in names]), (rows, cols))
        else:
            data = token_data(rows, cols, list(zip(names, range(nel))), dtypes, layout)
        return Laser(data, config=make_cfg(cfg, types)), names

    def observe_extent(self, laser, cfg, rows, cols, ctx, feats=None):
        """pixel sizes, Laser.extent, data_extent and their array round trip of the laser AS IT IS NOW against the
        driver's model/spec for `cfg`, `rows`, `cols` (the state the harness APPLIED, never read back from pewlib)
        -> (impl, model, spec, spec_ok, model_ok).
        The array form is compared as NumPy built it (dtype field names in order, field dtypes, shape, values), the
        configuration read back from it must hold EXACTLY the applied values, and `from_array` of Config and SpotConfig is
        run on the real arrays of all three configuration classes."""
        from pewlib.config import Config, SpotConfig
        from pewlib.srr.config import SRRConfig

        feats = set() if feats is None else feats
        conf = laser.config
        own = conf.to_array()
        rt = type(conf).from_array(own)
        if cfg["kind"] == "raster":
            applied = [cfg["spotsize"], cfg["speed"], cfg["scantime"]]
            others = [lambda: SpotConfig(spotsize=cfg["spotsize"], spotsize_y=cfg["speed"]).to_array(),
                      lambda: SRRConfig(spotsize=cfg["spotsize"], speed=cfg["speed"], scantime=cfg["scantime"]).to_array()]
        else:
            applied = [cfg["sx"], cfg["sy"]]
            others = [lambda: Config(spotsize=cfg["sx"], speed=cfg["sy"], scantime=1.0).to_array(),
                      lambda: SRRConfig(spotsize=cfg["sx"], speed=cfg["sy"], scantime=0.25).to_array()]
        if all(Fraction(1, 10 ** 9) <= Fraction(v) <= 10 ** 9 for v in applied):
            others = [f() for f in others]
        else:  # extreme magnitudes: the other classes' constructors (SRR warm-up in samples) are outside their own domain
            others = []
        encs = [enc_rec(a) for a in [own] + others]
        if any(e is None for e in encs):
            raise core.InternalError("a configuration array is not a 0-d / 1-d structured array of floats and (k, 2) integer tables")

        def values_of(c):
            if isinstance(c, SpotConfig):
                return {"kind": "spot", "values": [rat(float(c.spotsize)), rat(float(c.spotsize_y))]}
            return {"kind": "raster", "values": [rat(float(c.spotsize)), rat(float(c.speed)), rat(float(c.scantime))]}

        def from_arr(cls, a):
            try:
                c = cls.from_array(a)
            except Exception as e:
                return {"raises": type(e).__name__}
            return values_of(c)

        impl = {"pw": float(conf.get_pixel_width()), "ph": float(conf.get_pixel_height()),
                "extent": [float(v) for v in laser.extent],
                "data_extent": [float(v) for v in conf.data_extent((rows, cols))],
                "array": encs[0], "dtypes": [own.dtype[n].str for n in own.dtype.names],
                "roundtrip": {"pw": float(rt.get_pixel_width()), "ph": float(rt.get_pixel_height()),
                              "extent": [float(v) for v in rt.data_extent((rows, cols))], **values_of(rt)},
                "from_arrays": [{"raster": from_arr(Config, a), "spot": from_arr(SpotConfig, a)} for a in [own] + others]}
        rep = ctx.driver.call("c10.extent", cfg=cfg_json(cfg), rows=rows, cols=cols, arrays=encs)
        m, s = rep["model"], rep["spec"]
        if not rep["positive"]:
            raise core.InternalError("a configuration parameter is not positive")

        def agrees(pw, ph, ext):
            return (fclose(impl["pw"], unrat(pw)) and fclose(impl["ph"], unrat(ph))
                    and ext_close(impl["extent"], ext) and ext_close(impl["data_extent"], ext)
                    and fclose(impl["roundtrip"]["pw"], unrat(pw)) and fclose(impl["roundtrip"]["ph"], unrat(ph))
                    and ext_close(impl["roundtrip"]["extent"], ext))

        def same_outcome(o, j):
            if j.get("unmodelled"):
                return True
            if "raises" in o or "raises" in j:
                return o.get("raises") == j.get("raises")
            return o["kind"] == j["kind"] and o["values"] == j["values"]

        # "these values survive the configuration's array round trip": the configuration read back holds exactly what was applied
        survived = impl["roundtrip"]["kind"] == cfg["kind"] and impl["roundtrip"]["values"] == [rat(v) for v in applied]
        if not all(in_range(unrat(v)) for v in [s["pw"], s["ph"]] + list(s["extent"])):
            feats.add("extreme: an exact value outside the normal float64 range (that value recorded only)")
        else:  # recorded only: is the implementation bit-for-bit the float64 pipeline of the model (`fl`)?
            mf = rep["modelF"]
            same = ([rat(impl["pw"]), rat(impl["ph"])] == [mf["pw"], mf["ph"]] and [rat(v) for v in impl["extent"]] == mf["extent"])
            feats.add("extent bit-for-bit the float64 model" if same else "extent differs from the float64 model in the last bits (recorded only)")
        spec_ok = agrees(s["pw"], s["ph"], s["extent"]) and survived
        model_ok = (agrees(m["pw"], m["ph"], m["extent"]) and "extent" in m["roundtrip"]
                    and ext_close(impl["roundtrip"]["extent"], m["roundtrip"]["extent"]) and m["data_extent"] == m["extent"]
                    and same_outcome(impl["roundtrip"], m["roundtrip"])
                    and canon_eq(impl["array"], m["array"]) and impl["dtypes"] == m["dtypes"]
                    and all(same_outcome(o[k], j[k]) for o, j in zip(impl["from_arrays"], m["from_arrays"]) for k in ("raster", "spot")))
        return impl, m, s, spec_ok, model_ok

    def eval_extent(self, case, ctx):
        cfg, rows, cols = case["cfg"], case["rows"], case["cols"]
        laser, _ = self.make_laser(cfg, rows, cols, 1, tokens=False, types=case.get("types"))
        feats = {"extent", cfg["kind"], "side>=1000" if max(rows, cols) >= 1000 else "side<1000"}
        impl, m, s, spec_ok, model_ok = self.observe_extent(laser, cfg, rows, cols, ctx, feats)
        if min(rows, cols) == 1:
            feats.add("side=1")
        for lim, name in ((4096, "side>=4096"), (2 ** 16, "side>=2^16"), (2 ** 24, "side>=2^24")):
            if max(rows, cols) >= lim:
                feats.add(name)
        for k, t in sorted((case.get("types") or {}).items()):
            if k in cfg:
                feats.add("parameter type: " + type_used(cfg[k], t))
        return outcome(impl, m, s, spec_ok=spec_ok, model_ok=model_ok, features=feats)

    def read(self, laser, fields, element, ext, cols, rows, full, kwargs=None):
        """`fields`: [(name, k)] of the token-carrying fields (pixel (r, c) of field k holds r*cols + c + 1 + k*rows*cols);
        `element`: index into `fields`, or None for the structured read"""
        el = None if element is None else fields[element][0]
        try:
            res = laser.get(el, extent=ext, **(kwargs or {}))
        except Exception as e:
            return {"raises": type(e).__name__, "msg": str(e)[:200]}
        if el is None:
            parts = [summarize(res[n], cols, k * rows * cols, full) for n, k in fields]
            return parts[0] if all(canon_eq(p, parts[0]) for p in parts) else {"fields_differ": parts}
        return summarize(res, cols, fields[element][1] * rows * cols, full)

    def float_bounds(self, laser, cfg, rect, modes):
        """the four float bounds of the pixel boundaries `rect`, computed from the APPLIED parameters `cfg` the way a caller
        would (pixel width = the float product speed * scantime), or the extent pewlib reports itself ("own")"""
        r0, r1, c0, c1 = rect
        if modes[0] == "own":
            return tuple(float(v) for v in laser.extent)
        if cfg["kind"] == "raster":
            px, py = float(cfg["speed"]) * float(cfg["scantime"]), float(cfg["spotsize"])
            pw_exact, ph_exact = Fraction(cfg["speed"]) * Fraction(cfg["scantime"]), Fraction(cfg["spotsize"])
        else:
            px, py = float(cfg["sx"]), float(cfg["sy"])
            pw_exact, ph_exact = Fraction(cfg["sx"]), Fraction(cfg["sy"])
        return (bound(modes[0], c0, px, pw_exact), bound(modes[1], c1, px, pw_exact),
                bound(modes[2], r0, py, ph_exact), bound(modes[3], r1, py, ph_exact))

    def observe_get(self, laser, fields, element, cfg, rows, cols, rect, modes, full, ctx, feats, opts=None):
        """one read of the region bounded by the pixel boundaries `rect` = [r0, r1, c0, c1] of the laser AS IT IS NOW
        (`modes`: how the four float bounds are computed from the applied parameters; "own" = the laser's own reported
        extent) against the driver's model/spec for `cfg`, `rows`, `cols` -> (impl, model, spec, undetermined, hyp, model_ok).
        `opts`: {"btypes": type of each bound, "container": tuple | list | array, "calibrate": omit | False | None}"""
        r0, r1, c0, c1 = rect
        opts = opts or {}
        ext = self.float_bounds(laser, cfg, rect, modes)
        if not all(math.isfinite(v) for v in ext):
            raise core.InternalError("a float bound overflowed")
        given = list(ext)
        pxf = float(cfg["speed"]) * float(cfg["scantime"]) if cfg["kind"] == "raster" else float(cfg["sx"])
        pyf = float(cfg["spotsize"]) if cfg["kind"] == "raster" else float(cfg["sy"])
        for i, t in enumerate(opts.get("btypes") or []):
            if t == "f32":  # only where float32 holds bound and pixel size exactly (NumPy divides in float32 then)
                p = pxf if i < 2 else pyf
                if not (f32_exact(p) and float(np.float32(ext[i])) == ext[i] and abs(ext[i]) < 2 ** 20):
                    t = "float"
            given[i] = typed(ext[i], t)
            feats.add("bound type: " + type_used(ext[i], t) if not (t == "f32" and isinstance(given[i], np.float32)) else "bound type: f32")
        cont = opts.get("container", "tuple")
        arg = tuple(given) if cont == "tuple" else (list(given) if cont == "list" else np.array([float(v) for v in given]))
        if cont != "tuple":
            feats.add("extent given as " + cont)
        kwargs = {}
        if opts.get("calibrate", "omit") != "omit":
            kwargs["calibrate"] = {"False": False, "None": None}[opts["calibrate"]]
            feats.add("calibrate=" + opts["calibrate"])
        impl = self.read(laser, fields, element, arg, cols, rows, full, kwargs)
        rep = ctx.driver.call("c10.get", cfg=cfg_json(cfg), rows=rows, cols=cols, full=full,
                              extent=[rat(v) for v in ext], rect=rect)
        # margins are in units of 1e-6 of the quotient; 1e-3 there = 1e-9 of the quotient
        undet = min(unrat(mg) for mg in rep["margins"]) < Fraction(1, 1000)
        hyp = True
        for q, k in zip(rep["quotients"], (c0, c1, r0, r1)):
            d = unrat(q) - k
            if abs(d) >= Fraction(5, 10**7):
                hyp = False
            if d < 0:
                feats.add("quotient-below-boundary")
            elif d > 0:
                feats.add("quotient-above-boundary")
            else:
                feats.add("quotient-exact")
        if rep["indices_old"] != rep["indices"]:
            feats.add("plain-truncation-would-differ")
        if rect == [0, rows, 0, cols]:
            feats.add("own-extent")
        if r0 == r1 or c0 == c1:
            feats.add("empty-rect")
        if (r1 == rows and r0 < r1) or (c1 == cols and c0 < c1):
            feats.add("touches-last")
        for lim, name in ((4096, "boundary index >= 4096"), (2 ** 16, "boundary index >= 2^16")):
            if max(rect) >= lim:
                feats.add(name)
        # the float64 pipeline of the model; when every bound is near its boundary (hypotheses of `get_float_config`) the
        # theorem says it IS the specification
        normal = in_range(unrat(rep["pwF"])) and in_range(unrat(rep["phF"])) and all(in_range(Fraction(v)) for v in ext) \
            and in_range(Fraction(cfg["speed"]) * Fraction(cfg["scantime"]) if cfg["kind"] == "raster" else Fraction(1))
        model_ok = canon_eq(impl, rep["model"])
        if all(rep["near"]) and max(rows, cols) <= 2 ** 28:
            feats.add("bounds near their boundaries: float64 theorem applies")
            if not canon_eq(rep["modelF"], rep["spec"]):
                raise core.InternalError("get_float_config contradicted by the driver")
        if normal:
            model_ok = model_ok and canon_eq(impl, rep["modelF"])
        else:
            feats.add("extreme: a value outside the normal float64 range (float model not compared)")
        return impl, rep["model"], rep["spec"], undet, hyp, model_ok

    def eval_get(self, case, ctx, rects):
        cfg, rows, cols, nel = case["cfg"], case["rows"], case["cols"], case["nel"]
        laser, names = self.make_laser(cfg, rows, cols, nel, types=case.get("types"), dtypes=case.get("dtypes"),
                                       layout=case.get("layout", "C"))
        fields = list(zip(names, range(nel)))
        full = rows * cols <= 64
        impl, model, spec = [], [], []
        feats = {"get", cfg["kind"], "structured-read" if case["element"] is None else "element-read"}
        undet = False
        hyp = model_ok = True
        for rect, modes in rects:
            i, m, s, u, h, mok = self.observe_get(laser, fields, case["element"], cfg, rows, cols, rect, modes, full, ctx, feats,
                                                  case.get("opts"))
            impl.append(i)
            model.append(m)
            spec.append(s)
            undet = undet or u
            hyp = hyp and h
            model_ok = model_ok and mok
        feats.add("side>=1000" if max(rows, cols) >= 1000 else ("side<=8" if max(rows, cols) <= 8 else "side 9..999"))
        for k, t in sorted((case.get("types") or {}).items()):
            if k in cfg:
                feats.add("parameter type: " + type_used(cfg[k], t))
        for d in sorted(set(laser.data.dtype[n].str for n in laser.data.dtype.names)):
            feats.add("data dtype " + d)
        if case.get("layout", "C") != "C":
            feats.add("data layout " + ("Fortran order" if laser.data.flags["F_CONTIGUOUS"] and not laser.data.flags["C_CONTIGUOUS"]
                                        else ("strided view" if not laser.data.flags["C_CONTIGUOUS"] else "C")))
        return outcome(impl, model, spec, model_ok=model_ok, undetermined=undet, hyp=hyp, features=feats)

    def srr_layers(self, shapes):
        layers = []
        for (l, k) in shapes:
            a = np.empty((l, k), dtype=[("A", np.float64)])
            a["A"] = np.arange(1, l * k + 1, dtype=np.float64).reshape(l, k)
            layers.append(a)
        return layers

    def observe_srr(self, laser, cur, shapes, ctx, feats):
        """extent / reconstructed pixel size of the SRR laser AS IT IS NOW against the shape of the reconstruction;
        `cur` = the INPUTS of the configuration it holds now (constructor arguments + "ops") -> (impl, model, spec, raised).
        The demanded shape is Lean's `reconRows/reconCols` (C09's specification of the reconstruction) whenever the model's
        validity check accepts the configuration; the shape pewlib reconstructs is an observation that must equal it too."""
        ext = [float(v) for v in laser.extent]
        px, py = float(laser.config.get_pixel_width()), float(laser.config.get_pixel_height())
        rep = ctx.driver.call("c10.srr", cfg=srr_cfg_json(cur), shapes=shapes, observed=[rat(v) for v in ext + [px, py]])
        mj = rep["config"]
        if not mj["integer_mag"] or mj["mag"] != cur["mag"]:
            raise core.InternalError("generator: the model's float64 magnification is not the intended integer")
        feats |= {"srr", f"mag{cur['mag']}", f"layers{len(shapes)}", "warmup>0" if rep["warmup"] > 0 else "warmup=0",
                  "non-square" if shapes[0][0] != shapes[1][0] else "square",
                  "offset>0" if (rep["offs"] and max(rep["offs"]) > 0) else "offset=0",
                  f"spp{'>1' if rep['spp'] > 1 else '=1'}"}
        try:
            recon = laser.get()
            rshape = [int(recon.shape[0]), int(recon.shape[1])]
        except Exception as e:  # the property speaks of the reconstructed array; success is C09's claim
            return {"raises": type(e).__name__, "msg": str(e)[:200]}, None, None, True
        if rep["observed_ratio"] is None:
            impl = {"cols_from_extent": None, "rows_from_extent": None}
        else:
            rx, ry = (unrat(v) for v in rep["observed_ratio"])
            impl = {"cols_from_extent": near_int(rx), "rows_from_extent": near_int(ry)}
        impl["reconstructed_shape"] = rshape
        if rep["valid"] is True and rep["spec_shape"] is not None:
            want = rep["spec_shape"]
            feats.add("srr: shape demanded from the C09 specification")
        else:  # a configuration the model's validity check rejects but pewlib reconstructs: only its own shape can be related
            want = rshape
            feats.add("srr: reconstructed although the model rejects the configuration")
        spec = {"cols_from_extent": want[1], "rows_from_extent": want[0], "reconstructed_shape": want}
        if rep["valid"] is not True:
            # e.g. one sample short with one-line layers: NumPy broadcasts the short line, the model (no broadcasting) has no
            # reconstruction; the property relates the extent to the array that WAS reconstructed, nothing else to compare
            model = dict(spec)
        elif rep["model_ratio"] is None or rep["model_shape"] is None:
            model = {"cols_from_extent": None, "rows_from_extent": None, "reconstructed_shape": rep["model_shape"]}
        else:
            mr = [unrat(v) for v in rep["model_ratio"]]
            model = {"cols_from_extent": near_int(mr[0]), "rows_from_extent": near_int(mr[1]), "reconstructed_shape": rep["model_shape"]}
        # the extent and pixel size themselves, against the model (1e-12 relative)
        model = dict(model)
        impl["extent_px_agree_with_model"] = bool(ext_close(ext, rep["model_extent"]) and fclose(px, unrat(rep["model_px"]))
                                                  and fclose(py, unrat(rep["model_py"]))) if rep["model_extent"] is not None else None
        model["extent_px_agree_with_model"] = True if rep["model_extent"] is not None else None
        spec["extent_px_agree_with_model"] = impl["extent_px_agree_with_model"]
        return impl, model, spec, False

    def eval_srr(self, case, ctx):
        from pewlib.srr.config import SRRConfig
        from pewlib.srr.srr import SRRLaser

        shapes = stack_shapes(case)
        cfg0 = make_srr_cfg(case)
        if case.get("roundtrip"):  # the same relation must hold for the configuration after its array round trip
            cfg0 = SRRConfig.from_array(cfg0.to_array())
        laser = SRRLaser(self.srr_layers(shapes), config=cfg0)
        feats = set()
        if case.get("roundtrip"):
            feats.add("srr-config-after-roundtrip")
        impl, model, spec, raised = self.observe_srr(laser, case, shapes, ctx, feats)
        if raised:
            return outcome(impl, None, None, spec_ok=True, model_ok=True, undetermined=True, features=feats)
        return outcome(impl, model, spec, features=feats)

    def eval_hist(self, case, ctx):
        """a history on ONE Laser object: every observation is compared with the driver's model/spec for the
        configuration and shape the object holds at that moment"""
        from pewlib.laser import Laser

        cfg = dict(case["cfg"])
        rows, cols = case["rows"], case["cols"]
        fields = [("A", 0), ("B", 1)][:case["nel"]]
        nextk = len(fields)
        laser = Laser(token_data(rows, cols, fields), config=make_cfg(cfg))
        impl, model, spec = [], [], []
        spec_ok = model_ok = hyp = True
        undet = False
        feats = {"history"}
        read_before = False  # Laser.extent of this object has been read
        pending = set()  # changes made after such a read and not yet followed by another read of Laser.extent
        nobs = 0
        for step in case["steps"]:
            ch = step.get("change")
            tag = None
            if ch is None:
                pass
            elif ch["op"] == "set":  # in place, on the configuration object the laser holds
                done = []
                for k in sorted(ch["attrs"]):
                    if k in ATTRS[cfg["kind"]]:  # (a shrunk history may name attributes of the other kind: ignored)
                        setattr(laser.config, ATTRS[cfg["kind"]][k], ch["attrs"][k])
                        cfg[k] = ch["attrs"][k]
                        done.append(k)
                if done:
                    tag = "in-place-edit"
                    feats.add("in-place-edit of " + ("several attributes" if len(done) > 1 else done[0]))
            elif ch["op"] == "replace":
                if ch["cfg"]["kind"] != cfg["kind"]:
                    feats.add("config-replaced: other kind")
                cfg = dict(ch["cfg"])
                laser.config = make_cfg(cfg)
                tag = "config-replaced"
            elif ch["op"] == "data":
                if (ch["rows"], ch["cols"]) != (rows, cols):
                    tag = "data-assigned: other shape"
                    if ch["rows"] * ch["cols"] == rows * cols:
                        feats.add("data-assigned: other shape, same number of pixels")
                else:
                    tag = "data-assigned: same shape"
                rows, cols = ch["rows"], ch["cols"]
                laser.data = token_data(rows, cols, fields)
            elif ch["op"] == "add":
                name = f"E{nextk}"
                laser.add(name, token_data(rows, cols, [(name, nextk)])[name])
                fields = fields + [(name, nextk)]
                nextk += 1
                tag = "element-added"
            elif ch["op"] == "remove":
                if len(fields) > 1:
                    gone = fields[ch["index"] % len(fields)]
                    laser.remove(gone[0])
                    fields = [f for f in fields if f != gone]
                    tag = "element-removed"
            else:
                raise core.InternalError(f"unknown change {ch}")
            if tag is not None:
                feats.add(tag)
                if read_before:
                    pending.add(tag)
            element = None if step.get("element") is None else step["element"] % len(fields)
            full = rows * cols <= 64
            for ob in step["obs"]:
                nobs += 1
                if ob["o"] == "extent":
                    i, m, s, sok, mok = self.observe_extent(laser, cfg, rows, cols, ctx, feats)
                    spec_ok, model_ok = spec_ok and sok, model_ok and mok
                else:
                    if ob["o"] == "own":
                        rect, modes = [0, rows, 0, cols], ["own"] * 4
                    else:  # a rectangle drawn for another shape (shrunk history) is clipped to the image
                        r0, r1, c0, c1 = ob["rect"]
                        rect, modes = [min(r0, rows), min(r1, rows), min(c0, cols), min(c1, cols)], ob["modes"]
                    i, m, s, u, h, mok = self.observe_get(laser, fields, element, cfg, rows, cols, rect, modes, full, ctx, feats)
                    undet, hyp = undet or u, hyp and h
                    spec_ok, model_ok = spec_ok and canon_eq(i, s), model_ok and mok
                    feats.add("structured-read" if element is None else "element-read")
                impl.append(i)
                model.append(m)
                spec.append(s)
                if ob["o"] in ("extent", "own"):
                    for tg in pending:
                        feats.add(f"extent read before and after: {tg}")
                    pending = set()
                    read_before = True
                elif tag is not None:
                    feats.add(f"aligned read after: {tag}")
        if nobs == 0:
            feats = set()
        else:
            feats.add(cfg["kind"])
        return outcome(impl, model, spec, spec_ok=spec_ok, model_ok=model_ok, undetermined=undet, hyp=hyp, features=feats)

    def eval_srr_hist(self, case, ctx):
        """a history on ONE SRRLaser object: configuration edited in place (offsets, warm-up, spot size/speed/scan time)
        or replaced; after each change extent / pixel size is compared with the shape reconstructed then"""
        from pewlib.srr.srr import SRRLaser

        shapes = stack_shapes(case)
        cur = {k: case[k] for k in ("spotsize", "speed", "scantime", "warmup", "pairs", "mag")}
        cur["ops"] = []  # what is DONE to the configuration object after its construction, for the driver's setters
        laser = SRRLaser(self.srr_layers(shapes), config=make_srr_cfg(cur))
        impl, model, spec = [], [], []
        feats = {"srr-history"}
        ok = 0
        for idx, step in enumerate(case["steps"]):
            ch = step.get("change")
            if ch is None:
                tag = None
            elif ch["op"] == "set":
                conf = laser.config
                if "pairs" in ch:
                    conf.subpixel_offsets = [tuple(p) for p in ch["pairs"]]
                    cur["ops"].append(cfg_op("offsets", pairs=ch["pairs"]))
                if "warmup" in ch:
                    conf.warmup = ch["warmup"]
                    cur["ops"].append(cfg_op("warmup", seconds=ch["warmup"]))
                tag = "in-place edit of " + " and ".join(k for k in ("pairs", "warmup") if k in ch)
            elif ch["op"] == "equal":
                w = len(ch["pairs"])
                if ch["pairs"] != [[i, w] for i in range(w)]:
                    raise core.InternalError("equal offsets: pairs must be [[0, w], .., [w-1, w]]")
                laser.config.set_equal_subpixel_offsets(w)
                cur["ops"].append(cfg_op("equal", width=w))
                tag = "in-place set_equal_subpixel_offsets"
            elif ch["op"] == "triple":
                conf = laser.config
                conf.spotsize, conf.speed, conf.scantime = ch["spotsize"], ch["speed"], ch["scantime"]
                conf.warmup = ch["warmup"]
                cur["ops"] += [cfg_op("params", spotsize=ch["spotsize"], speed=ch["speed"], scantime=ch["scantime"]),
                               cfg_op("warmup", seconds=ch["warmup"])]
                tag = "in-place edit of spot size, speed, scan time"
                if ch["mag"] != cur["mag"]:
                    feats.add("srr-history: magnification changed")
            elif ch["op"] == "replace":
                new = {**cur, **{k: v for k, v in ch.items() if k != "op"}}
                laser.config = make_srr_cfg(new)
                cur["ops"].append(cfg_op("new", spotsize=new["spotsize"], speed=new["speed"], scantime=new["scantime"],
                                         warmup=new["warmup"], pairs=new["pairs"]))
                tag = "config replaced"
            else:
                raise core.InternalError(f"unknown change {ch}")
            if ch is not None:
                cur.update({k: v for k, v in ch.items() if k != "op"})
            if tag is not None and idx > 0:
                feats.add("srr-history: " + tag)
            if len(cur["pairs"]) > len(shapes):
                feats.add("srr-history: more offsets than layers")
            i, m, s, raised = self.observe_srr(laser, cur, shapes, ctx, feats)
            if raised:  # nothing reconstructed at this step: nothing the property relates the extent to
                i = m = s = {"no reconstruction": i}
                feats.add("srr-history: a step without reconstruction")
            else:
                ok += 1
            impl.append(i)
            model.append(m)
            spec.append(s)
        return outcome(impl, model, spec, undetermined=(ok == 0), features=feats)

    def evaluate(self, case, ctx):
        k = case["kind"]
        if k == "extent":
            return self.eval_extent(case, ctx)
        if k == "get":
            return self.eval_get(case, ctx, [(case["rect"], case["modes"])])
        if k == "get_all":
            rows, cols = case["rows"], case["cols"]
            rects = [([r0, r1, c0, c1], [case["mode"]] * 4)
                     for r0 in range(rows + 1) for r1 in range(r0, rows + 1)
                     for c0 in range(cols + 1) for c1 in range(c0, cols + 1)]
            out = self.eval_get(case, ctx, rects)
            out["features"] = sorted(set(out["features"]) | {"all-aligned-rectangles"})
            return out
        if k == "srr":
            return self.eval_srr(case, ctx)
        if k == "hist":
            return self.eval_hist(case, ctx)
        if k == "srr_hist":
            return self.eval_srr_hist(case, ctx)
        raise core.InternalError(f"unknown case kind {k}")

    def shrink(self, case):
        k = case["kind"]
        if k in ("get", "get_all", "extent"):
            rows, cols = case["rows"], case["cols"]
            for nr, nc in ((rows // 2, cols), (rows, cols // 2), (rows - 1, cols), (rows, cols - 1)):
                if nr >= 1 and nc >= 1 and (nr, nc) != (rows, cols):
                    c = {**case, "rows": nr, "cols": nc}
                    if k == "get":
                        r0, r1, c0, c1 = case["rect"]
                        if case["modes"][0] == "own":
                            c["rect"] = [0, nr, 0, nc]
                        else:
                            c["rect"] = [min(r0, nr), min(r1, nr), min(c0, nc), min(c1, nc)]
                    yield c
            if k == "get_all":
                for r0 in range(rows + 1):
                    for r1 in range(r0, rows + 1):
                        for c0 in range(cols + 1):
                            for c1 in range(c0, cols + 1):
                                yield {**case, "kind": "get", "rect": [r0, r1, c0, c1], "modes": [case["mode"]] * 4}
            if case.get("nel", 1) > 1:
                yield {**case, "nel": 1, "element": 0}
        elif k == "hist":
            steps = case["steps"]
            for i in range(len(steps)):  # fewer steps (the state is followed by evaluate, so any sub-history is a valid case)
                yield {**case, "steps": steps[:i] + steps[i + 1:]}
            for i, st in enumerate(steps):
                def with_step(new):
                    return {**case, "steps": steps[:i] + [new] + steps[i + 1:]}

                if len(st["obs"]) > 1:
                    for j in range(len(st["obs"])):
                        yield with_step({**st, "obs": st["obs"][:j] + st["obs"][j + 1:]})
                ch = st.get("change")
                if ch is not None:
                    yield with_step({**st, "change": None})
                    if ch["op"] == "set" and len(ch["attrs"]) > 1:
                        for a in sorted(ch["attrs"]):
                            yield with_step({**st, "change": {"op": "set", "attrs": {b: v for b, v in ch["attrs"].items() if b != a}}})
                    if ch["op"] == "data":
                        for nr, nc in ((ch["rows"] // 2, ch["cols"]), (ch["rows"], ch["cols"] // 2)):
                            if nr >= 1 and nc >= 1:
                                yield with_step({**st, "change": {"op": "data", "rows": nr, "cols": nc}})
            rows, cols = case["rows"], case["cols"]
            for nr, nc in ((rows // 2, cols), (rows, cols // 2), (rows - 1, cols), (rows, cols - 1)):
                if nr >= 1 and nc >= 1 and (nr, nc) != (rows, cols):
                    yield {**case, "rows": nr, "cols": nc}
            if case["nel"] > 1:
                yield {**case, "nel": 1}
        elif k == "srr_hist":
            steps = case["steps"]
            for i in range(len(steps)):
                yield {**case, "steps": steps[:i] + steps[i + 1:]}
            if case["n"] > 2:
                yield {**case, "n": case["n"] - 1}
        elif k == "srr":
            if case["n"] > 2:
                yield {**case, "n": case["n"] - 1}
            if len(case["pairs"]) > 1:
                yield {**case, "pairs": case["pairs"][:-1]}
            (l0, s0), (l1, s1) = case["shapes"]
            M = case["mag"]
            if l0 > 1:
                yield {**case, "shapes": [[l0 - 1, s0], [l1, s1 - M]]}
            if l1 > 1:
                yield {**case, "shapes": [[l0, s0 - M], [l1 - 1, s1]]}


def canon_eq(a, b):
    return core.canon(a) == core.canon(b)


PROP = C10()

if __name__ == "__main__":
    sys.exit(core.main(PROP, "harness.c10"))
