"""C10 — extents, pixel sizes and extent-based reads: pewlib.config.Config / SpotConfig,
pewlib.laser.Laser.extent / get(extent=...), pewlib.srr.config.SRRConfig, pewlib.srr.srr.SRRLaser.extent
against PewModel/Extent.lean (mechanism `laserExtent`, `get`, `srrLaserExtent`; specification
`Cfg.specExtent`, `rectSpec`, `Srr.reconRows/reconCols`)."""
import math
import sys
from fractions import Fraction

import numpy as np

from harness import core
from harness.core import Prop, outcome, rat, unrat

REL = 1e-12  # extent values against the exact rational
RATIO_REL = 1e-9  # (extent / pixel size) against an integer shape

# values that are inexact in binary floating point, and a few exact ones
SPOTSIZES = [35.0, 0.1 * 3, 33.3 * 1.3, 0.007, 10.0, 12.5, 2.2, 99.9, 1 / 3, 1e-3, 5.0, 0.7, 1.1 * 1.1]
SPEEDS = [140.0, 1.7, 0.1 * 3, 33.3, 0.007, 7.3, 250.0, 1 / 3, 10.0, 0.6, 1.3]
SCANTIMES = [0.25, 0.1, 0.007, 0.1 * 3, 1.3, 0.05, 1 / 3, 0.5, 0.33, 1.0, 0.7]


def pick(rng, pool):
    """a pool value, a product of two pool values, or a random decimal (all positive)"""
    t = rng.random()
    if t < 0.5:
        return rng.choice(pool)
    if t < 0.7:
        return rng.choice(pool) * rng.choice([3, 1.3, 0.1, 7, 0.7])
    k = rng.choice([1, 2, 3, 5])
    v = round(rng.uniform(0.001, 500.0), k)
    return v if v > 0 else 10.0 ** -k


def nearly(rng, v):
    """a float that differs from v by one ulp .. 1e-3 relative (never equal)"""
    t = rng.random()
    if t < 0.3:
        w = v
        for _ in range(rng.choice([1, 1, 2, 5, 100])):
            w = float(np.nextafter(w, math.inf if t < 0.15 else 0.0))
    else:
        d = rng.choice([1e-14, 1e-12, 1e-9, 1e-7, 1e-6, 1e-5, 5e-5, 9.9e-5, 1e-4, 1.1e-4, 5e-4, 1e-3])
        w = v * (1 + d * rng.choice([1, -1]))
    return w if (w != v and w > 0) else float(np.nextafter(v, math.inf))


def near_rel(cfg):
    """relative distance of the two pixel sizes of a configuration (spot: x / y spacing; raster: speed * scantime / spot size)"""
    a, b = (Fraction(cfg["sx"]), Fraction(cfg["sy"])) if cfg["kind"] == "spot" else (Fraction(cfg["speed"]) * Fraction(cfg["scantime"]), Fraction(cfg["spotsize"]))
    return abs(a - b) / max(a, b) if max(a, b) > 0 else None


def gen_cfg(rng):
    t = rng.random()
    if t < 0.54:
        return {"kind": "raster", "spotsize": pick(rng, SPOTSIZES), "speed": pick(rng, SPEEDS), "scantime": pick(rng, SCANTIMES)}
    if t < 0.60:  # nearly square raster pixels: the spot size differs from speed * scantime by 1 ulp .. 1e-3
        speed, scantime = pick(rng, SPEEDS), pick(rng, SCANTIMES)
        return {"kind": "raster", "spotsize": nearly(rng, speed * scantime), "speed": speed, "scantime": scantime}
    sx = pick(rng, SPOTSIZES)
    if t < 0.70:  # nearly equal x / y spacings (either may be the larger): each must be used as given
        sy = nearly(rng, sx)
        return {"kind": "spot", "sx": sx, "sy": sy} if rng.random() < 0.5 else {"kind": "spot", "sx": sy, "sy": sx}
    sy = sx if rng.random() < 0.3 else pick(rng, SPOTSIZES)
    return {"kind": "spot", "sx": sx, "sy": sy}


def cfg_json(cfg):
    return {k: (v if k == "kind" else rat(v)) for k, v in cfg.items()}


def make_cfg(cfg, types=None):
    """`types`: abstract key -> one of TYPES (the same value as an int, a NumPy scalar, a 0-d array ...)"""
    from pewlib.config import Config, SpotConfig

    t = types or {}
    pos = bool(t.get("_positional"))  # the parameters in the documented order instead of by keyword
    if cfg["kind"] == "raster":
        a = (typed(cfg["spotsize"], t.get("spotsize")), typed(cfg["speed"], t.get("speed")), typed(cfg["scantime"], t.get("scantime")))
        return Config(*a) if pos else Config(spotsize=a[0], speed=a[1], scantime=a[2])
    if t.get("sy") == "omitted" and cfg["sx"] == cfg["sy"]:
        return SpotConfig(typed(cfg["sx"], t.get("sx"))) if pos else SpotConfig(spotsize=typed(cfg["sx"], t.get("sx")))
    a = (typed(cfg["sx"], t.get("sx")), typed(cfg["sy"], t.get("sy")))
    return SpotConfig(*a) if pos else SpotConfig(spotsize=a[0], spotsize_y=a[1])


# ----------------------------------------------------------------------------- SRR inputs (shared with C09)
def int_mag_triple(rng, M):
    """(spotsize, speed, scantime) for which spotsize / (speed * scantime) evaluates to the integer M
    in floating point (DESIGN 6a)"""
    for _ in range(200):
        speed, scantime = pick(rng, SPEEDS), pick(rng, SCANTIMES)
        p = speed * scantime
        for cand in (M * p, np.nextafter(M * p, math.inf), np.nextafter(M * p, 0.0)):
            cand = float(cand)
            if cand > 0 and cand / (speed * scantime) == float(M):
                return cand, speed, scantime
    return 35.0 * M, 140.0, 0.25


def gen_pairs(rng, maxden=6):
    k = rng.choice([1, 2, 2, 3, 4])
    pairs = []
    common = rng.random() < 0.5
    den0 = rng.randint(1, maxden)
    for i in range(k):
        den = den0 if common else rng.randint(1, maxden)
        num = rng.randint(0, den - 1) if rng.random() < 0.85 else rng.randint(den, 2 * den)
        pairs.append([num, den])
    if rng.random() < 0.5:
        pairs[0][0] = 0
    return pairs


def warmup_samples(seconds, scantime):
    """the number of warm-up samples an exact evaluation of round-half-even gives (input sizing only)"""
    return round(Fraction(seconds) / Fraction(scantime))


def gen_srr(rng, max_vox=24000, force_valid=True):
    """an abstract SRR case: config + crossed stack shapes (+ which way it is made invalid)"""
    for _ in range(100):
        M = rng.choice([1, 1, 1, 2, 2, 2, 3, 3, 4, 4, 5, 7])
        n = rng.choice([2, 2, 3, 3, 4, 5])
        l0, l1 = rng.randint(1, 6), rng.randint(1, 6)
        if rng.random() < 0.15:
            l1 = l0
        spotsize, speed, scantime = int_mag_triple(rng, M)
        w = rng.choice([0, 0, 1, 2, 3, 5, 40, 500])
        mode = rng.choice(["exact", "exact", "frac", "frac", "tie", "neartie"])
        if mode == "neartie":  # the float product (w + 1/2) * scantime and its neighbours: the exact quotient is w + 1/2 +- ~1e-16,
            seconds = (w + 0.5) * scantime  # so the float rounding of the division decides the warm-up in samples
            step = rng.choice([0, 0, 1, -1])
            if step:
                seconds = float(np.nextafter(seconds, math.inf if step > 0 else -math.inf))
        elif mode == "exact":
            seconds = w * scantime
        elif mode == "frac":
            seconds = (w + rng.choice([0.3, -0.3, 0.45, -0.45, 0.1])) * scantime
            if seconds < 0:
                seconds = w * scantime
        else:  # an exact tie: the quotient is exactly w + 1/2
            spotsize, speed, scantime = 35.0 * M, 140.0, 0.25
            seconds = (w + 0.5) * 0.25
        weff = warmup_samples(seconds, scantime)
        if mode == "neartie":  # input sizing only: here the float quotient decides, so that most of these stacks are long enough
            weff = max(0, round(seconds / scantime))
        pairs = gen_pairs(rng)
        size = math.lcm(*[d for _, d in pairs])
        p = math.lcm(size, M) // M
        ov = max(o * size // d for o, d in pairs)
        ex0, ex1 = rng.choice([0, 0, 1, 2, 7]), rng.choice([0, 0, 1, 3])
        s0, s1 = weff + l1 * M + ex0, weff + l0 * M + ex1
        short = None
        if not force_valid and rng.random() < 0.25:
            short = rng.choice(["s0", "s1", "neg"])
            if short == "s0":
                s0 = max(1, weff + l1 * M - rng.choice([1, 1, 2]))
            elif short == "s1":
                s1 = max(1, weff + l0 * M - rng.choice([1, 1, 2]))
            else:
                seconds = -rng.choice([1, 2]) * scantime
        elif rng.random() < 0.12:  # both layer kinds with the same number of samples, no warm-up
            seconds, weff, mode = 0.0, 0, "exact"
            s0 = s1 = max(l0, l1) * M + rng.choice([0, 1, 2, 5])
        if (l0 * M * p + ov) * (l1 * M * p + ov) * n > max_vox:
            continue
        if rng.random() < 0.08:  # extreme magnitudes: spot size and speed times 2^k (exact, so the magnification is the same float integer)
            k = rng.choice([-1000, -600, -80, 80, 600, 900])
            spotsize, speed = math.ldexp(spotsize, k), math.ldexp(speed, k)
        return {"spotsize": spotsize, "speed": speed, "scantime": scantime, "warmup": seconds, "pairs": pairs,
                "mag": M, "n": n, "shapes": [[l0, s0], [l1, s1]], "short": short, "wmode": mode}
    raise core.InternalError("could not generate an SRR case")


def srr_cfg_json(case):
    """the INPUTS of an SRRConfig: the constructor arguments (exact values of the floats) and, under "ops", the changes made
    to that object afterwards (see `cfg_op`); Lean's `SrrConfig.make` / setters compute the state from them"""
    c = case.get("ctor")  # (a C10 history keeps the constructor arguments apart from the current values;
    if not isinstance(c, dict):  # in a C09 case "ctor" names the constructor used)
        c = case
    return {"spotsize": rat(c["spotsize"]), "speed": rat(c["speed"]), "scantime": rat(c["scantime"]),
            "warmup": rat(c["warmup"]), "pairs": c["pairs"], "ops": list(case.get("ops", []))}


def cfg_op(op, **kw):
    """one change of an SRRConfig object for the driver: warmup(seconds) | offsets(pairs) | equal(width) |
    params(spotsize, speed, scantime) | new(spotsize, speed, scantime, warmup, pairs)"""
    out = {"op": op}
    for k, v in kw.items():
        out[k] = rat(v) if isinstance(v, float) else v
    return out


def enc_rec(arr):
    """a structured NumPy array as the driver's `RecArr`: dtype names in order, dim (None = 0-d, n = shape (n,)), one record
    per element; a field is a float64 scalar ({"num": exact value}) or a (k, 2) integer sub-array ({"table": rows}).
    None when the array is something else (2-d, other field types)."""
    arr = np.asarray(arr)
    if arr.dtype.names is None or arr.ndim > 1:
        return None
    names = [str(n) for n in arr.dtype.names]
    elems = [arr[()]] if arr.ndim == 0 else [arr[i] for i in range(arr.shape[0])]
    recs = []
    for el in elems:
        rec = []
        for n in names:
            v = np.asarray(el[n])
            if v.ndim == 0 and v.dtype.kind == "f" and np.isfinite(v):
                rec.append({"num": rat(float(v))})
            elif v.ndim == 2 and v.shape[1] == 2 and v.dtype.kind in "iu":
                rec.append({"table": [[int(a), int(b)] for a, b in v]})
            else:
                return None
        recs.append(rec)
    return {"names": names, "dim": None if arr.ndim == 0 else int(arr.shape[0]), "recs": recs}


def float_mag(case):
    """the magnification as it evaluates in floating point; the generator makes it an integer"""
    return case["spotsize"] / (case["speed"] * case["scantime"])


def make_srr_cfg(case):
    from pewlib.srr.config import SRRConfig

    return SRRConfig(spotsize=case["spotsize"], speed=case["speed"], scantime=case["scantime"], warmup=case["warmup"],
                     subpixel_offsets=[tuple(p) for p in case["pairs"]])


def stack_shapes(case):
    return [case["shapes"][i % 2] for i in range(case["n"])]


# ----------------------------------------------------------------------------- helpers
MIN_NORMAL, MAX_FLOAT = Fraction(2) ** -1022, Fraction(sys.float_info.max)


def in_range(q: Fraction) -> bool:
    """zero, or inside the normal exponent range of float64 (where `Pew.fl` is the float64 rounding and a relative
    tolerance makes sense)"""
    return q == 0 or MIN_NORMAL <= abs(q) <= MAX_FLOAT


def fclose(a: float, q: Fraction, rel=REL) -> bool:
    if a == q:
        return True
    if not in_range(q):  # the exact value under/overflows: nothing a relative tolerance can say (recorded by the caller)
        return True
    if math.isinf(a) or math.isnan(a):
        return False
    return abs(Fraction(a) - q) <= Fraction(rel) * max(abs(Fraction(a)), abs(q))


def f32_exact(v) -> bool:
    """a value float32 keeps exactly and whose products with another such value and an index <= 128 stay exact in float32:
    numerator below 128, denominator a power of two up to 8"""
    try:
        f = Fraction(v)
    except (TypeError, ValueError, OverflowError):
        return False
    return f > 0 and f.numerator < 128 and f.denominator in (1, 2, 4, 8)


TYPES = ("float", "int", "i64", "f64", "arr0", "f32")


def safe_types(cfg, types, rows, cols):
    """float32 parameters only where float32 arithmetic is exact: every parameter of the configuration float32-exact and the
    image at most 100 pixels per side (NumPy computes speed * scantime and pixel size * columns in float32 then); else float"""
    if not types:
        return types
    ok = max(rows, cols) <= 100 and all(f32_exact(v) for k, v in cfg.items() if k != "kind")
    return {k: (t if (t != "f32" or ok) else "float") for k, t in types.items()}  # ("_positional": True passes through)


def typed(v, t):
    """the value `v` (a float) as an object of another numeric type with the SAME value; `float` when that type cannot hold it"""
    v = float(v)
    if t == "int" and v.is_integer() and abs(v) < 2 ** 53:
        return int(v)
    if t == "i64" and v.is_integer() and abs(v) < 2 ** 53:
        return np.int64(int(v))
    if t == "f64":
        return np.float64(v)
    if t == "arr0":
        return np.array(v)  # a 0-d array: what SRRConfig.from_array hands to the constructor
    if t == "f32" and f32_exact(v):
        return np.float32(v)
    return v


def type_used(v, t):
    """the type `typed` really produced"""
    w = typed(v, t)
    return {int: "int", float: "float"}.get(type(w), t)


DTYPES = {"f8": np.float64, "f4": np.float32, "i8": np.int64, "i4": np.int32, "u2": np.uint16}
DTYPE_CAP = {"f8": 2 ** 53, "f4": 2 ** 24, "i8": 2 ** 62, "i4": 2 ** 31 - 1, "u2": 2 ** 16 - 1}


def ext_close(vals, rats) -> bool:
    return len(vals) == len(rats) and all(fclose(float(v), unrat(r)) for v, r in zip(vals, rats))


def near_int(q: Fraction):
    """the integer q is within RATIO_REL of, else the float"""
    k = round(q)
    if abs(q - k) <= Fraction(RATIO_REL) * max(1, abs(k)):
        return int(k)
    return float(q)


def bound(mode, k, px, pw_exact):
    """float bound of pixel boundary k: how a caller would compute it (inf when the product overflows: such a read is skipped)"""
    if not math.isfinite(k * px):
        return math.inf
    if mode == "mul":
        return k * px
    if mode == "exact":
        try:
            return float(k * pw_exact)
        except OverflowError:
            return math.inf
    if mode == "up":
        return float(np.nextafter(k * px, math.inf))
    if mode == "down":
        return float(np.nextafter(k * px, -math.inf)) if k > 0 else 0.0
    raise core.InternalError(mode)


def summarize(res, cols, off, full):
    """canonical form of a sub-rectangle of the token grid (token of pixel (r, c) = r*cols + c + 1 + off)"""
    out = {"shape": list(res.shape)}
    if res.ndim != 2:
        return out
    h, w = res.shape
    if h == 0 or w == 0:
        out["first"] = out["last"] = None
    else:
        f, last = float(res[0, 0]) - off, float(res[-1, -1]) - off
        out["first"] = int(f) if f.is_integer() else f
        out["last"] = int(last) if last.is_integer() else last
        expected = res[0, 0] + np.arange(h, dtype=np.float64)[:, None] * cols + np.arange(w, dtype=np.float64)[None, :]
        if not np.array_equal(res, expected):
            out["irregular"] = True
    if full:
        out["data"] = [[int(v - off) if float(v - off).is_integer() else float(v - off) for v in row] for row in res]
    return out


def token_data(rows, cols, fields, dtypes=None, layout="C"):
    """structured array; `fields` = [(name, k)]: pixel (r, c) of field `name` holds r*cols + c + 1 + k*rows*cols.
    `dtypes`: one key of DTYPES per field (float64 where the tokens would not fit); `layout`: "C", "F" (Fortran order) or
    "view" (a strided view of a larger array)"""
    top = rows * cols * (max([k for _, k in fields] + [0]) + 1)
    dts = []
    for i, _ in enumerate(fields):
        d = (dtypes or [])[i % len(dtypes)] if dtypes else "f8"
        dts.append(d if d in DTYPES and top <= DTYPE_CAP[d] else "f8")
    dtype = [(n, DTYPES[d]) for (n, _), d in zip(fields, dts)]
    if layout == "view" and rows * cols <= 200_000:
        data = np.zeros((2 * rows + 1, 3 * cols + 2), dtype=dtype)[1::2, 2::3]
    elif layout == "F" and rows * cols <= 1_000_000:
        data = np.empty((cols, rows), dtype=dtype).T
    else:
        data = np.empty((rows, cols), dtype=dtype)
    base = np.arange(1, rows * cols + 1, dtype=np.float64).reshape(rows, cols)
    for n, k in fields:
        data[n] = base + k * rows * cols
    return data

# ----------------------------------------------------------------------------- histories on one object
ATTRS = {"raster": {"spotsize": "spotsize", "speed": "speed", "scantime": "scantime"},
         "spot": {"sx": "spotsize", "sy": "spotsize_y"}}  # abstract key -> attribute of the configuration object
POOLS = {"spotsize": SPOTSIZES, "speed": SPEEDS, "scantime": SCANTIMES, "sx": SPOTSIZES, "sy": SPOTSIZES}


def srr_vox(pairs, M, l0, l1, n):
    """voxels of the reconstruction (input sizing only)"""
    size = math.lcm(*[d for _, d in pairs])
    p = math.lcm(size, M) // M
    ov = max(o * size // d for o, d in pairs)
    return (l0 * M * p + ov) * (l1 * M * p + ov) * n


class C10(Prop):
    id = "C10"
    anchored = ["src/pewlib/config.py", "src/pewlib/laser.py", "src/pewlib/srr/config.py", "src/pewlib/srr/srr.py"]
    cases = {"quick": 950, "thorough": 32000}
    rule = ("raster/spot configs with parameters from pools of binary-inexact values (0.1*3, 33.3*1.3, 0.007, 1/3 ...), "
            "their products and random decimals; shapes 1..8 (every pixel-aligned rectangle read), medium and up to 4000 per side "
            "(random aligned rectangles incl. own extent, empty, first/last row/column), long images (one side >= 4096 and >= 2^16 really "
            "allocated and read near the far end; extents alone up to 2^28 per side on a broadcast view); bounds computed from the APPLIED "
            "parameters as k*px, as the correctly rounded exact product, and one ulp above/below, or the extent pewlib reports; parameters, "
            "bounds and data of other numeric types (int, np.int64, np.float64, 0-d arrays, float32 where float32 arithmetic is exact; data "
            "fields f8/f4/i8/i4/u2, Fortran order, strided views; the extent as tuple/list/array; calibrate omitted/False/None; "
            "Laser.from_list; positional constructor arguments); extreme magnitudes (1e-300, 1e300, subnormal, DBL_MAX); SRR stacks (2..5 "
            "crossed layers, mag 1..7 from float-integer triples, warm-up 0..500 samples, offsets lists shorter and longer than the stack, "
            "parameters scaled by 2^k, reconstruction read before or after the extent, by get() / get(element) / get(flat=True)) for "
            "extent/pixel = reconstructed shape; histories on ONE Laser object (kind hist) and on several configuration objects and several "
            "lasers that may SHARE one (kind heap: every attribute of the class in every order, through the laser or through the harness's own "
            "reference, configuration replaced and the old object forgotten so that its id() is reused, copy.copy / deepcopy of a laser, data of "
            "the same or another shape / dtype / layout, elements added and removed; every observation - extent, pixel sizes alone, own-extent "
            "read, aligned read - judged against Lean's `viewSpec` of the operations the harness performed, never against values read back "
            "from pewlib) and on SRRLaser objects (offsets, equal offsets, warm-up, spot size / speed / scan time one by one in any order, "
            "configuration replaced, layers replaced in the list or as a list, a second SRRLaser given the SAME configuration object; the "
            "driver is told the constructor arguments and the sequence of setter calls, Lean's setters compute the state). Every extent "
            "observation also encodes the real to_array() result (dtype names, field dtypes, shape, values) for the driver, demands that the "
            "configuration read back holds exactly the applied values, and runs Config.from_array / SpotConfig.from_array on the real arrays "
            "of all three configuration classes. Every case is non-trivial; distinct by canonical case hash")
    trusted = [
        "CPython float multiplication/division are IEEE-754 binary64 round-to-nearest-even, which is what PewModel/Srr.lean `fl` computes "
        "in the normal exponent range; given that, theorems get_float_aligned / get_float_own_extent PROVE that every bound within k*p/2^50 of "
        "its boundary (k <= 2^28) converts to k (no assumption on the quotient error any more); values outside the normal range are recorded only",
        "Python round(x, 6) is round-half-even on the exact value of x and int() truncates (theorem get_aligned_rect shows no tie is reachable)",
        "extent values are compared with the exact rational at 1e-12 relative (theorem extent_float_close: the float64 pipeline is within 2^-51); "
        "bit-for-bit agreement with the float64 model is recorded, not demanded; SRR extent/pixel ratios with the integer shape at 1e-9 relative",
        "SRR: 'integer magnification' means spotsize/(speed*scantime) evaluates to an integer in float64 (DESIGN 6a); the driver computes "
        "that float64 value from the inputs (PewModel/Srr.lean `fl`) and the SRR configuration from the constructor / setter inputs",
        "structured arrays: NumPy >= 2 semantics of float(array) (TypeError unless 0-d), array[name] (ValueError for a missing field), "
        "indexing a 0-d array (IndexError); arrays are encoded for the driver field by field (names in dtype order, shape, exact values)",
        "Python object semantics assumed by the heap-history model: attribute assignment changes the one object, `a.config = obj` stores a "
        "reference (checked with `is` after every assignment and construction; a copy made by pewlib is told to the driver as a copy)",
        "structural ties: the ~900-line typed translator harness/structural_c10.py (expression trees of the SRR configuration arithmetic, "
        "SRRLaser.extent, Laser.shape/extent, Laser.get's index conversion and slice, to_array of the three classes, from_array of Config and "
        "SpotConfig incl. the constructor's parameter -> attribute mapping -> Lean definitions, proved equal to the model functions on every run)",
    ]
    assumptions = [
        "SRR extent/shape clause: when the model's validity check accepts the configuration the demanded shape is Lean's "
        "reconRows/reconCols (the C09 specification) and both the extent/pixel ratio and the shape pewlib reconstructs must equal it; "
        "when the reconstruction raises nothing is compared (C09 covers success)",
        "a change of the array LAYOUT of to_array (field names, order, dtype, the SpotConfig two-element array) that keeps the values through "
        "the round trip is reported as an implementation-vs-model difference, not as a violation of the specification",
        "from_array applied to the array of ANOTHER configuration class (exception class, or Config accepting an SRR array) is outside the "
        "property: it is compared with the model (theorem config_array_cross_kind) and a difference is recorded only",
        "values outside the normal float64 range (a product that under/overflows, subnormal pixel sizes) are recorded only: the "
        "round trip of the parameters themselves is still demanded exactly",
        "float32 parameters are used only where float32 arithmetic is exact (all parameters with numerator < 128 and denominator <= 8, "
        "images up to 100 pixels per side); NumPy computes speed * scantime in float32 for float32 operands, which is no defect of pewlib",
    ]

    # ------------------------------------------------------------------ generation
    def gen_shape(self, rng, tier):
        t = rng.random()
        if t < 0.35:
            return rng.randint(1, 8), rng.randint(1, 8)
        if t < 0.7:
            return rng.randint(1, 120), rng.randint(1, 120)
        cap = 16_000_000 if (tier == "thorough" and rng.random() < 0.1) else 1_500_000
        a = rng.choice([4000, 3999, rng.randint(1000, 4000), rng.randint(121, 4000)])
        b = rng.choice([1, 2, rng.randint(1, 4000), rng.randint(1, 4000), 4000])
        b = max(1, min(b, cap // a))
        return (a, b) if rng.random() < 0.5 else (b, a)

    def gen_rect(self, rng, rows, cols):
        def pair(n):
            t = rng.random()
            if t < 0.2:
                return 0, n
            if t < 0.3:
                k = rng.randint(0, n)
                return k, k
            if t < 0.4:
                return n - 1, n
            if t < 0.5:
                return 0, 1
            a, b = rng.randint(0, n), rng.randint(0, n)
            return min(a, b), max(a, b)

        r0, r1 = pair(rows)
        c0, c1 = pair(cols)
        return [r0, r1, c0, c1]

    # histories: observe, change the configuration / shape of the SAME object, observe again
    def gen_obs(self, rng, rows, cols):
        t = rng.random()
        if t < 0.4:
            return {"o": "extent"}
        if t < 0.7:
            return {"o": "own"}
        return {"o": "rect", "rect": self.gen_rect(rng, rows, cols), "modes": [rng.choice(["mul", "mul", "exact", "up", "down"]) for _ in range(4)]}

    def gen_hist(self, rng, tier):
        cfg = gen_cfg(rng)
        t = rng.random()
        if t < 0.5:
            shape = lambda: (rng.randint(1, 8), rng.randint(1, 8))
        elif t < 0.88:
            shape = lambda: (rng.randint(1, 120), rng.randint(1, 120))
        else:
            shape = lambda: self.gen_shape(rng, "quick")
        rows, cols = rows0, cols0 = shape()
        nel = rng.choice([1, 1, 2])
        steps = []
        cur, nf = dict(cfg), nel
        for i in range(rng.choice([2, 2, 3, 3, 4, 5])):
            u = rng.random()
            if i == 0 and u < 0.8:
                ch = None
            elif u < 0.40:  # one attribute in place
                k = rng.choice(sorted(ATTRS[cur["kind"]]))
                ch = {"op": "set", "attrs": {k: pick(rng, POOLS[k])}}
            elif u < 0.58:  # several attributes in place
                keys = sorted(ATTRS[cur["kind"]])
                keys = [k for k in keys if rng.random() < 0.7] or keys
                ch = {"op": "set", "attrs": {k: pick(rng, POOLS[k]) for k in keys}}
            elif u < 0.72:
                ch = {"op": "replace", "cfg": gen_cfg(rng)}
            elif u < 0.86:
                nr, nc = shape()
                if rng.random() < 0.3:
                    nr, nc = rng.choice([(cols, rows), (rows, nc), (nr, cols), (rows + 1, cols), (rows, max(1, cols - 1))])
                ch = {"op": "data", "rows": nr, "cols": nc}
            elif u < 0.91:
                ch = {"op": "add"}
            elif u < 0.96:
                ch = {"op": "remove", "index": rng.randint(0, 2)}
            else:
                ch = None
            if ch is not None:  # follow the state, for rectangles that fit and sizes that stay small
                if ch["op"] == "set":
                    cur.update(ch["attrs"])
                elif ch["op"] == "replace":
                    cur = dict(ch["cfg"])
                elif ch["op"] == "data":
                    rows, cols = ch["rows"], ch["cols"]
                elif ch["op"] == "add":
                    if nf >= 3 or rows * cols > 400_000:
                        ch = None
                    else:
                        nf += 1
                elif ch["op"] == "remove":
                    nf = max(1, nf - 1)
            obs = [self.gen_obs(rng, rows, cols) for _ in range(rng.choice([1, 1, 2, 3]))]
            if rng.random() < 0.1:
                obs = []
            steps.append({"change": ch, "obs": obs, "element": rng.choice([None, 0, 1])})
        if not steps[-1]["obs"]:
            steps[-1]["obs"] = [{"o": "extent"}, {"o": "own"}]
        return {"kind": "hist", "cfg": cfg, "rows": rows0, "cols": cols0, "nel": nel, "steps": steps}

    def gen_heap(self, rng, tier):
        """a history on configuration objects and lasers (see `eval_heap`).  The generator follows kinds and shapes only to
        draw rectangles that fit and attributes that exist; it assumes that the constructor copies and an assignment shares."""
        steps = []
        kinds = []  # i-th configuration of the harness -> kind
        L = []  # lasers: dict(rows, cols, kind, key) with key = the configuration object held ("m<i>" | "c<j>")

        def shape(big_ok):
            t = rng.random()
            if t < 0.45:
                return rng.randint(1, 8), rng.randint(1, 8)
            if t < 0.9 or not big_ok:
                return rng.randint(1, 120), rng.randint(1, 120)
            return self.gen_shape(rng, "quick")

        def value(attr, kind):
            pool = {"spotsize": SPOTSIZES, "speed": SPEEDS, "scantime": SCANTIMES, "spotsize_y": SPOTSIZES}[attr]
            if rng.random() < 0.25:
                t = rng.choice(["int", "i64", "f64", "arr0"])
                v = float(rng.randint(1, 200)) if t in ("int", "i64") else pick(rng, pool)
                return v, t
            return pick(rng, pool), None

        def new_cfg():
            cfg = gen_cfg(rng)
            st = {"s": "cfg", "cfg": cfg}
            if rng.random() < 0.2:
                keys = [k for k in cfg if k != "kind"]
                ts = {k: rng.choice(["int", "i64", "f64", "arr0"]) for k in keys if rng.random() < 0.6}
                for k, t in ts.items():
                    if t in ("int", "i64"):
                        cfg[k] = float(rng.randint(1, 200))
                if cfg["kind"] == "spot" and rng.random() < 0.3:
                    cfg["sy"] = cfg["sx"]
                    ts["sy"] = "omitted"
                st["types"] = ts
            if rng.random() < 0.15:
                st["types"] = {**st.get("types", {}), "_positional": True}
            steps.append(st)
            kinds.append(cfg["kind"])
            return len(kinds) - 1

        def new_laser(i, big_ok):
            rows, cols = shape(big_ok)
            st = {"s": "laser", "cfg": i, "rows": rows, "cols": cols, "nel": rng.choice([1, 1, 2])}
            if rng.random() < 0.3:
                st["dtypes"] = [rng.choice(sorted(DTYPES)) for _ in range(2)]
            if rng.random() < 0.2:
                st["layout"] = rng.choice(["F", "view"])
            steps.append(st)
            L.append({"rows": rows, "cols": cols, "kind": kinds[i], "key": f"c{len(L)}"})
            return len(L) - 1

        def obs(j, kinds_of=("extent", "own", "rect", "px")):
            o = rng.choice(kinds_of)
            st = {"s": "obs", "laser": j, "o": o, "element": rng.choice([None, 0, 1])}
            if o == "rect":
                st["rect"] = self.gen_rect(rng, L[j]["rows"], L[j]["cols"])
                st["modes"] = [rng.choice(["mul", "mul", "exact", "up", "down"]) for _ in range(4)]
            steps.append(st)

        def holders(key):
            return [j for j, l in enumerate(L) if l["key"] == key]

        two = rng.random() < 0.45
        c0 = new_cfg()
        l0 = new_laser(c0, not two)
        if two:
            mode = rng.choice(["share-mine", "share-laser", "separate", "second-config", "copy", "deepcopy"])
            if mode in ("copy", "deepcopy"):  # copy.copy(laser): the same configuration object and data; deepcopy: its own
                steps.append({"s": "copy", "laser": l0, "deep": mode == "deepcopy"})
                L.append({**L[l0], "key": L[l0]["key"] if mode == "copy" else f"c{len(L)}"})
                l1 = len(L) - 1
            else:
                l1 = new_laser(c0 if mode != "second-config" else new_cfg(), False)
            if mode == "share-mine":  # both lasers hold the object the harness made
                for j in (l0, l1):
                    steps.append({"s": "assign", "laser": j, "cfg": c0})
                    L[j].update(key=f"m{c0}", kind=kinds[c0])
            elif mode == "share-laser":  # the second laser is given the object the first one holds
                steps.append({"s": "assignl", "laser": l1, "from": l0})
                L[l1].update(key=L[l0]["key"], kind=L[l0]["kind"])
        if rng.random() < 0.8:
            for j in range(len(L)):
                obs(j)
        for _ in range(rng.choice([2, 3, 3, 4, 5, 6])):
            j = rng.randrange(len(L))
            u = rng.random()
            touched = [j]
            if u < 0.30:  # one attribute, through the laser or through the harness's own reference
                key = L[j]["key"]
                attr = rng.choice(self.HEAP_ATTRS[L[j]["kind"]])
                v, t = value(attr, L[j]["kind"])
                if key.startswith("m") and rng.random() < 0.5:
                    steps.append({"s": "set", "cfg": int(key[1:]), "attr": attr, "value": v, "type": t})
                else:
                    steps.append({"s": "setl", "laser": j, "attr": attr, "value": v, "type": t})
                touched = holders(key)
            elif u < 0.48:  # every attribute of the class, in a random order, sometimes with a look in between
                key = L[j]["key"]
                attrs = list(self.HEAP_ATTRS[L[j]["kind"]])
                rng.shuffle(attrs)
                for attr in attrs:
                    v, t = value(attr, L[j]["kind"])
                    steps.append({"s": "setl", "laser": j, "attr": attr, "value": v, "type": t})
                    if rng.random() < 0.3:
                        obs(rng.choice(holders(key)))
                touched = holders(key)
            elif u < 0.66:  # whole configuration replaced; the old object is forgotten, so that its id can come back
                old = L[j]["key"]
                i = new_cfg()
                steps.append({"s": "assign", "laser": j, "cfg": i})
                L[j].update(key=f"m{i}", kind=kinds[i])
                if old.startswith("m") and not holders(old) and rng.random() < 0.8:
                    steps.append({"s": "drop", "cfg": int(old[1:])})
                if rng.random() < 0.6:
                    steps.append({"s": "drop", "cfg": i})  # only the laser holds it now
                    L[j]["key"] = f"x{len(steps)}"
            elif u < 0.84:
                rows, cols = L[j]["rows"], L[j]["cols"]
                t = rng.random()
                if t < 0.35:
                    nr, nc = rows, cols
                elif t < 0.6:
                    nr, nc = rng.choice([(cols, rows), (rows, max(1, cols - 1)), (rows + 1, cols), (rows, cols + 1)])
                else:
                    nr, nc = shape(not two)
                st = {"s": "data", "laser": j, "rows": nr, "cols": nc}
                if rng.random() < 0.3:
                    st["dtypes"] = [rng.choice(sorted(DTYPES)) for _ in range(2)]
                steps.append(st)
                L[j].update(rows=nr, cols=nc)
            elif u < 0.92:
                if L[j]["rows"] * L[j]["cols"] <= 400_000:
                    steps.append({"s": "add", "laser": j})
            else:
                steps.append({"s": "remove", "laser": j, "index": rng.randint(0, 2)})
            if rng.random() < 0.85:
                for k in touched:
                    for _ in range(rng.choice([1, 1, 2])):
                        obs(k)
        for j in range(len(L)):
            obs(j, ("extent", "own"))
        return {"kind": "heap", "steps": steps}

    def gen_srr_cfg(self, rng):
        """offset denominators with a large least common multiple (pairs of coprime denominators around 2^15.5, 2^16, 2^20,
        2^31 - the lcm then approaches what int64 holds -, a single denominator >= 2^31), small layer counts"""
        M = rng.choice([1, 1, 2, 3, 4])
        spotsize, speed, scantime = int_mag_triple(rng, M)

        def near(b):  # an odd number near 2^b and its odd neighbour: coprime
            n = (int(2 ** b) + rng.randint(-40000, 40000)) | 1
            return max(3, n), max(3, n) + 2

        t = rng.random()
        if t < 0.2:
            dens = list(near(15.5))
        elif t < 0.45:
            dens = list(near(16))
        elif t < 0.6:
            dens = list(near(20))
        elif t < 0.7:
            dens = list(near(rng.choice([25, 28, 30])))
        elif t < 0.8:
            dens = list(near(31))  # the lcm is about 2^62
        elif t < 0.9:
            dens = [rng.choice([2 ** 31, 2 ** 31 + 11, 2 ** 32 + 15, 2 ** 40 + 1, 2 ** 52 + 3, 2 ** 62 + 1, rng.randint(2 ** 31, 2 ** 62)])]
        else:
            dens = list(near(rng.choice([15.5, 16]))) + [rng.choice([3, 5, 7, 2 ** 10 + 1])]
        if len(dens) > 1 and rng.random() < 0.3:
            dens.append(rng.choice([3, 5, dens[0]]))
        size = math.lcm(*dens)
        pairs = []
        for d in dens:
            u = rng.random()
            if u < 0.35:
                o = 0
            elif u < 0.7:
                o = rng.randint(1, 9)
            elif u < 0.9:  # the largest offset the setter of the restored table still multiplies inside int64
                o = max(0, min(d - 1, (2 ** 63 - 1) // size * d // size))
            else:
                o = rng.randint(0, 2 * d)
            pairs.append([o, d])
        w = rng.choice([0, 0, 1, 3])
        l0, l1 = rng.randint(1, 3), rng.randint(1, 3)
        return {"kind": "srr_cfg", "spotsize": spotsize, "speed": speed, "scantime": scantime, "warmup": w * scantime, "pairs": pairs,
                "mag": M, "n": rng.choice([2, 2, 3]), "shapes": [[l0, w + l1 * M + rng.choice([0, 1])], [l1, w + l0 * M + rng.choice([0, 2])]]}

    def gen_srr_hist(self, rng):
        base = gen_srr(rng, max_vox=6000)
        M, n = base["mag"], base["n"]
        (l0, s0), (l1, s1) = base["shapes"]
        wmax = max(0, min(s0 - l1 * M, s1 - l0 * M))  # warm-up samples the layers can afford
        cur = {k: base[k] for k in ("spotsize", "speed", "scantime", "warmup", "pairs", "mag")}
        dims = [[l0, l1, n]]  # lines of the two layer kinds and number of layers, per laser
        second = None
        if rng.random() < 0.3:  # a second SRRLaser that is given the SAME configuration object
            k0, k1, n2 = rng.randint(1, 4), rng.randint(1, 4), rng.choice([2, 2, 3, 4])
            second = {"shapes": [[k0, wmax + k1 * M + rng.choice([0, 1, 3])], [k1, wmax + k0 * M + rng.choice([0, 2])]], "n": n2}
            dims.append([k0, k1, n2])

        def fits(pairs, mag):
            return all(srr_vox(pairs, mag, a, b_, k) <= 6000 for a, b_, k in dims)

        def new_pairs(equal):
            for _ in range(50):
                if equal:
                    w = rng.choice([1, 2, 3, 3, 4, 4, 5])
                    pairs = [[i, w] for i in range(w)]
                else:
                    pairs = gen_pairs(rng)
                if fits(pairs, cur["mag"]):
                    return pairs
            return [[0, 1]]

        def new_warmup(scantime):
            w = rng.randint(0, wmax)
            seconds = w * scantime
            return seconds if warmup_samples(seconds, scantime) <= wmax else 0.0

        def look():
            return {"order": rng.choice(["extent-first", "get-first"]), "how": rng.choice(["get", "get", "element", "flat"]),
                    "on": rng.randrange(len(dims))}

        steps = [{"change": None, **look()}] if rng.random() < 0.85 else []
        for _ in range(rng.choice([1, 2, 2, 3, 4])):
            op = rng.choice(["pairs", "pairs", "equal", "equal", "warmup", "pairs+warmup", "triple", "replace", "attrs", "attrs", "layers"])
            if op == "pairs":
                ch = {"op": "set", "pairs": new_pairs(False)}
            elif op == "equal":
                ch = {"op": "equal", "pairs": new_pairs(True)}
            elif op == "warmup":
                ch = {"op": "set", "warmup": new_warmup(cur["scantime"])}
            elif op == "pairs+warmup":
                ch = {"op": "set", "pairs": new_pairs(False), "warmup": new_warmup(cur["scantime"])}
            elif op == "replace":
                ch = {"op": "replace", "pairs": new_pairs(rng.random() < 0.3), "warmup": new_warmup(cur["scantime"])}
            elif op == "layers":  # the data replaced: the same or other numbers of lines, the list assigned or its entries
                j = rng.randrange(len(dims))
                a_, b_, k = dims[j]
                if rng.random() < 0.6:
                    a_, b_ = rng.randint(1, 6), rng.randint(1, 6)
                if rng.random() < 0.4:
                    k = rng.choice([2, 3, 4])
                if srr_vox(cur["pairs"], cur["mag"], a_, b_, k) > 6000:
                    a_, b_, k = dims[j]
                dims[j] = [a_, b_, k]
                ch = {"op": "layers", "on": j, "n": k, "how": rng.choice(["assign", "in-place"]),
                      "shapes": [[a_, wmax + b_ * M + rng.choice([0, 1, 4])], [b_, wmax + a_ * M + rng.choice([0, 2])]]}
            else:  # spot size, speed, scan time (another float-integer magnification <= the old one): all at once ("triple"), or one
                # attribute after the other in a random order, possibly with warm-up and offsets in between ("attrs")
                M2 = rng.randint(1, M)
                spotsize, speed, scantime = int_mag_triple(rng, M2)
                if not fits(cur["pairs"], M2):
                    ch = {"op": "set", "warmup": new_warmup(cur["scantime"])}
                elif op == "triple":
                    ch = {"op": "triple", "spotsize": spotsize, "speed": speed, "scantime": scantime, "mag": M2, "warmup": new_warmup(scantime)}
                else:
                    seq = [["spotsize", spotsize], ["speed", speed], ["scantime", scantime]]
                    if rng.random() < 0.4:  # only some of them change
                        keep = rng.choice(["spotsize", "speed", "scantime"])
                        # a single attribute can only change when the magnification stays a float integer: recompute it
                        seq = [[k_, v] for k_, v in seq if k_ != keep] if rng.random() < 0.5 else seq
                    rng.shuffle(seq)
                    full = {k_: v for k_, v in seq}
                    new = {**{k_: cur[k_] for k_ in ("spotsize", "speed", "scantime")}, **full}
                    fm = new["spotsize"] / (new["speed"] * new["scantime"])
                    if not (fm == int(fm) and 1 <= fm <= M and fits(cur["pairs"], int(fm))):
                        seq = [["spotsize", spotsize], ["speed", speed], ["scantime", scantime]]
                        rng.shuffle(seq)
                        new, fm = {"spotsize": spotsize, "speed": speed, "scantime": scantime}, M2
                    extra = []
                    if rng.random() < 0.5:
                        extra.append(["warmup", new_warmup(new["scantime"])])
                    if rng.random() < 0.3:
                        extra.append(["pairs", new_pairs(False)])
                    for e in extra:
                        seq.insert(rng.randint(0, len(seq)), e)
                    ch = {"op": "attrs", "seq": seq, "mag": int(fm)}
                    if not any(k_ == "warmup" for k_, _ in seq):  # the warm-up stays what it was IN SAMPLES
                        pass
            upd = {k: v for k, v in ch.items() if k in ("spotsize", "speed", "scantime", "warmup", "pairs", "mag")}
            if ch["op"] == "attrs":
                upd.update({k_: v for k_, v in ch["seq"]})
            cur.update(upd)
            steps.append({"change": ch, **look()})
        out = {"kind": "srr_hist", **base, "steps": steps}
        if second:
            out["second"] = second
        return out

    EXTREMES = [1e-300, 1e300, 5e-324, 2.2250738585072014e-308, 1e-310, 1.7976931348623157e308, 1e-160, 1e160, 2.0 ** -1000, 2.0 ** 1000]
    F32_POOL = {"spotsize": [0.5, 1.0, 2.5, 4.0, 10.0, 12.5, 35.0], "speed": [1.0, 2.0, 4.0, 10.0, 20.0], "scantime": [0.125, 0.25, 0.5, 1.0],
                "sx": [0.5, 1.0, 2.5, 4.0, 10.0, 12.5, 35.0], "sy": [0.25, 1.0, 2.5, 5.0, 20.0, 35.0]}

    def gen_typed_cfg(self, rng):
        """a configuration whose parameters are given as ints, NumPy scalars, 0-d arrays or float32 (same values)"""
        cfg = gen_cfg(rng)
        keys = [k for k in cfg if k != "kind"]
        if rng.random() < 0.3:  # float32 throughout, on values float32 keeps exactly
            for k in keys:
                cfg[k] = rng.choice(self.F32_POOL[k])
            return cfg, {k: "f32" for k in keys if rng.random() < 0.8}
        if rng.random() < 0.35:  # every parameter of one type (integers: the pixel sizes are integers too)
            t_ = rng.choice(["int", "int", "i64", "f64", "arr0"])
            types = {k: t_ for k in keys}
        else:
            types = {k: rng.choice(["int", "i64", "f64", "arr0", "float"]) for k in keys}
        for k, t in types.items():
            if t in ("int", "i64"):
                cfg[k] = float(rng.randint(1, 300))
        if cfg["kind"] == "spot" and rng.random() < 0.25:
            cfg["sy"], types["sy"] = cfg["sx"], "omitted"
        return cfg, types

    def gen_extreme_cfg(self, rng):
        cfg = gen_cfg(rng)
        keys = [k for k in cfg if k != "kind"]
        for k in rng.sample(keys, rng.randint(1, len(keys))):
            cfg[k] = rng.choice(self.EXTREMES)
        return cfg

    def gen_big_shape(self, rng, memory):
        """one side of at least 4096 (a third of them at least 2^16); `memory`: the image is really allocated"""
        if memory:
            if rng.random() < 0.35:
                a, b = rng.choice([2 ** 16, 2 ** 16 + 1, rng.randint(2 ** 16, 90_000)]), rng.randint(1, 5)
            else:
                a, b = rng.choice([4096, 4097, rng.randint(4096, 9000), rng.randint(4096, 20_000)]), rng.randint(1, 40)
        else:
            a = rng.choice([4096, rng.randint(4096, 2 ** 16), 2 ** 16, rng.randint(2 ** 16, 2 ** 20), 2 ** 24 + 1, 2 ** 28, rng.randint(2 ** 20, 2 ** 28)])
            b = rng.choice([1, rng.randint(1, 4000), rng.randint(1, 2 ** 20), a])
        return (a, b) if rng.random() < 0.5 else (b, a)

    def gen_big_rect(self, rng, rows, cols):
        """rectangles whose bounds lie in the upper part of the long side"""
        def pair(n):
            if n < 4096:
                a, b = rng.randint(0, n), rng.randint(0, n)
                return min(a, b), max(a, b)
            t = rng.random()
            if t < 0.35:
                return rng.choice([0, rng.randint(0, n)]), n
            if t < 0.5:
                return n - 1, n
            a, b = rng.randint(4096, n), rng.randint(4096, n)
            return min(a, b), max(a, b)

        r0, r1 = pair(rows)
        c0, c1 = pair(cols)
        return [r0, r1, c0, c1]

    def generate(self, rng, tier):
        t = rng.random()
        if t < 0.10:
            return self.gen_hist(rng, tier)
        if t < 0.26:
            return self.gen_heap(rng, tier)
        if t < 0.31:
            return self.gen_srr_hist(rng)
        if t < 0.34:
            return self.gen_srr_cfg(rng)
        if t < 0.49:
            return {"kind": "srr", **gen_srr(rng, max_vox=6000), "roundtrip": rng.random() < 0.3,
                    "order": rng.choice(["extent-first", "get-first"]), "how": rng.choice(["get", "get", "element", "flat"])}
        cfg = gen_cfg(rng)
        rows, cols = self.gen_shape(rng, tier)
        if t < 0.61:
            u = rng.random()
            if u < 0.25:
                rows, cols = self.gen_big_shape(rng, False)
            elif u < 0.45:
                cfg, types = self.gen_typed_cfg(rng)
                if "f32" in types.values():
                    rows, cols = rng.randint(1, 100), rng.randint(1, 100)
                return {"kind": "extent", "cfg": cfg, "rows": rows, "cols": cols, "types": types}
            elif u < 0.6:
                return {"kind": "extent", "cfg": self.gen_extreme_cfg(rng), "rows": rng.randint(1, 50), "cols": rng.randint(1, 50)}
            return {"kind": "extent", "cfg": cfg, "rows": rows, "cols": cols}
        nel = rng.choice([1, 1, 2])
        if rows * cols > 400_000:
            nel = 1
        element = rng.choice([None, 0, nel - 1])
        if rows <= 4 and cols <= 4 and rng.random() < 0.7:
            return {"kind": "get_all", "cfg": cfg, "rows": rows, "cols": cols, "nel": nel, "element": element,
                    "mode": rng.choice(["mul", "exact", "up", "down"])}
        u = rng.random()
        extra = {}
        if u < 0.16:  # long images: boundary indices above 4096 and above 2^16
            rows, cols = self.gen_big_shape(rng, True)
            nel, element = 1, rng.choice([None, 0])
            rect = self.gen_big_rect(rng, rows, cols)
        elif u < 0.36:  # parameters, bounds and data of other numeric types, other memory layouts, the extent as a list / array
            cfg, types = self.gen_typed_cfg(rng)
            if "f32" in types.values():
                rows, cols = rng.randint(1, 100), rng.randint(1, 100)
            else:
                rows, cols = rng.randint(1, 120), rng.randint(1, 120)
            rect = self.gen_rect(rng, rows, cols)
            extra = {"types": types, "dtypes": [rng.choice(sorted(DTYPES)) for _ in range(2)], "layout": rng.choice(["C", "C", "F", "view"]),
                     "opts": {"btypes": ([rng.choice(["f64", "int", "int", "i64", "f32", "arr0"])] * 4 if rng.random() < 0.5
                                         else [rng.choice(["float", "f64", "int", "i64", "f32", "arr0"]) for _ in range(4)]),
                              "container": rng.choice(["tuple", "tuple", "list", "array"]),
                              "calibrate": rng.choice(["omit", "omit", "False", "None"])}}
        elif u < 0.42:
            cfg = self.gen_extreme_cfg(rng)
            rows, cols = rng.randint(1, 30), rng.randint(1, 30)
            rect = self.gen_rect(rng, rows, cols)
        else:
            rect = self.gen_rect(rng, rows, cols)
            if rng.random() < 0.25:
                extra = {"dtypes": [rng.choice(sorted(DTYPES)) for _ in range(2)], "layout": rng.choice(["C", "F", "view"])}
        own = rect == [0, rows, 0, cols] and rng.random() < 0.7
        modes = ["own"] * 4 if own else [rng.choice(["mul", "mul", "exact", "up", "down"]) for _ in range(4)]
        if rng.random() < 0.15:
            extra = {**extra, "ctor": "from_list"}
        if rng.random() < 0.2:
            extra = {**extra, "types": {**extra.get("types", {}), "_positional": True}}
        return {"kind": "get", "cfg": cfg, "rows": rows, "cols": cols, "nel": nel, "element": element, "rect": rect, "modes": modes, **extra}

    def targeted(self, tier):
        cfgs = [{"kind": "raster", "spotsize": 35.0, "speed": 1.7, "scantime": 0.1},
                {"kind": "raster", "spotsize": 0.1 * 3, "speed": 33.3 * 1.3, "scantime": 0.007},
                {"kind": "spot", "sx": 0.1 * 3, "sy": 0.007}]
        # the witness of the repaired defect: own extent of a 59 x 53 image
        yield {"kind": "get", "cfg": cfgs[0], "rows": 59, "cols": 53, "nel": 1, "element": 0, "rect": [0, 59, 0, 53], "modes": ["own"] * 4}
        yield {"kind": "extent", "cfg": cfgs[0], "rows": 59, "cols": 53}
        for cfg in cfgs:
            for rows, cols in ((1, 1), (2, 3), (3, 2), (4, 4), (1, 5)):
                yield {"kind": "get_all", "cfg": cfg, "rows": rows, "cols": cols, "nel": 1, "element": 0, "mode": "mul"}
            yield {"kind": "extent", "cfg": cfg, "rows": 4000, "cols": 4000}
            yield {"kind": "extent", "cfg": cfg, "rows": 1, "cols": 1}
            yield {"kind": "get", "cfg": cfg, "rows": 4000, "cols": 3, "nel": 1, "element": None, "rect": [0, 4000, 0, 3], "modes": ["own"] * 4}
            yield {"kind": "get", "cfg": cfg, "rows": 2, "cols": 4000, "nel": 2, "element": 1, "rect": [1, 2, 3999, 4000], "modes": ["mul"] * 4}
        if tier == "thorough":  # every aligned rectangle of every image up to 6 x 6, four ways of computing the bounds
            for cfg in cfgs + [{"kind": "raster", "spotsize": 33.3 * 1.3, "speed": 0.007, "scantime": 1 / 3}]:
                for rows in range(1, 7):
                    for cols in range(1, 7):
                        for mode in ("mul", "exact", "up", "down"):
                            yield {"kind": "get_all", "cfg": cfg, "rows": rows, "cols": cols, "nel": 1, "element": 0, "mode": mode}
        # histories on one object: observe, change configuration or shape, observe again
        E, O = {"o": "extent"}, {"o": "own"}

        def R(r0, r1, c0, c1):
            return {"o": "rect", "rect": [r0, r1, c0, c1], "modes": ["mul"] * 4}

        def hist(cfg, rows, cols, *steps, nel=1):
            return {"kind": "hist", "cfg": cfg, "rows": rows, "cols": cols, "nel": nel,
                    "steps": [{"change": ch, "obs": list(obs), "element": 0} for ch, obs in steps]}

        def setc(**attrs):
            return {"op": "set", "attrs": attrs}

        ras = {"kind": "raster", "spotsize": 0.5, "speed": 0.1, "scantime": 3.0}
        spt = {"kind": "spot", "sx": 10.0, "sy": 25.0}
        yield hist(ras, 7, 11, (None, [E, O, R(1, 5, 2, 9)]), (setc(scantime=6.0), [E, O, R(1, 5, 2, 9)]),
                   (setc(spotsize=20.0, speed=35.0), [E, O, R(1, 5, 2, 9)]))
        yield hist(spt, 7, 11, (None, [E, O, R(1, 5, 2, 9)]), (setc(sy=40.0), [E, O, R(1, 5, 2, 9)]), (setc(sx=0.1 * 3), [E, O]))
        for first in ([E], [O]):  # the first read of the extent is direct, or inside get(extent=own extent)
            for second in ([E], [O]):
                for k, v in (("spotsize", 0.1 * 3), ("speed", 33.3), ("scantime", 0.007)):
                    yield hist(cfgs[0], 5, 3, (None, first), (setc(**{k: v}), second))
                for k, v in (("sx", 33.3 * 1.3), ("sy", 1 / 3)):
                    yield hist(cfgs[2], 3, 5, (None, first), (setc(**{k: v}), second))
        for cfg in (ras, spt):
            other = cfgs[2] if cfg["kind"] == "raster" else cfgs[1]
            same = {**cfg, "spotsize": 2.2} if cfg["kind"] == "raster" else {**cfg, "sx": 2.2}
            yield hist(cfg, 4, 6, (None, [E, O]), ({"op": "replace", "cfg": same}, [E, O, R(1, 3, 2, 6)]),
                       ({"op": "replace", "cfg": other}, [E, O, R(0, 4, 5, 6)]), ({"op": "replace", "cfg": cfg}, [E, O]))
            yield hist(cfg, 4, 6, (None, [E, O]), ({"op": "data", "rows": 6, "cols": 4}, [E, O, R(4, 6, 0, 4)]),
                       ({"op": "data", "rows": 1, "cols": 9}, [O, E]), ({"op": "data", "rows": 4000, "cols": 2}, [O, E]), nel=2)
            yield hist(cfg, 3, 3, (None, [E]), ({"op": "add"}, [E, O]), ({"op": "remove", "index": 0}, [O, E]), nel=2)
            # edited and edited back; edited without a read in between; edited after the object was replaced
            k = "scantime" if cfg["kind"] == "raster" else "sy"
            yield hist(cfg, 2, 9, (None, [E]), (setc(**{k: 0.7}), [E, O]), (setc(**{k: cfg[k]}), [E, O]))
            yield hist(cfg, 2, 9, (None, [O]), (setc(**{k: 0.7}), []), (setc(**{k: 1.3}), [O, E]))
            yield hist(cfg, 2, 9, (None, [E]), ({"op": "replace", "cfg": same}, [E]), (setc(**{k: 0.7}), [E, O]))
            yield hist(cfg, 2, 9, (None, [E]), ({"op": "data", "rows": 9, "cols": 2}, [E]), (setc(**{k: 0.7}), [E, O]))
        # ---- histories on configuration objects and lasers that may share one (kind "heap")
        import itertools

        def ob(j, o="extent", **kw):
            return {"s": "obs", "laser": j, "o": o, "element": 0, **kw}

        def both(j):
            return [ob(j), ob(j, "own"), ob(j, "px"), ob(j, "rect", rect=[0, 2, 1, 3], modes=["mul"] * 4)]

        r35 = {"kind": "raster", "spotsize": 35.0, "speed": 140.0, "scantime": 0.25}
        # one object held by two lasers, edited through the harness's reference, through one laser, through the other
        yield {"kind": "heap", "steps": [{"s": "cfg", "cfg": ras}, {"s": "laser", "cfg": 0, "rows": 3, "cols": 4}, {"s": "laser", "cfg": 0, "rows": 5, "cols": 3},
                                         {"s": "assign", "laser": 0, "cfg": 0}, {"s": "assign", "laser": 1, "cfg": 0}, *both(0), *both(1),
                                         {"s": "set", "cfg": 0, "attr": "scantime", "value": 6.0}, *both(1), *both(0),
                                         {"s": "setl", "laser": 0, "attr": "spotsize", "value": 0.1 * 3}, *both(1), *both(0),
                                         {"s": "setl", "laser": 1, "attr": "speed", "value": 33.3}, *both(0), *both(1)]}
        yield {"kind": "heap", "steps": [{"s": "cfg", "cfg": spt}, {"s": "laser", "cfg": 0, "rows": 3, "cols": 4}, {"s": "laser", "cfg": 0, "rows": 2, "cols": 6},
                                         {"s": "assignl", "laser": 1, "from": 0}, *both(0), *both(1),
                                         {"s": "setl", "laser": 0, "attr": "spotsize_y", "value": 0.007}, *both(1),
                                         {"s": "setl", "laser": 1, "attr": "spotsize", "value": 1 / 3}, *both(0),
                                         {"s": "setl", "laser": 1, "attr": "speed", "value": 7.0}, {"s": "setl", "laser": 1, "attr": "scantime", "value": 0.3}, *both(0), *both(1)]}
        # the constructor's copy: editing the object handed to the constructor, then the laser's own
        yield {"kind": "heap", "steps": [{"s": "cfg", "cfg": r35}, {"s": "laser", "cfg": 0, "rows": 4, "cols": 4}, ob(0), {"s": "set", "cfg": 0, "attr": "speed", "value": 1.7}, *both(0),
                                         {"s": "setl", "laser": 0, "attr": "speed", "value": 2.9}, *both(0)]}
        # every order of the attributes, a look after each assignment; first look direct or through get(extent=own)
        for kind_cfg, attrs, vals in ((cfgs[0], ("spotsize", "speed", "scantime"), {"spotsize": 0.1 * 3, "speed": 33.3, "scantime": 0.007}),
                                      (cfgs[2], ("spotsize", "spotsize_y", "speed", "scantime"), {"spotsize": 33.3 * 1.3, "spotsize_y": 1 / 3, "speed": 5.0, "scantime": 0.5})):
            for n_, perm in enumerate(itertools.permutations(attrs)):
                if len(attrs) == 4 and n_ % 3:
                    continue
                first = "extent" if n_ % 2 else "own"
                steps = [{"s": "cfg", "cfg": kind_cfg}, {"s": "laser", "cfg": 0, "rows": 5, "cols": 3}, ob(0, first)]
                for a_ in perm:
                    steps += [{"s": "setl", "laser": 0, "attr": a_, "value": vals[a_]}, ob(0, "own" if first == "extent" else "extent"), ob(0, "px")]
                yield {"kind": "heap", "steps": steps}
        # configuration replaced again and again, the old objects forgotten (a freed object's id comes back), data re-assigned
        for base_cfg in (ras, spt):
            steps = [{"s": "cfg", "cfg": base_cfg}, {"s": "laser", "cfg": 0, "rows": 4, "cols": 6}, {"s": "drop", "cfg": 0}, ob(0), ob(0, "own")]
            for n_ in range(1, 9):
                c_ = ({"kind": "raster", "spotsize": 10.0 + n_, "speed": 1.7 * n_, "scantime": 0.1 * n_} if (n_ + (base_cfg is spt)) % 2
                      else {"kind": "spot", "sx": 0.3 * n_, "sy": 7.0 / n_})
                steps += [{"s": "cfg", "cfg": c_}, {"s": "assign", "laser": 0, "cfg": n_}, {"s": "drop", "cfg": n_}, ob(0, "own" if n_ % 2 else "extent"), ob(0, "px")]
                if n_ % 3 == 0:
                    steps += [{"s": "data", "laser": 0, "rows": 4, "cols": 6}, ob(0), {"s": "data", "laser": 0, "rows": 6, "cols": 4}, ob(0, "own")]
            yield {"kind": "heap", "steps": steps}
        # two lasers built one after the other from separately made configurations (the first is forgotten first)
        yield {"kind": "heap", "steps": [{"s": "cfg", "cfg": ras}, {"s": "laser", "cfg": 0, "rows": 3, "cols": 3}, ob(0), {"s": "drop", "cfg": 0},
                                         {"s": "cfg", "cfg": cfgs[1]}, {"s": "laser", "cfg": 1, "rows": 3, "cols": 3}, ob(1), ob(0), {"s": "drop", "cfg": 1},
                                         {"s": "cfg", "cfg": cfgs[2]}, {"s": "assign", "laser": 0, "cfg": 2}, ob(0), ob(1), ob(0, "own"), ob(1, "own")]}
        # ---- long images: the boundary indices at which a 12-decimal snap (seeded C10-c1) loses a pixel, and beyond 2^16
        for cfg_, rows_, cols_ in (({"kind": "raster", "spotsize": 35.0, "speed": 0.1, "scantime": 3.0}, 2, 6848),
                                   ({"kind": "spot", "sx": 35.0, "sy": 140 * 0.07}, 6700, 3), (cfgs[1], 3, 2 ** 16 + 5), (cfgs[2], 70_001, 2)):
            yield {"kind": "get", "cfg": cfg_, "rows": rows_, "cols": cols_, "nel": 1, "element": 0, "rect": [0, rows_, 0, cols_], "modes": ["own"] * 4}
            for mode_ in ("mul", "down", "up", "exact"):
                yield {"kind": "get", "cfg": cfg_, "rows": rows_, "cols": cols_, "nel": 1, "element": None,
                       "rect": [rows_ - 1 if rows_ > 4096 else 0, rows_, cols_ - 1 if cols_ > 4096 else 0, cols_], "modes": [mode_] * 4}
            yield {"kind": "extent", "cfg": cfg_, "rows": rows_ * 1000, "cols": cols_ * 1000}
        yield {"kind": "extent", "cfg": cfgs[1], "rows": 2 ** 28, "cols": 2 ** 28}
        # ---- parameters / bounds / data of other numeric types
        for types_ in ({"spotsize": "int", "speed": "int", "scantime": "int"}, {"spotsize": "f32", "speed": "f32", "scantime": "f32"},
                       {"spotsize": "arr0", "speed": "i64", "scantime": "f64"}):
            c_ = {"kind": "raster", "spotsize": 35.0, "speed": 10.0, "scantime": 2.0 if "int" in types_.values() else 0.25}
            yield {"kind": "extent", "cfg": c_, "rows": 7, "cols": 9, "types": types_}
            for cont in ("tuple", "list", "array"):
                yield {"kind": "get", "cfg": c_, "rows": 7, "cols": 9, "nel": 2, "element": None, "rect": [1, 7, 2, 9], "modes": ["mul"] * 4, "types": types_,
                       "dtypes": ["f4", "u2"], "layout": "view", "opts": {"btypes": ["f32", "int", "i64", "arr0"], "container": cont, "calibrate": "None"}}
            for bt in ("int", "i64", "f64", "f32", "arr0"):
                yield {"kind": "get", "cfg": c_, "rows": 7, "cols": 9, "nel": 1, "element": 0, "rect": [2, 7, 1, 9], "modes": ["mul"] * 4, "types": types_,
                       "dtypes": ["i4"], "layout": "F", "opts": {"btypes": [bt] * 4, "container": "tuple", "calibrate": "False"}}
        yield {"kind": "extent", "cfg": {"kind": "spot", "sx": 12.5, "sy": 12.5}, "rows": 3, "cols": 5, "types": {"sx": "f32", "sy": "omitted"}}
        # ---- extreme magnitudes: the values must come back from the array form exactly
        for c_ in ({"kind": "raster", "spotsize": 1e-300, "speed": 1e300, "scantime": 1e-300}, {"kind": "raster", "spotsize": 5e-324, "speed": 1e160, "scantime": 1e-160},
                   {"kind": "spot", "sx": 1.7976931348623157e308, "sy": 2.2250738585072014e-308}, {"kind": "spot", "sx": 1e-310, "sy": 1e300}):
            yield {"kind": "extent", "cfg": c_, "rows": 3, "cols": 2}
            yield {"kind": "get", "cfg": c_, "rows": 3, "cols": 2, "nel": 1, "element": 0, "rect": [0, 3, 0, 2], "modes": ["mul"] * 4}
        base = {"spotsize": 70.0, "speed": 140.0, "scantime": 0.25, "warmup": 0.5, "pairs": [[0, 2], [1, 2]],
                "mag": 2, "n": 2, "shapes": [[2, 12], [3, 10]], "short": None, "wmode": "exact"}
        # nearly equal parameters: each is used as given (seeded C10-e2)
        for a_, b_ in ((10.0, 10.0009), (10.0009, 10.0), (0.1 * 3, 0.3), (35.0, float(np.nextafter(35.0, 36.0))), (100.0, 100.0 * (1 - 9.9e-5))):
            yield {"kind": "extent", "cfg": {"kind": "spot", "sx": a_, "sy": b_}, "rows": 7, "cols": 5}
            yield {"kind": "get", "cfg": {"kind": "spot", "sx": a_, "sy": b_}, "rows": 4000, "cols": 3, "nel": 1, "element": 0, "rect": [0, 4000, 0, 3], "modes": ["mul"] * 4}
        yield {"kind": "extent", "cfg": {"kind": "raster", "spotsize": float(np.nextafter(35.0, 0.0)), "speed": 140.0, "scantime": 0.25}, "rows": 7, "cols": 5}
        # SRR configuration only: offset denominators whose least common multiple does not fit 31 / 32 bits (seeded C10-d2)
        for pairs_ in ([[0, 65537], [1, 65539]], [[0, 46349], [5, 46351], [2, 3]], [[0, 1009], [1, 1013]], [[3, 2 ** 31 + 11]],
                       [[0, 2 ** 31 - 1], [0, 2 ** 31 + 11]], [[7, 2 ** 40 + 1]], [[0, 46349], [5, 46351], [7, 3]], [[0, 2147483647], [1, 2147483659]]):
            for m_, sp_ in ((1, 35.0), (2, 70.0)):
                yield {"kind": "srr_cfg", "spotsize": sp_, "speed": 140.0, "scantime": 0.25, "warmup": 0.25, "pairs": pairs_, "mag": m_, "n": 2,
                       "shapes": [[2, 1 + 3 * m_], [3, 1 + 2 * m_ + 1]]}
        # SRR: two lasers sharing the configuration; attributes one by one; layers replaced; reconstruction read first
        yield {"kind": "srr_hist", **base, "second": {"shapes": [[1, 12], [4, 8]], "n": 3}, "steps": [
            {"change": None, "order": "get-first", "on": 0}, {"change": None, "order": "get-first", "on": 1},
            {"change": {"op": "set", "pairs": [[0, 2], [0, 2]]}, "order": "get-first", "on": 1}, {"change": None, "order": "extent-first", "on": 0},
            {"change": {"op": "equal", "pairs": [[0, 4], [1, 4], [2, 4], [3, 4]]}, "order": "get-first", "how": "flat", "on": 0},
            {"change": {"op": "attrs", "seq": [["scantime", 0.5], ["spotsize", 140.0], ["speed", 140.0]], "mag": 2}, "order": "get-first", "on": 1},
            {"change": {"op": "attrs", "seq": [["spotsize", 70.0]], "mag": 1}, "order": "extent-first", "on": 0},
            {"change": {"op": "layers", "on": 0, "n": 2, "how": "in-place", "shapes": [[2, 12], [3, 10]]}, "order": "get-first", "on": 0},
            {"change": {"op": "layers", "on": 0, "n": 3, "how": "assign", "shapes": [[4, 12], [1, 10]]}, "order": "get-first", "on": 0},
            {"change": {"op": "replace", "pairs": [[1, 2]], "warmup": 0.5}, "order": "get-first", "on": 0}, {"change": None, "order": "get-first", "on": 1}]}
        yield {"kind": "srr_hist", **base, "steps": [
            {"change": None}, {"change": {"op": "set", "pairs": [[0, 3], [1, 3], [2, 3]]}},
            {"change": {"op": "equal", "pairs": [[0, 4], [1, 4], [2, 4], [3, 4]]}}, {"change": {"op": "set", "warmup": 0.0}},
            {"change": {"op": "triple", "spotsize": 35.0, "speed": 140.0, "scantime": 0.25, "mag": 1, "warmup": 0.25}},
            {"change": {"op": "replace", "pairs": [[1, 2]], "warmup": 0.5}}, {"change": {"op": "set", "pairs": [[0, 1]], "warmup": 0.75}}]}
        # the witness of the repaired SRR shape defect: layers 4 x 20 and 6 x 20
        yield {"kind": "srr", "spotsize": 35.0, "speed": 140.0, "scantime": 0.25, "warmup": 0.0, "pairs": [[0, 2], [1, 2]],
               "mag": 1, "n": 2, "shapes": [[4, 20], [6, 20]], "short": None, "wmode": "exact"}
        yield {"kind": "srr", "spotsize": 70.0, "speed": 140.0, "scantime": 0.25, "warmup": 0.5, "pairs": [[1, 3], [2, 3]],
               "mag": 2, "n": 3, "shapes": [[2, 9], [3, 7]], "short": None, "wmode": "exact"}

    def search_extra(self, tier):
        rng = core.case_rng(0, self.id, "extra", 0)
        for _ in range(200):
            cfg = gen_cfg(rng)
            rows, cols = rng.randint(1, 200), rng.randint(1, 200)
            yield {"kind": "get", "cfg": cfg, "rows": rows, "cols": cols, "nel": 1, "element": 0, "rect": [0, rows, 0, cols], "modes": ["own"] * 4}

    # ------------------------------------------------------------------ evaluation
    def make_laser(self, cfg, rows, cols, nel, tokens=True, types=None, dtypes=None, layout="C", ctor=None):
        from pewlib.laser import Laser

        names = ["A", "B"][:nel]
        if not tokens:  # only the shape matters: a read-only broadcast view of one pixel, so that any shape costs no memory
            data = np.broadcast_to(np.zeros((), dtype=[(n, np.uint8) for n in names]), (rows, cols))
        else:
            data = token_data(rows, cols, list(zip(names, range(nel))), dtypes, layout)
        if tokens and ctor == "from_list":  # the other public way to make a Laser (the fields become float64)
            return Laser.from_list(names, [data[n] for n in names], config=make_cfg(cfg, types)), names
        return Laser(data, config=make_cfg(cfg, types)), names

    def observe_extent(self, laser, cfg, rows, cols, ctx, feats=None):
        """pixel sizes, Laser.extent, data_extent and their array round trip of the laser AS IT IS NOW against the
        driver's model/spec for `cfg`, `rows`, `cols` (the state the harness APPLIED, never read back from pewlib)
        -> (impl, model, spec, spec_ok, model_ok).
        The array form is compared as NumPy built it (dtype field names in order, field dtypes, shape, values), the
        configuration read back from it must hold EXACTLY the applied values, and `from_array` of Config and SpotConfig is
        run on the real arrays of all three configuration classes."""
        from pewlib.config import Config, SpotConfig
        from pewlib.srr.config import SRRConfig

        feats = set() if feats is None else feats
        conf = laser.config
        own = conf.to_array()
        rt = type(conf).from_array(own)
        if cfg["kind"] == "raster":
            applied = [cfg["spotsize"], cfg["speed"], cfg["scantime"]]
            others = [lambda: SpotConfig(spotsize=cfg["spotsize"], spotsize_y=cfg["speed"]).to_array(),
                      lambda: SRRConfig(spotsize=cfg["spotsize"], speed=cfg["speed"], scantime=cfg["scantime"]).to_array()]
        else:
            applied = [cfg["sx"], cfg["sy"]]
            others = [lambda: Config(spotsize=cfg["sx"], speed=cfg["sy"], scantime=1.0).to_array(),
                      lambda: SRRConfig(spotsize=cfg["sx"], speed=cfg["sy"], scantime=0.25).to_array()]
        if all(Fraction(1, 10 ** 9) <= Fraction(v) <= 10 ** 9 for v in applied):
            others = [f() for f in others]
        else:  # extreme magnitudes: the other classes' constructors (SRR warm-up in samples) are outside their own domain
            others = []
        encs = [enc_rec(a) for a in [own] + others]
        if any(e is None for e in encs):
            raise core.InternalError("a configuration array is not a 0-d / 1-d structured array of floats and (k, 2) integer tables")

        def values_of(c):
            if isinstance(c, SpotConfig):
                return {"kind": "spot", "values": [rat(float(c.spotsize)), rat(float(c.spotsize_y))]}
            return {"kind": "raster", "values": [rat(float(c.spotsize)), rat(float(c.speed)), rat(float(c.scantime))]}

        def from_arr(cls, a):
            try:
                c = cls.from_array(a)
            except Exception as e:
                return {"raises": type(e).__name__}
            return values_of(c)

        impl = {"pw": float(conf.get_pixel_width()), "ph": float(conf.get_pixel_height()),
                "extent": [float(v) for v in laser.extent],
                "data_extent": [float(v) for v in conf.data_extent((rows, cols))],
                "array": encs[0], "dtypes": [own.dtype[n].str for n in own.dtype.names],
                "roundtrip": {"pw": float(rt.get_pixel_width()), "ph": float(rt.get_pixel_height()),
                              "extent": [float(v) for v in rt.data_extent((rows, cols))], **values_of(rt)},
                "from_arrays": [{"raster": from_arr(Config, a), "spot": from_arr(SpotConfig, a)} for a in [own] + others]}
        rep = ctx.driver.call("c10.extent", cfg=cfg_json(cfg), rows=rows, cols=cols, arrays=encs)
        m, s = rep["model"], rep["spec"]
        if not rep["positive"]:
            raise core.InternalError("a configuration parameter is not positive")

        def agrees(pw, ph, ext):
            return (fclose(impl["pw"], unrat(pw)) and fclose(impl["ph"], unrat(ph))
                    and ext_close(impl["extent"], ext) and ext_close(impl["data_extent"], ext)
                    and fclose(impl["roundtrip"]["pw"], unrat(pw)) and fclose(impl["roundtrip"]["ph"], unrat(ph))
                    and ext_close(impl["roundtrip"]["extent"], ext))

        def same_outcome(o, j):
            if j.get("unmodelled"):
                return True
            if "raises" in o or "raises" in j:
                return o.get("raises") == j.get("raises")
            return o["kind"] == j["kind"] and o["values"] == j["values"]

        # "these values survive the configuration's array round trip": the configuration read back holds exactly what was applied
        survived = impl["roundtrip"]["kind"] == cfg["kind"] and impl["roundtrip"]["values"] == [rat(v) for v in applied]
        if not all(in_range(unrat(v)) for v in [s["pw"], s["ph"]] + list(s["extent"])):
            feats.add("extreme: an exact value outside the normal float64 range (that value recorded only)")
        else:  # recorded only: is the implementation bit-for-bit the float64 pipeline of the model (`fl`)?
            mf = rep["modelF"]
            same = ([rat(impl["pw"]), rat(impl["ph"])] == [mf["pw"], mf["ph"]] and [rat(v) for v in impl["extent"]] == mf["extent"])
            feats.add("extent bit-for-bit the float64 model" if same else "extent differs from the float64 model in the last bits (recorded only)")
        # a pixel size that IS a parameter (no arithmetic: pixel height; the x spacing of a spot configuration) must be that
        # parameter exactly - a tolerance would hide two nearly equal parameters being taken for one another
        as_given = rat(impl["ph"]) == s["ph"] and rat(impl["roundtrip"]["ph"]) == s["ph"] \
            and (cfg["kind"] != "spot" or (rat(impl["pw"]) == s["pw"] and rat(impl["roundtrip"]["pw"]) == s["pw"]))
        nr = near_rel(cfg)
        if nr is not None and 0 < nr <= Fraction(1, 1000):
            feats.add("nearly equal pixel sizes: " + ("within 1e-12" if nr <= Fraction(1, 10 ** 12) else "within 1e-6" if nr <= Fraction(1, 10 ** 6)
                                                       else "within 1e-4" if nr <= Fraction(1, 10 ** 4) else "within 1e-3"))
        spec_ok = agrees(s["pw"], s["ph"], s["extent"]) and survived and as_given
        model_ok = (agrees(m["pw"], m["ph"], m["extent"]) and "extent" in m["roundtrip"]
                    and ext_close(impl["roundtrip"]["extent"], m["roundtrip"]["extent"]) and m["data_extent"] == m["extent"]
                    and same_outcome(impl["roundtrip"], m["roundtrip"])
                    and canon_eq(impl["array"], m["array"]) and impl["dtypes"] == m["dtypes"]
                    and same_outcome(impl["from_arrays"][0][cfg["kind"]], m["from_arrays"][0][cfg["kind"]]))
        # what from_array does with the array of ANOTHER configuration class (which exception, or which values) is behaviour no
        # clause of the property speaks about: compared with the model, a difference is recorded only (DESIGN 13.2)
        cross = all(same_outcome(o[k], j[k]) for o, j in zip(impl["from_arrays"], m["from_arrays"]) for k in ("raster", "spot"))
        feats.add("from_array on other classes' arrays: as the model" if cross else "from_array on other classes' arrays differs from the model (recorded only)")
        return impl, m, s, spec_ok, model_ok

    def eval_extent(self, case, ctx):
        cfg, rows, cols = case["cfg"], case["rows"], case["cols"]
        types = safe_types(cfg, case.get("types"), rows, cols)
        laser, _ = self.make_laser(cfg, rows, cols, 1, tokens=False, types=types)
        feats = {"extent", cfg["kind"], "side>=1000" if max(rows, cols) >= 1000 else "side<1000"}
        impl, m, s, spec_ok, model_ok = self.observe_extent(laser, cfg, rows, cols, ctx, feats)
        if min(rows, cols) == 1:
            feats.add("side=1")
        for lim, name in ((4096, "side>=4096"), (2 ** 16, "side>=2^16"), (2 ** 24, "side>=2^24")):
            if max(rows, cols) >= lim:
                feats.add(name)
        for k, t in sorted((types or {}).items()):
            if k in cfg and isinstance(t, str):
                feats.add("parameter type: " + type_used(cfg[k], t))
        return outcome(impl, m, s, spec_ok=spec_ok, model_ok=model_ok, features=feats)

    def read(self, laser, fields, element, ext, cols, rows, full, kwargs=None):
        """`fields`: [(name, k)] of the token-carrying fields (pixel (r, c) of field k holds r*cols + c + 1 + k*rows*cols);
        `element`: index into `fields`, or None for the structured read"""
        el = None if element is None else fields[element][0]
        try:
            res = laser.get(el, extent=ext, **(kwargs or {}))
        except Exception as e:
            return {"raises": type(e).__name__, "msg": str(e)[:200]}
        if el is None:
            parts = [summarize(res[n], cols, k * rows * cols, full) for n, k in fields]
            return parts[0] if all(canon_eq(p, parts[0]) for p in parts) else {"fields_differ": parts}
        return summarize(res, cols, fields[element][1] * rows * cols, full)

    def float_bounds(self, laser, cfg, rect, modes):
        """the four float bounds of the pixel boundaries `rect`, computed from the APPLIED parameters `cfg` the way a caller
        would (pixel width = the float product speed * scantime), or the extent pewlib reports itself ("own")"""
        r0, r1, c0, c1 = rect
        if modes[0] == "own":
            return tuple(float(v) for v in laser.extent)
        if cfg["kind"] == "raster":
            px, py = float(cfg["speed"]) * float(cfg["scantime"]), float(cfg["spotsize"])
            pw_exact, ph_exact = Fraction(cfg["speed"]) * Fraction(cfg["scantime"]), Fraction(cfg["spotsize"])
        else:
            px, py = float(cfg["sx"]), float(cfg["sy"])
            pw_exact, ph_exact = Fraction(cfg["sx"]), Fraction(cfg["sy"])
        return (bound(modes[0], c0, px, pw_exact), bound(modes[1], c1, px, pw_exact),
                bound(modes[2], r0, py, ph_exact), bound(modes[3], r1, py, ph_exact))

    def observe_get(self, laser, fields, element, cfg, rows, cols, rect, modes, full, ctx, feats, opts=None):
        """one read of the region bounded by the pixel boundaries `rect` = [r0, r1, c0, c1] of the laser AS IT IS NOW
        (`modes`: how the four float bounds are computed from the applied parameters; "own" = the laser's own reported
        extent) against the driver's model/spec for `cfg`, `rows`, `cols` -> (impl, model, spec, undetermined, hyp, model_ok).
        `opts`: {"btypes": type of each bound, "container": tuple | list | array, "calibrate": omit | False | None}"""
        r0, r1, c0, c1 = rect
        opts = opts or {}
        ext = self.float_bounds(laser, cfg, rect, modes)
        if not all(math.isfinite(v) for v in ext):  # (extreme parameters: the product k * pixel size overflowed)
            feats.add("extreme: a bound overflowed (not read)")
            skipped = {"skipped": "a bound is not finite"}
            return skipped, skipped, skipped, True, True, True
        given = list(ext)
        pxf = float(cfg["speed"]) * float(cfg["scantime"]) if cfg["kind"] == "raster" else float(cfg["sx"])
        pyf = float(cfg["spotsize"]) if cfg["kind"] == "raster" else float(cfg["sy"])
        for i, t in enumerate(opts.get("btypes") or []):
            if t == "f32":  # only where float32 holds bound and pixel size exactly (NumPy divides in float32 then)
                p = pxf if i < 2 else pyf
                if not (f32_exact(p) and float(np.float32(ext[i])) == ext[i] and abs(ext[i]) < 2 ** 20):
                    t = "float"
            given[i] = typed(ext[i], t)
            feats.add("bound type: " + type_used(ext[i], t) if not (t == "f32" and isinstance(given[i], np.float32)) else "bound type: f32")
        cont = opts.get("container", "tuple")
        arg = tuple(given) if cont == "tuple" else (list(given) if cont == "list" else np.array([float(v) for v in given]))
        if cont != "tuple":
            feats.add("extent given as " + cont)
        kwargs = {}
        if opts.get("calibrate", "omit") != "omit":
            kwargs["calibrate"] = {"False": False, "None": None}[opts["calibrate"]]
            feats.add("calibrate=" + opts["calibrate"])
        impl = self.read(laser, fields, element, arg, cols, rows, full, kwargs)
        rep = ctx.driver.call("c10.get", cfg=cfg_json(cfg), rows=rows, cols=cols, full=full,
                              extent=[rat(v) for v in ext], rect=rect)
        # margins are in units of 1e-6 of the quotient; 1e-3 there = 1e-9 of the quotient
        undet = min(unrat(mg) for mg in rep["margins"]) < Fraction(1, 1000)
        hyp = True
        for q, k in zip(rep["quotients"], (c0, c1, r0, r1)):
            d = unrat(q) - k
            if abs(d) >= Fraction(5, 10**7):
                hyp = False
            if d < 0:
                feats.add("quotient-below-boundary")
            elif d > 0:
                feats.add("quotient-above-boundary")
            else:
                feats.add("quotient-exact")
        if rep["indices_old"] != rep["indices"]:
            feats.add("plain-truncation-would-differ")
        if rect == [0, rows, 0, cols]:
            feats.add("own-extent")
        if r0 == r1 or c0 == c1:
            feats.add("empty-rect")
        if (r1 == rows and r0 < r1) or (c1 == cols and c0 < c1):
            feats.add("touches-last")
        for lim, name in ((4096, "boundary index >= 4096"), (2 ** 16, "boundary index >= 2^16")):
            if max(rect) >= lim:
                feats.add(name)
        # the float64 pipeline of the model; when every bound is near its boundary (hypotheses of `get_float_config`) the
        # theorem says it IS the specification
        pwq, phq = unrat(rep["pwF"]), unrat(rep["phF"])
        normal = in_range(pwq) and in_range(phq) and pwq > 0 and phq > 0 \
            and in_range(Fraction(cfg["speed"]) * Fraction(cfg["scantime"]) if cfg["kind"] == "raster" else Fraction(1)) \
            and all(in_range(Fraction(v)) or abs(Fraction(v)) < p / 10 ** 9  # (a subnormal bound next to zero: the quotient is ~0 anyway)
                    for v, p in zip(ext, (pwq, pwq, phq, phq)))
        model_ok = canon_eq(impl, rep["model"])
        if all(rep["near"]) and max(rows, cols) <= 2 ** 28:
            feats.add("bounds near their boundaries: float64 theorem applies")
            if not canon_eq(rep["modelF"], rep["spec"]):
                raise core.InternalError("get_float_config contradicted by the driver")
        if normal:
            model_ok = model_ok and canon_eq(impl, rep["modelF"])
        else:  # a pixel size or bound that is subnormal, zero by underflow or infinite: outside what the model's `fl` describes
            feats.add("extreme: a value outside the normal float64 range (read not judged)")
            undet = True
        return impl, rep["model"], rep["spec"], undet, hyp, model_ok

    def eval_get(self, case, ctx, rects):
        cfg, rows, cols, nel = case["cfg"], case["rows"], case["cols"], case["nel"]
        types = safe_types(cfg, case.get("types"), rows, cols)
        laser, names = self.make_laser(cfg, rows, cols, nel, types=types, dtypes=case.get("dtypes"), layout=case.get("layout", "C"),
                                       ctor=case.get("ctor"))
        if case.get("ctor") == "from_list":
            feats_ctor = "laser made by Laser.from_list"
        else:
            feats_ctor = None
        fields = list(zip(names, range(nel)))
        full = rows * cols <= 64
        impl, model, spec = [], [], []
        feats = {"get", cfg["kind"], "structured-read" if case["element"] is None else "element-read"}
        if feats_ctor:
            feats.add(feats_ctor)
        if (types or {}).get("_positional"):
            feats.add("configuration made with positional arguments")
        undet = False
        hyp = model_ok = True
        for rect, modes in rects:
            i, m, s, u, h, mok = self.observe_get(laser, fields, case["element"], cfg, rows, cols, rect, modes, full, ctx, feats,
                                                  case.get("opts"))
            impl.append(i)
            model.append(m)
            spec.append(s)
            undet = undet or u
            hyp = hyp and h
            model_ok = model_ok and mok
        feats.add("side>=1000" if max(rows, cols) >= 1000 else ("side<=8" if max(rows, cols) <= 8 else "side 9..999"))
        for k, t in sorted((types or {}).items()):
            if k in cfg and isinstance(t, str):
                feats.add("parameter type: " + type_used(cfg[k], t))
        for d in sorted(set(laser.data.dtype[n].str for n in laser.data.dtype.names)):
            feats.add("data dtype " + d)
        if case.get("layout", "C") != "C":
            feats.add("data layout " + ("Fortran order" if laser.data.flags["F_CONTIGUOUS"] and not laser.data.flags["C_CONTIGUOUS"]
                                        else ("strided view" if not laser.data.flags["C_CONTIGUOUS"] else "C")))
        return outcome(impl, model, spec, model_ok=model_ok, undetermined=undet, hyp=hyp, features=feats)

    def srr_layers(self, shapes):
        layers = []
        for (l, k) in shapes:
            a = np.empty((l, k), dtype=[("A", np.float64)])
            a["A"] = np.arange(1, l * k + 1, dtype=np.float64).reshape(l, k)
            layers.append(a)
        return layers

    def observe_srr(self, laser, cur, shapes, ctx, feats, order="extent-first", how="get"):
        """extent / reconstructed pixel size of the SRR laser AS IT IS NOW against the shape of the reconstruction;
        `cur` = the INPUTS of the configuration it holds now (constructor arguments + "ops") -> (impl, model, spec, raised).
        The demanded shape is Lean's `reconRows/reconCols` (C09's specification of the reconstruction) whenever the model's
        validity check accepts the configuration; the shape pewlib reconstructs is an observation that must equal it too.
        `order`: the reconstruction is read before or after the extent; `how`: get() | get("A") | get(flat=True)."""
        def reconstruct():
            try:
                recon = laser.get() if how == "get" else (laser.get("A") if how == "element" else laser.get(flat=True))
                return [int(recon.shape[0]), int(recon.shape[1])], None
            except Exception as e:  # the property speaks of the reconstructed array; success is C09's claim
                return None, {"raises": type(e).__name__, "msg": str(e)[:200]}

        first = reconstruct() if (order == "get-first" and how != "none") else None
        ext = [float(v) for v in laser.extent]
        px, py = float(laser.config.get_pixel_width()), float(laser.config.get_pixel_height())
        rep = ctx.driver.call("c10.srr", cfg=srr_cfg_json(cur), shapes=shapes, observed=[rat(v) for v in ext + [px, py]])
        mj = rep["config"]
        if not mj["integer_mag"] or mj["mag"] != cur["mag"]:
            raise core.InternalError("generator: the model's float64 magnification is not the intended integer")
        noffs = len(rep["offs"])
        if not (1e-60 < cur["spotsize"] < 1e60):
            feats.add("srr: parameters scaled by 2^k, |k| >= 600")
        feats |= {"srr", f"mag{cur['mag']}", f"layers{len(shapes)}",
                  "warmup=0" if rep["warmup"] == 0 else ("warmup>=40 samples" if rep["warmup"] >= 40 else "warmup>0"),
                  "non-square" if shapes[0][0] != shapes[1][0] else "square",
                  "offset>0" if (rep["offs"] and max(rep["offs"]) > 0) else "offset=0",
                  f"spp{'>1' if rep['spp'] > 1 else '=1'}",
                  "srr: more offsets than layers" if noffs > len(shapes) else ("srr: fewer offsets than layers" if noffs < len(shapes) else "srr: as many offsets as layers"),
                  "srr: reconstruction read " + ("before" if order == "get-first" else "after") + " the extent", "srr: read by " + how}
        if noffs > len(shapes) and rep["offs"] and max(rep["offs"]) > max(rep["offs"][:len(shapes)]):
            feats.add("srr: the largest offset belongs to no layer")
        if how == "none":  # configuration-only case: the demanded shape stands in for the array that is not built
            if rep["valid"] is not True or rep["spec_shape"] is None:
                return {"not accepted": True}, None, None, True
            rshape, err = rep["spec_shape"], None
        else:
            rshape, err = first if first is not None else reconstruct()
        if rshape is None:
            return err, None, None, True
        if rep["observed_ratio"] is None:
            impl = {"cols_from_extent": None, "rows_from_extent": None}
        else:
            rx, ry = (unrat(v) for v in rep["observed_ratio"])
            impl = {"cols_from_extent": near_int(rx), "rows_from_extent": near_int(ry)}
        impl["reconstructed_shape"] = rshape
        if rep["valid"] is True and rep["spec_shape"] is not None:
            want = rep["spec_shape"]
            feats.add("srr: shape demanded from the C09 specification")
        else:  # a configuration the model's validity check rejects but pewlib reconstructs: only its own shape can be related
            want = rshape
            feats.add("srr: reconstructed although the model rejects the configuration")
        spec = {"cols_from_extent": want[1], "rows_from_extent": want[0], "reconstructed_shape": want}
        if rep["valid"] is not True:
            # e.g. one sample short with one-line layers: NumPy broadcasts the short line, the model (no broadcasting) has no
            # reconstruction; the property relates the extent to the array that WAS reconstructed, nothing else to compare
            model = dict(spec)
        elif rep["model_ratio"] is None or rep["model_shape"] is None:
            model = {"cols_from_extent": None, "rows_from_extent": None, "reconstructed_shape": rep["model_shape"]}
        else:
            mr = [unrat(v) for v in rep["model_ratio"]]
            model = {"cols_from_extent": near_int(mr[0]), "rows_from_extent": near_int(mr[1]), "reconstructed_shape": rep["model_shape"]}
        # the extent and pixel size themselves, against the model (1e-12 relative)
        model = dict(model)
        impl["extent_px_agree_with_model"] = bool(ext_close(ext, rep["model_extent"]) and fclose(px, unrat(rep["model_px"]))
                                                  and fclose(py, unrat(rep["model_py"]))) if rep["model_extent"] is not None else None
        model["extent_px_agree_with_model"] = True if rep["model_extent"] is not None else None
        spec["extent_px_agree_with_model"] = impl["extent_px_agree_with_model"]
        if how == "none":  # the integers of the configuration, exactly: sub-pixels per pixel and the offsets table of the getter
            # (shapes beyond 2^53: a float ratio cannot name the integer; it must be within RATIO_REL of the demanded one)
            def snap(q, k):
                return k if abs(q - k) <= Fraction(RATIO_REL) * max(1, k) else float(q)

            if rep["observed_ratio"] is not None:
                impl["cols_from_extent"], impl["rows_from_extent"] = snap(rx, want[1]), snap(ry, want[0])
            if rep["model_ratio"] is not None and rep["model_shape"] is not None and rep["valid"] is True:
                model["cols_from_extent"], model["rows_from_extent"] = snap(mr[0], want[1]), snap(mr[1], want[0])
            conf = laser.config
            impl["spp"] = int(conf.subpixels_per_pixel)
            impl["table"] = [[int(a), int(b)] for a, b in np.asarray(conf.subpixel_offsets).tolist()]
            model["spp"] = spec["spp"] = rep["spp"]
            model["table"] = spec["table"] = rep["config"]["subpixel_offsets"]
            spec["extent_px_agree_with_model"] = True if rep["model_extent"] is not None else None  # here the model's values ARE demanded
        return impl, model, spec, False

    def eval_srr(self, case, ctx):
        from pewlib.srr.config import SRRConfig
        from pewlib.srr.srr import SRRLaser

        shapes = stack_shapes(case)
        cfg0 = make_srr_cfg(case)
        if case.get("roundtrip"):  # the same relation must hold for the configuration after its array round trip
            cfg0 = SRRConfig.from_array(cfg0.to_array())
        laser = SRRLaser(self.srr_layers(shapes), config=cfg0)
        feats = set()
        if case.get("roundtrip"):
            feats.add("srr-config-after-roundtrip")
        impl, model, spec, raised = self.observe_srr(laser, case, shapes, ctx, feats, case.get("order", "extent-first"), case.get("how", "get"))
        if raised:
            return outcome(impl, None, None, spec_ok=True, model_ok=True, undetermined=True, features=feats)
        return outcome(impl, model, spec, features=feats)

    def eval_hist(self, case, ctx):
        """a history on ONE Laser object: every observation is compared with the driver's model/spec for the
        configuration and shape the object holds at that moment"""
        from pewlib.laser import Laser

        cfg = dict(case["cfg"])
        rows, cols = case["rows"], case["cols"]
        fields = [("A", 0), ("B", 1)][:case["nel"]]
        nextk = len(fields)
        laser = Laser(token_data(rows, cols, fields), config=make_cfg(cfg))
        impl, model, spec = [], [], []
        spec_ok = model_ok = hyp = True
        undet = False
        feats = {"history"}
        read_before = False  # Laser.extent of this object has been read
        pending = set()  # changes made after such a read and not yet followed by another read of Laser.extent
        nobs = 0
        for step in case["steps"]:
            ch = step.get("change")
            tag = None
            if ch is None:
                pass
            elif ch["op"] == "set":  # in place, on the configuration object the laser holds
                done = []
                for k in sorted(ch["attrs"]):
                    if k in ATTRS[cfg["kind"]]:  # (a shrunk history may name attributes of the other kind: ignored)
                        setattr(laser.config, ATTRS[cfg["kind"]][k], ch["attrs"][k])
                        cfg[k] = ch["attrs"][k]
                        done.append(k)
                if done:
                    tag = "in-place-edit"
                    feats.add("in-place-edit of " + ("several attributes" if len(done) > 1 else done[0]))
            elif ch["op"] == "replace":
                if ch["cfg"]["kind"] != cfg["kind"]:
                    feats.add("config-replaced: other kind")
                cfg = dict(ch["cfg"])
                laser.config = make_cfg(cfg)
                tag = "config-replaced"
            elif ch["op"] == "data":
                if (ch["rows"], ch["cols"]) != (rows, cols):
                    tag = "data-assigned: other shape"
                    if ch["rows"] * ch["cols"] == rows * cols:
                        feats.add("data-assigned: other shape, same number of pixels")
                else:
                    tag = "data-assigned: same shape"
                rows, cols = ch["rows"], ch["cols"]
                laser.data = token_data(rows, cols, fields)
            elif ch["op"] == "add":
                name = f"E{nextk}"
                laser.add(name, token_data(rows, cols, [(name, nextk)])[name])
                fields = fields + [(name, nextk)]
                nextk += 1
                tag = "element-added"
            elif ch["op"] == "remove":
                if len(fields) > 1:
                    gone = fields[ch["index"] % len(fields)]
                    laser.remove(gone[0])
                    fields = [f for f in fields if f != gone]
                    tag = "element-removed"
            else:
                raise core.InternalError(f"unknown change {ch}")
            if tag is not None:
                feats.add(tag)
                if read_before:
                    pending.add(tag)
            element = None if step.get("element") is None else step["element"] % len(fields)
            full = rows * cols <= 64
            for ob in step["obs"]:
                nobs += 1
                if ob["o"] == "extent":
                    i, m, s, sok, mok = self.observe_extent(laser, cfg, rows, cols, ctx, feats)
                    spec_ok, model_ok = spec_ok and sok, model_ok and mok
                else:
                    if ob["o"] == "own":
                        rect, modes = [0, rows, 0, cols], ["own"] * 4
                    else:  # a rectangle drawn for another shape (shrunk history) is clipped to the image
                        r0, r1, c0, c1 = ob["rect"]
                        rect, modes = [min(r0, rows), min(r1, rows), min(c0, cols), min(c1, cols)], ob["modes"]
                    i, m, s, u, h, mok = self.observe_get(laser, fields, element, cfg, rows, cols, rect, modes, full, ctx, feats)
                    undet, hyp = undet or u, hyp and h
                    spec_ok, model_ok = spec_ok and canon_eq(i, s), model_ok and mok
                    feats.add("structured-read" if element is None else "element-read")
                impl.append(i)
                model.append(m)
                spec.append(s)
                if ob["o"] in ("extent", "own"):
                    for tg in pending:
                        feats.add(f"extent read before and after: {tg}")
                    pending = set()
                    read_before = True
                elif tag is not None:
                    feats.add(f"aligned read after: {tag}")
        if nobs == 0:
            feats = set()
        else:
            feats.add(cfg["kind"])
        return outcome(impl, model, spec, spec_ok=spec_ok, model_ok=model_ok, undetermined=undet, hyp=hyp, features=feats)

    # ------------------------------------------------------------------ histories on configuration objects and lasers
    HEAP_ATTRS = {"raster": ("spotsize", "speed", "scantime"), "spot": ("spotsize", "spotsize_y", "speed", "scantime")}

    def eval_heap(self, case, ctx):
        """a history on several configuration objects and several Laser objects that may SHARE one configuration object.
        The harness keeps no configuration state of its own: it tells the driver what it DID (objects made, copied by
        pewlib, assigned, attributes set, data assigned; identities as observed with `is`) and at every observation the
        Lean specification (`viewSpec`, the history read backwards) says which configuration and shape the laser must show."""
        import gc

        from pewlib.laser import Laser

        objs = []  # object number -> the Python object while the harness holds it, else None (dropped, or made by pewlib)
        mine = []  # i-th configuration the harness made itself -> its object number (steps refer to configurations by i)
        kinds = []  # object number -> "raster" | "spot"
        lasers = []  # laser number -> dict(laser, held, fields, rows, cols, nextk, dtypes, layout)
        dops = []  # what was done, for the driver
        impl, model, spec = [], [], []
        spec_ok = model_ok = hyp = True
        undet = False
        feats = {"heap-history"}
        nobs = 0
        edited_since = {}  # laser number -> tags of what changed since its extent was last read

        def resolve(k):
            """the Python object number k, or None when nobody holds it any more"""
            if not (isinstance(k, int) and 0 <= k < len(objs)):
                return None
            if objs[k] is not None:
                return objs[k]
            for L in lasers:
                if L["held"] == k:
                    return L["laser"].config
            return None

        def note(tag, holders):
            feats.add(tag)
            for j in holders:
                edited_since.setdefault(j, set()).add(tag)

        def adopt(j_laser, k):
            """after `Laser(.., config=objs[k])` or `laser.config = objs[k]`: which object does the laser hold?"""
            held = j_laser.config
            if held is objs[k]:
                return k
            dops.append({"op": "copyCfg", "src": k})  # pewlib made its own object (copy.copy in Laser.__init__)
            objs.append(None)
            kinds.append(kinds[k])
            return len(objs) - 1

        for st in case["steps"]:
            op = st["s"]
            if op == "cfg":
                objs.append(make_cfg(st["cfg"], st.get("types")))
                mine.append(len(objs) - 1)
                kinds.append(st["cfg"]["kind"])
                dops.append({"op": "newCfg", "cfg": cfg_json(st["cfg"])})
                for k, t in sorted((st.get("types") or {}).items()):
                    if k in st["cfg"] and isinstance(t, str):
                        feats.add("parameter type: " + type_used(st["cfg"][k], t))
                if (st.get("types") or {}).get("_positional"):
                    feats.add("configuration made with positional arguments")
            elif op == "laser":
                k = mine[st["cfg"]] if 0 <= st["cfg"] < len(mine) else -1
                if not (0 <= k < len(objs)) or objs[k] is None:
                    continue
                nel = st.get("nel", 1)
                fields = [("A", 0), ("B", 1)][:nel]
                rows, cols = st["rows"], st["cols"]
                L = {"fields": fields, "rows": rows, "cols": cols, "nextk": nel, "dtypes": st.get("dtypes"), "layout": st.get("layout", "C")}
                L["laser"] = Laser(token_data(rows, cols, fields, L["dtypes"], L["layout"]), config=objs[k])
                L["held"] = adopt(L["laser"], k)
                feats.add("constructor copied the configuration" if L["held"] != k else "constructor kept the configuration object")
                dops.append({"op": "newLaser", "cfg": L["held"], "rows": rows, "cols": cols})
                lasers.append(L)
            elif op in ("assign", "assignl"):  # laser.config = <a configuration of the harness> | <the one another laser holds>
                j = st["laser"]
                if not (0 <= j < len(lasers)):
                    continue
                if op == "assign":
                    k = mine[st["cfg"]] if 0 <= st["cfg"] < len(mine) else -1
                    obj = objs[k] if 0 <= k < len(objs) else None
                else:
                    if not (0 <= st["from"] < len(lasers)):
                        continue
                    k = lasers[st["from"]]["held"]
                    obj = lasers[st["from"]]["laser"].config
                if obj is None:
                    continue
                L = lasers[j]
                L["laser"].config = obj
                if L["laser"].config is obj:
                    L["held"] = k
                else:  # an assignment that copies
                    dops.append({"op": "copyCfg", "src": k})
                    objs.append(None)
                    kinds.append(kinds[k])
                    L["held"] = len(objs) - 1
                dops.append({"op": "setCfg", "laser": j, "cfg": L["held"]})
                note("config assigned", [j])
                if sum(1 for M in lasers if M["held"] == L["held"]) > 1:
                    feats.add("one configuration object shared by two lasers")
            elif op == "copy":  # copy.copy(laser) shares configuration object and data; copy.deepcopy(laser) shares nothing
                import copy as _copy

                j = st["laser"]
                if not (0 <= j < len(lasers)):
                    continue
                L0 = lasers[j]
                twin = (_copy.deepcopy if st.get("deep") else _copy.copy)(L0["laser"])
                if not st.get("deep"):  # a shallow copy also shares the dict of calibrations: give the twin its own, so that
                    twin.calibration = dict(twin.calibration)  # removing an element from one laser does not break the other
                L = {**L0, "laser": twin, "fields": list(L0["fields"])}
                if twin.config is L0["laser"].config:
                    feats.add("copy.copy of a laser: the configuration object is shared")
                else:
                    dops.append({"op": "copyCfg", "src": L0["held"]})
                    objs.append(None)
                    kinds.append(kinds[L0["held"]])
                    L["held"] = len(objs) - 1
                    feats.add("copy of a laser with its own configuration object")
                dops.append({"op": "newLaser", "cfg": L["held"], "rows": L["rows"], "cols": L["cols"]})
                lasers.append(L)
            elif op in ("set", "setl"):
                if op == "set":
                    k = mine[st["cfg"]] if 0 <= st["cfg"] < len(mine) else -1
                else:
                    if not (0 <= st["laser"] < len(lasers)):
                        continue
                    k = lasers[st["laser"]]["held"]
                obj = resolve(k)
                if obj is None or st["attr"] not in self.HEAP_ATTRS[kinds[k]]:
                    continue
                setattr(obj, st["attr"], typed(st["value"], st.get("type")))
                dops.append({"op": "setAttr", "cfg": k, "attr": st["attr"], "value": rat(st["value"])})
                holders = [j for j, M in enumerate(lasers) if M["held"] == k]
                note("in-place edit of " + st["attr"] + (" (spot: not a pixel size)" if kinds[k] == "spot" and st["attr"] in ("speed", "scantime") else ""), holders)
                if st.get("type") not in (None, "float"):
                    feats.add("parameter type: " + type_used(st["value"], st["type"]))
                if op == "set" and holders:
                    feats.add("edit through the harness's own reference to the object")
                if len(holders) > 1:
                    feats.add("edit seen by two lasers")
            elif op == "data":
                j = st["laser"]
                if not (0 <= j < len(lasers)):
                    continue
                L = lasers[j]
                same = (st["rows"], st["cols"]) == (L["rows"], L["cols"])
                L["rows"], L["cols"] = st["rows"], st["cols"]
                L["dtypes"], L["layout"] = st.get("dtypes", L["dtypes"]), st.get("layout", L["layout"])
                L["laser"].data = token_data(L["rows"], L["cols"], L["fields"], L["dtypes"], L["layout"])
                dops.append({"op": "setData", "laser": j, "rows": L["rows"], "cols": L["cols"]})
                note("data assigned: same shape" if same else "data assigned: other shape", [j])
            elif op == "add":
                j = st["laser"]
                if not (0 <= j < len(lasers)) or len(lasers[j]["fields"]) >= 4:
                    continue
                L = lasers[j]
                name = f"E{L['nextk']}"
                L["laser"].add(name, token_data(L["rows"], L["cols"], [(name, L["nextk"])])[name])
                L["fields"] = L["fields"] + [(name, L["nextk"])]
                L["nextk"] += 1
                note("element added", [j])
            elif op == "remove":
                j = st["laser"]
                if not (0 <= j < len(lasers)) or len(lasers[j]["fields"]) < 2:
                    continue
                L = lasers[j]
                gone = L["fields"][st.get("index", 0) % len(L["fields"])]
                L["laser"].remove(gone[0])
                L["fields"] = [f for f in L["fields"] if f != gone]
                note("element removed", [j])
            elif op == "drop":  # the harness forgets its reference: an object nobody holds is freed and its id() may be reused
                k = mine[st["cfg"]] if 0 <= st["cfg"] < len(mine) else -1
                if 0 <= k < len(objs) and objs[k] is not None:
                    objs[k] = None
                    gc.collect()
                    feats.add("configuration object dropped (its id may be reused)")
            elif op == "obs":
                j = st["laser"]
                if not (0 <= j < len(lasers)):
                    continue
                L = lasers[j]
                rep = ctx.driver.call("c10.heap", ops=dops + [{"op": "obs", "laser": j}])["obs"][-1]
                if rep["spec"] is None or rep["model"] is None:
                    raise core.InternalError("the history names a laser or configuration the driver does not know")
                view_m, view_s = rep["model"], rep["spec"]
                cfg = {k: (v if k == "kind" else float(unrat(v))) for k, v in view_s["cfg"].items()}
                rows, cols = view_s["rows"], view_s["cols"]
                if (rows, cols) != (L["rows"], L["cols"]):
                    raise core.InternalError("the driver's shape is not the shape of the data the harness assigned")
                laser, fields = L["laser"], L["fields"]
                element = None if st.get("element") is None else st["element"] % len(fields)
                full = rows * cols <= 64
                nobs += 1
                if st["o"] == "extent":
                    i, m, s_, sok, mok = self.observe_extent(laser, cfg, rows, cols, ctx, feats)
                    spec_ok, model_ok = spec_ok and sok, model_ok and mok
                elif st["o"] == "px":  # the pixel sizes alone, through the object the laser holds
                    conf = laser.config
                    i = {"pw": float(conf.get_pixel_width()), "ph": float(conf.get_pixel_height()),
                         "data_extent": [float(v) for v in conf.data_extent((rows, cols))]}
                    r2 = ctx.driver.call("c10.extent", cfg=cfg_json(cfg), rows=rows, cols=cols, arrays=[])
                    m = {k: r2["model"][k] for k in ("pw", "ph", "data_extent")}
                    s_ = {"pw": r2["spec"]["pw"], "ph": r2["spec"]["ph"], "data_extent": r2["spec"]["extent"]}
                    for ref, which in ((m, "m"), (s_, "s")):
                        ok = fclose(i["pw"], unrat(ref["pw"])) and fclose(i["ph"], unrat(ref["ph"])) and ext_close(i["data_extent"], ref["data_extent"])
                        if which == "m":
                            model_ok = model_ok and ok
                        else:
                            spec_ok = spec_ok and ok
                    feats.add("pixel sizes read alone")
                else:
                    if st["o"] == "own":
                        rect, modes = [0, rows, 0, cols], ["own"] * 4
                    else:  # a rectangle drawn for another shape (shrunk history) is clipped to the image
                        r0, r1, c0, c1 = st["rect"]
                        rect, modes = [min(r0, rows), min(r1, rows), min(c0, cols), min(c1, cols)], st["modes"]
                    i, m, s_, u, h, mok = self.observe_get(laser, fields, element, cfg, rows, cols, rect, modes, full, ctx, feats, st.get("opts"))
                    undet, hyp = undet or u, hyp and h
                    spec_ok, model_ok = spec_ok and canon_eq(i, s_), model_ok and mok
                    feats.add("structured-read" if element is None else "element-read")
                impl.append({"view": view_s, "obs": i})  # (the view is the driver's: the harness has none of its own)
                model.append({"view": view_m, "obs": m})
                spec.append({"view": view_s, "obs": s_})
                model_ok = model_ok and canon_eq(view_m, view_s)
                feats.add(cfg["kind"])
                for tg in edited_since.pop(j, set()):
                    feats.add(("extent read after: " if st["o"] in ("extent", "own") else "read after: ") + tg)
            else:
                raise core.InternalError(f"unknown history step {st}")
        if nobs == 0:
            feats = set()
        return outcome(impl, model, spec, spec_ok=spec_ok, model_ok=model_ok, undetermined=undet, hyp=hyp, features=feats)

    INT64 = 2 ** 63

    def int64_exact(self, case):
        """does every integer the unchanged code computes for this offsets list fit in int64?  (np.lcm.reduce of the
        denominators, offset * size in the setter - also when the setter runs again on the [offset', size] table that
        from_array hands back -, lcm(size, magnification))"""
        size = math.lcm(*[d for _, d in case["pairs"]])
        if size >= self.INT64 or size * case["mag"] >= self.INT64:
            return False
        for o, d in case["pairs"]:
            o2 = o * size // d
            if o * size >= self.INT64 or o2 * size >= self.INT64:
                return False
        return True

    def eval_srr_cfg(self, case, ctx):
        """configuration-only: an SRRConfig whose offset denominators have a LARGE least common multiple, on a tiny stack
        that is never reconstructed: sub-pixels per pixel, offsets table, pixel sizes and extent of the configuration as made
        and as restored by from_array(to_array()), against Lean's setters (integers of any size) - exactly for the integers,
        1e-12 / 1e-9 relative for the float values.  Lists whose integers leave int64 in the unchanged code are recorded only."""
        from pewlib.srr.config import SRRConfig
        from pewlib.srr.srr import SRRLaser

        shapes = stack_shapes(case)
        exact = self.int64_exact(case)
        size = math.lcm(*[d for _, d in case["pairs"]])
        feats = {"srr-config-only", "lcm of the denominators " + (">= 2^62" if size >= 2 ** 62 else ">= 2^40" if size >= 2 ** 40 else
                                                                 ">= 2^32" if size >= 2 ** 32 else ">= 2^31" if size >= 2 ** 31 else "< 2^31"),
                 "one denominator" if len(case["pairs"]) == 1 else f"{len(case['pairs'])} denominators"}
        if any(d >= 2 ** 31 for _, d in case["pairs"]):
            feats.add("a single denominator >= 2^31")
        impl, model, spec = [], [], []
        ok = 0
        try:
            made = make_srr_cfg(case)
            both = [("as made", made), ("after the array round trip", SRRConfig.from_array(made.to_array()))]
            for tag, conf in both:
                laser = SRRLaser(self.srr_layers(shapes), config=conf)
                f2 = set()
                i, m, s_, raised = self.observe_srr(laser, case, shapes, ctx, f2, "extent-first", "none")
                feats |= {f for f in f2 if not f.startswith("srr: read") and not f.startswith("srr: reconstruction")}
                if raised:
                    i = m = s_ = {"not compared": i}
                else:
                    ok += 1
                impl.append({tag: i}); model.append({tag: m}); spec.append({tag: s_})
        except core.InternalError:
            raise
        except Exception as e:
            if exact:
                raise
            impl = model = spec = [{"raises": type(e).__name__}]
        if not exact:  # an integer of the unchanged code leaves int64 (silent wrap in NumPy): outside what it handles, recorded
            feats.add("integers beyond int64 in the unchanged code: " + ("as the model" if canon_eq(impl, spec) else "differs from the model") + " (recorded only)")
            return outcome(impl, model, spec, spec_ok=True, model_ok=True, undetermined=True, features=feats)
        feats.add("every integer fits int64: judged exactly")
        return outcome(impl, model, spec, undetermined=(ok == 0), features=feats)

    def eval_srr_hist(self, case, ctx):
        """a history on ONE SRRLaser object (and, with "second", another SRRLaser that is given the SAME configuration
        object): configuration edited in place (offsets, warm-up, spot size / speed / scan time, one by one in any order),
        replaced, layers replaced; after each change extent / pixel size is compared with the shape reconstructed then.
        The driver is told the constructor arguments and the sequence of setter calls of the configuration OBJECT the
        observed laser holds; Lean's setters compute its state."""
        from pewlib.srr.srr import SRRLaser

        def layers_of(shapes, n):
            return [shapes[i % 2] for i in range(n)]

        cur0 = {k: case[k] for k in ("spotsize", "speed", "scantime", "warmup", "pairs", "mag")}
        cur0["ops"] = []  # what is DONE to the configuration object after its construction, for the driver's setters
        cur0["ctor"] = {k: case[k] for k in ("spotsize", "speed", "scantime", "warmup", "pairs")}
        states = [cur0]  # one entry per configuration object
        shapes = [stack_shapes(case)]
        lasers = [SRRLaser(self.srr_layers(shapes[0]), config=make_srr_cfg(cur0))]
        held = [0]  # laser -> index into `states`
        feats = {"srr-history"}
        if case.get("second"):
            sh2 = layers_of(case["second"]["shapes"], case["second"]["n"])
            other = SRRLaser(self.srr_layers(sh2))
            other.config = lasers[0].config
            lasers.append(other)
            shapes.append(sh2)
            if other.config is lasers[0].config:
                held.append(0)
                feats.add("srr-history: one configuration object shared by two lasers")
            else:  # an assignment that copies: the second laser keeps the state of that moment
                states.append({**cur0, "ops": [], "ctor": dict(cur0["ctor"])})
                held.append(1)
        impl, model, spec = [], [], []
        ok = 0
        for idx, step in enumerate(case["steps"]):
            ch = step.get("change")
            on = step.get("on", 0) % len(lasers)
            # changes go through the main laser (number 0); the observation is made on laser `on`
            laser = lasers[0]
            cur = states[held[0]]
            if ch is None:
                tag = None
            elif ch["op"] == "set":
                conf = laser.config
                if "pairs" in ch:
                    conf.subpixel_offsets = [tuple(p) for p in ch["pairs"]]
                    cur["ops"].append(cfg_op("offsets", pairs=ch["pairs"]))
                if "warmup" in ch:
                    conf.warmup = ch["warmup"]
                    cur["ops"].append(cfg_op("warmup", seconds=ch["warmup"]))
                tag = "in-place edit of " + " and ".join(k for k in ("pairs", "warmup") if k in ch)
            elif ch["op"] == "equal":
                w = len(ch["pairs"])
                if ch["pairs"] != [[i, w] for i in range(w)]:
                    raise core.InternalError("equal offsets: pairs must be [[0, w], .., [w-1, w]]")
                laser.config.set_equal_subpixel_offsets(w)
                cur["ops"].append(cfg_op("equal", width=w))
                tag = "in-place set_equal_subpixel_offsets"
            elif ch["op"] == "triple":
                conf = laser.config
                conf.spotsize, conf.speed, conf.scantime = ch["spotsize"], ch["speed"], ch["scantime"]
                conf.warmup = ch["warmup"]
                cur["ops"] += [cfg_op("params", spotsize=ch["spotsize"], speed=ch["speed"], scantime=ch["scantime"]),
                               cfg_op("warmup", seconds=ch["warmup"])]
                tag = "in-place edit of spot size, speed, scan time"
                if ch["mag"] != cur["mag"]:
                    feats.add("srr-history: magnification changed")
            elif ch["op"] == "attrs":  # one attribute after the other, in the order given
                conf = laser.config
                names = []
                for name, v in ch["seq"]:
                    if name in ("spotsize", "speed", "scantime"):
                        setattr(conf, name, v)
                        cur[name] = v
                        cur["ops"].append(cfg_op("params", spotsize=cur["spotsize"], speed=cur["speed"], scantime=cur["scantime"]))
                    elif name == "warmup":
                        conf.warmup = v
                        cur["warmup"] = v
                        cur["ops"].append(cfg_op("warmup", seconds=v))
                    elif name == "pairs":
                        conf.subpixel_offsets = [tuple(p) for p in v]
                        cur["pairs"] = v
                        cur["ops"].append(cfg_op("offsets", pairs=v))
                    else:
                        raise core.InternalError(f"unknown attribute {name}")
                    names.append(name)
                tag = "attributes one by one"
                feats.add("srr-history: first of the attributes edited: " + names[0])
                if ch["mag"] != cur["mag"]:
                    feats.add("srr-history: magnification changed")
                if not any(n == "warmup" for n in names) and any(n == "scantime" for n in names):
                    feats.add("srr-history: scan time edited, warm-up (in samples) kept")
            elif ch["op"] == "layers":
                j = ch.get("on", 0) % len(lasers)
                new_shapes = layers_of(ch["shapes"], ch["n"])
                arrs = self.srr_layers(new_shapes)
                if ch.get("how") == "in-place" and len(arrs) == len(lasers[j].data):
                    for i_, a_ in enumerate(arrs):
                        lasers[j].data[i_] = a_
                    tag = "layers replaced inside the list"
                else:
                    lasers[j].data = arrs
                    tag = "list of layers assigned"
                if [sh[0] for sh in new_shapes[:2]] == [sh[0] for sh in shapes[j][:2]] and len(new_shapes) == len(shapes[j]):
                    feats.add("srr-history: layers replaced, same numbers of lines")
                shapes[j] = new_shapes
            elif ch["op"] == "replace":
                new = {**cur, **{k: v for k, v in ch.items() if k != "op"}, "ops": []}
                new["ctor"] = {k: new[k] for k in ("spotsize", "speed", "scantime", "warmup", "pairs")}
                laser.config = make_srr_cfg(new)
                states.append(new)
                held[0] = len(states) - 1
                cur = new
                tag = "config replaced"
                if len(lasers) > 1 and held[1] != held[0]:
                    feats.add("srr-history: config replaced on one of two lasers that shared it")
            else:
                raise core.InternalError(f"unknown change {ch}")
            if ch is not None and ch["op"] not in ("attrs", "layers", "replace"):
                cur.update({k: v for k, v in ch.items() if k != "op"})
            elif ch is not None and ch["op"] == "attrs":
                cur["mag"] = ch["mag"]
            if tag is not None and idx > 0:
                feats.add("srr-history: " + tag)
            seen = states[held[on]]
            if len(seen["pairs"]) > len(shapes[on]):
                feats.add("srr-history: more offsets than layers")
            if on != 0:
                feats.add("srr-history: observed on the second laser")
            i, m, s, raised = self.observe_srr(lasers[on], seen, shapes[on], ctx, feats, step.get("order", "extent-first"), step.get("how", "get"))
            if raised:  # nothing reconstructed at this step: nothing the property relates the extent to
                i = m = s = {"no reconstruction": i}
                feats.add("srr-history: a step without reconstruction")
            else:
                ok += 1
            impl.append(i)
            model.append(m)
            spec.append(s)
        return outcome(impl, model, spec, undetermined=(ok == 0), features=feats)

    def evaluate(self, case, ctx):
        import warnings

        with warnings.catch_warnings(), np.errstate(all="ignore"):
            warnings.simplefilter("ignore")
            return self.evaluate_(case, ctx)

    def evaluate_(self, case, ctx):
        k = case["kind"]
        if k == "extent":
            return self.eval_extent(case, ctx)
        if k == "get":
            return self.eval_get(case, ctx, [(case["rect"], case["modes"])])
        if k == "get_all":
            rows, cols = case["rows"], case["cols"]
            rects = [([r0, r1, c0, c1], [case["mode"]] * 4)
                     for r0 in range(rows + 1) for r1 in range(r0, rows + 1)
                     for c0 in range(cols + 1) for c1 in range(c0, cols + 1)]
            out = self.eval_get(case, ctx, rects)
            out["features"] = sorted(set(out["features"]) | {"all-aligned-rectangles"})
            return out
        if k == "srr":
            return self.eval_srr(case, ctx)
        if k == "hist":
            return self.eval_hist(case, ctx)
        if k == "srr_hist":
            return self.eval_srr_hist(case, ctx)
        if k == "heap":
            return self.eval_heap(case, ctx)
        if k == "srr_cfg":
            return self.eval_srr_cfg(case, ctx)
        raise core.InternalError(f"unknown case kind {k}")

    def shrink(self, case):
        k = case["kind"]
        if k in ("get", "get_all", "extent"):
            rows, cols = case["rows"], case["cols"]
            for nr, nc in ((rows // 2, cols), (rows, cols // 2), (rows - 1, cols), (rows, cols - 1)):
                if nr >= 1 and nc >= 1 and (nr, nc) != (rows, cols):
                    c = {**case, "rows": nr, "cols": nc}
                    if k == "get":
                        r0, r1, c0, c1 = case["rect"]
                        if case["modes"][0] == "own":
                            c["rect"] = [0, nr, 0, nc]
                        else:
                            c["rect"] = [min(r0, nr), min(r1, nr), min(c0, nc), min(c1, nc)]
                    yield c
            if k == "get_all":
                for r0 in range(rows + 1):
                    for r1 in range(r0, rows + 1):
                        for c0 in range(cols + 1):
                            for c1 in range(c0, cols + 1):
                                yield {**case, "kind": "get", "rect": [r0, r1, c0, c1], "modes": [case["mode"]] * 4}
            if case.get("nel", 1) > 1:
                yield {**case, "nel": 1, "element": 0}
            for extra in ("types", "opts", "dtypes", "layout"):
                if extra in case:
                    yield {k_: v for k_, v in case.items() if k_ != extra}
        elif k == "hist":
            steps = case["steps"]
            for i in range(len(steps)):  # fewer steps (the state is followed by evaluate, so any sub-history is a valid case)
                yield {**case, "steps": steps[:i] + steps[i + 1:]}
            for i, st in enumerate(steps):
                def with_step(new):
                    return {**case, "steps": steps[:i] + [new] + steps[i + 1:]}

                if len(st["obs"]) > 1:
                    for j in range(len(st["obs"])):
                        yield with_step({**st, "obs": st["obs"][:j] + st["obs"][j + 1:]})
                ch = st.get("change")
                if ch is not None:
                    yield with_step({**st, "change": None})
                    if ch["op"] == "set" and len(ch["attrs"]) > 1:
                        for a in sorted(ch["attrs"]):
                            yield with_step({**st, "change": {"op": "set", "attrs": {b: v for b, v in ch["attrs"].items() if b != a}}})
                    if ch["op"] == "data":
                        for nr, nc in ((ch["rows"] // 2, ch["cols"]), (ch["rows"], ch["cols"] // 2)):
                            if nr >= 1 and nc >= 1:
                                yield with_step({**st, "change": {"op": "data", "rows": nr, "cols": nc}})
            rows, cols = case["rows"], case["cols"]
            for nr, nc in ((rows // 2, cols), (rows, cols // 2), (rows - 1, cols), (rows, cols - 1)):
                if nr >= 1 and nc >= 1 and (nr, nc) != (rows, cols):
                    yield {**case, "rows": nr, "cols": nc}
            if case["nel"] > 1:
                yield {**case, "nel": 1}
        elif k == "heap":  # any sub-sequence is a valid history: steps that name something that does not exist are skipped
            steps = case["steps"]
            for i in range(len(steps)):
                if steps[i]["s"] not in ("cfg", "laser"):
                    yield {**case, "steps": steps[:i] + steps[i + 1:]}
            for i, st in enumerate(steps):
                if st["s"] in ("laser", "data"):
                    for nr, nc in ((st["rows"] // 2, st["cols"]), (st["rows"], st["cols"] // 2)):
                        if nr >= 1 and nc >= 1:
                            yield {**case, "steps": steps[:i] + [{**st, "rows": nr, "cols": nc}] + steps[i + 1:]}
                if st.get("type") or st.get("types") or st.get("dtypes") or st.get("layout"):
                    yield {**case, "steps": steps[:i] + [{k_: v for k_, v in st.items() if k_ not in ("type", "types", "dtypes", "layout")}] + steps[i + 1:]}
        elif k == "srr_hist":
            steps = case["steps"]
            for i in range(len(steps)):
                yield {**case, "steps": steps[:i] + steps[i + 1:]}
            if case.get("second"):
                yield {k_: v for k_, v in case.items() if k_ != "second"}
            if case["n"] > 2:
                yield {**case, "n": case["n"] - 1}
        elif k == "srr_cfg":
            if len(case["pairs"]) > 1:
                for i in range(len(case["pairs"])):
                    yield {**case, "pairs": case["pairs"][:i] + case["pairs"][i + 1:]}
            for i, (o, d) in enumerate(case["pairs"]):
                if o > 1:
                    yield {**case, "pairs": case["pairs"][:i] + [[o // 2, d]] + case["pairs"][i + 1:]}
            if case["n"] > 2:
                yield {**case, "n": 2}
        elif k == "srr":
            if case["n"] > 2:
                yield {**case, "n": case["n"] - 1}
            if len(case["pairs"]) > 1:
                yield {**case, "pairs": case["pairs"][:-1]}
            (l0, s0), (l1, s1) = case["shapes"]
            M = case["mag"]
            if l0 > 1:
                yield {**case, "shapes": [[l0 - 1, s0], [l1, s1 - M]]}
            if l1 > 1:
                yield {**case, "shapes": [[l0, s0 - M], [l1 - 1, s1]]}


def canon_eq(a, b):
    return core.canon(a) == core.canon(b)


PROP = C10()

if __name__ == "__main__":
    sys.exit(core.main(PROP, "harness.c10"))
