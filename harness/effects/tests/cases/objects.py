"""Objects: constructors that keep arguments, class-level state, properties, chaining, inheritance."""
import copy

import numpy as np


class Keeper:
    def __init__(self, data: np.ndarray):
        self.data = data

    def zero(self):
        self.data[...] = 0.0
        return self

    @property
    def view(self):
        return self.data[1:]

    @property
    def scaled(self):
        return self.data * 2.0

    @view.setter
    def view(self, v: np.ndarray):
        self.data = v


class Reg:
    items: list = []

    def add(self, v):
        self.items.append(v)
        return self.items


class Base:
    def __init__(self, info: dict | None = None):
        self.info = info or {}


class Child(Base):
    def __init__(self, info: dict, extra: np.ndarray):
        super().__init__(info)
        self.extra = extra.copy()


def ctor_then_method(x: np.ndarray):
    k = Keeper(x)
    k.zero()


def chained(x: np.ndarray):
    return Keeper(x).zero().view


def property_copy(x: np.ndarray):
    y = Keeper(x).scaled
    y[0] = 1.0
    return y


def property_setter(x: np.ndarray, y: np.ndarray):
    k = Keeper(x.copy())
    k.view = y
    k.zero()


def class_level_state(x: np.ndarray):
    return Reg().add(x)


def class_level_state_two_objects(x: np.ndarray):
    Reg().add(x)
    return Reg().items


def super_keeps(info: dict, extra: np.ndarray):
    c = Child(info, extra)
    c.info["k"] = 1
    return c


def shallow_copy_object(k: Keeper):
    c = copy.copy(k)
    c.data[0] = 5.5
    return c


def deep_copy_object(k: Keeper):
    c = copy.deepcopy(k)
    c.data[0] = 5.5
    return c


def escape_to_helper(x: np.ndarray):
    k = Keeper(x.copy())
    _swap_in(k, x)
    k.zero()


def _swap_in(obj, arr: np.ndarray):
    obj.data = arr


def object_in_list(x: np.ndarray):
    ks = [Keeper(x.copy()) for _ in range(2)]
    ks[1].view = x
    for k in ks:
        k.zero()


def attr_of_param_object(k: Keeper):
    d = k.data
    d[0] = -1.0


def getattr_dynamic(k: Keeper):
    return getattr(k, "data")


def vars_dynamic(k: Keeper, x: np.ndarray):
    vars(k)["data"] = x
    return k


def dict_dunder(k: Keeper, x: np.ndarray):
    k.__dict__["data"] = x


# ---- must stay precise
def ctor_copy(x: np.ndarray):
    k = Keeper(x.copy())
    k.zero()
    return k.scaled


def child_copies_extra(info: dict, extra: np.ndarray):
    c = Child({}, extra)
    c.extra[0] = 2.0
    return c.extra


EXPECT = {
    "ctor_then_method": {"write": ["x"]},
    "chained": {"write": ["x"], "alias": ["x"]},
    "property_setter": {"write": ["y"]},
    "class_level_state": {"alias": ["x"]},
    "class_level_state_two_objects": {"alias": ["x"]},
    "super_keeps": {"write": ["info"], "alias": ["info"]},
    "shallow_copy_object": {"write": ["k"], "alias": ["k"]},
    "escape_to_helper": {"write": ["x"]},
    "object_in_list": {"write": ["x"]},
    "attr_of_param_object": {"write": ["k"]},
    "getattr_dynamic": {"alias": ["k"]},
    "vars_dynamic": {"write": ["k"], "alias": ["x"]},
    "dict_dunder": {"write": ["k"]},
    "Keeper": {"alias": ["data"]},
    "Keeper.zero": {"write": ["self"], "alias": ["self"]},
    "Keeper.view": {"alias": ["self"]},
    "Keeper.view.setter": {"write": ["self"]},
    "Reg.add": {"alias": ["v"]},
    "Child": {"alias": ["info"]},
}
EXACT = {
    "property_copy": {"write": [], "alias": []},
    "deep_copy_object": {"write": [], "alias": []},
    "ctor_copy": {"write": [], "alias": []},
    "child_copies_extra": {"write": [], "alias": []},
}
_k = lambda: Keeper(np.array([1.0, 2.0, 3.0]))  # noqa: E731
ARGS = {
    "shallow_copy_object": lambda: {"k": _k()},
    "deep_copy_object": lambda: {"k": _k()},
    "attr_of_param_object": lambda: {"k": _k()},
    "getattr_dynamic": lambda: {"k": _k()},
    "vars_dynamic": lambda: {"k": _k(), "x": np.ones(2)},
    "dict_dunder": lambda: {"k": _k(), "x": np.ones(2)},
    "super_keeps": lambda: {"info": {"a": 1}, "extra": np.ones(2)},
    "child_copies_extra": lambda: {"info": {"a": 1}, "extra": np.ones(2)},
    "Keeper": lambda: {"data": np.ones(3)},
    "Keeper.zero": lambda: {"self": _k()},
    "Keeper.view": lambda: {"self": _k()},
    "Keeper.view.setter": None,
    "Reg.add": lambda: {"self": Reg(), "v": np.ones(2)},
    "Child": lambda: {"info": {"a": 1}, "extra": np.ones(2)},
}
