"""NumPy idioms that write through views / in place, and reflection (whole function unknown)."""
import operator

import numpy as np


def transpose_write(x: np.ndarray):
    x.T[...] = 0.0


def real_write(x: np.ndarray):
    x.real[0] = 9.0


def reshape_iadd(x: np.ndarray):
    y = x.reshape(-1)
    y += 1.0


def strided_imul(x: np.ndarray):
    a = x[::2]
    a *= 2.0


def field_write(x: np.ndarray):
    x["a"][...] = 4.0


def asarray_sort(x: np.ndarray):
    np.asarray(x).sort()


def ravel_write(x: np.ndarray):
    np.ravel(x)[0] = 8.0


def shape_assign(x: np.ndarray):
    x.shape = (2, 2)


def flat_assign(x: np.ndarray):
    x.flat = 3.0


def method_out_kw(x: np.ndarray):
    x.clip(0.0, 1.0, out=x)


def method_out_positional(x: np.ndarray):
    x.clip(0.0, 1.0, x)


def cumsum_method_out(x: np.ndarray):
    x.cumsum(0, None, x)


def take_out(x: np.ndarray, y: np.ndarray):
    np.take(x, [0, 1], out=y)


def out_via_kwargs(x: np.ndarray):
    kw = {"out": x}
    np.sqrt(x, **kw)


def reduce_out(x: np.ndarray, y: np.ndarray):
    np.add.reduce(x, axis=0, out=y)


def byteswap_positional(x: np.ndarray):
    x.byteswap(True)


def dunder_iadd(x: np.ndarray):
    x.__iadd__(1.0)


def dunder_setitem(x: np.ndarray):
    x.__setitem__(0, 7.0)


def operator_setitem(x: np.ndarray):
    operator.setitem(x, 0, 7.0)


def operator_iadd(x: np.ndarray):
    operator.iadd(x, 1.0)


def slice_assign_list(xs: list):
    xs[0:1] = [1, 2]


def memoryview_write(x: np.ndarray):
    m = memoryview(x)
    m[0] = 6.0


def view_in_tuple(x: np.ndarray):
    return (x[1:], 3)


def nonzero_index_copy(x: np.ndarray):
    return x[np.nonzero(x)]  # fancy indexing copies; a view is the conservative answer


def eval_reflection(x: np.ndarray):
    eval("x.fill(0.0)")


def locals_reflection(x: np.ndarray):
    locals()["x"].fill(0.0)


def getattr_call(x: np.ndarray):
    getattr(x, "fill")(0.0)


# ---- must stay precise
def sort_function_copy(x: np.ndarray):
    y = np.sort(x)
    y[0] = 0.0
    return y


def fancy_then_write(x: np.ndarray, idx: np.ndarray):
    y = np.take_along_axis(x, idx, 0)
    y[0] = 0.0
    return y


def where_three(x: np.ndarray, y: np.ndarray):
    z = np.where(x > 0, x, y)
    z[0] = 0.0
    return z


EXPECT = {
    "transpose_write": {"write": ["x"]}, "real_write": {"write": ["x"]}, "reshape_iadd": {"write": ["x"]},
    "strided_imul": {"write": ["x"]}, "field_write": {"write": ["x"]}, "asarray_sort": {"write": ["x"]},
    "ravel_write": {"write": ["x"]}, "shape_assign": {"write": ["x"]}, "flat_assign": {"write": ["x"]},
    "method_out_kw": {"write": ["x"]}, "method_out_positional": {"write": ["x"]}, "cumsum_method_out": {"write": ["x"]},
    "take_out": {"write": ["y"]}, "out_via_kwargs": {"write": ["x"]}, "reduce_out": {"write": ["y"]},
    "byteswap_positional": {"write": ["x"]}, "dunder_iadd": {"write": ["x"]}, "dunder_setitem": {"write": ["x"]},
    "operator_setitem": {"write": ["x"]}, "operator_iadd": {"write": ["x"]}, "slice_assign_list": {"write": ["xs"]},
    "memoryview_write": {"write": ["x"]}, "view_in_tuple": {"alias": ["x"]},
    "eval_reflection": {"write": ["x"]}, "locals_reflection": {"write": ["x"]}, "getattr_call": {"write": ["x"]},
    "nonzero_index_copy": {},
}
EXACT = {
    "sort_function_copy": {"write": [], "alias": []},
    "fancy_then_write": {"write": [], "alias": []},
    "where_three": {"write": [], "alias": []},
}


def _st():
    s = np.zeros(3, dtype=[("a", "f8"), ("b", "f8")])
    return s


ARGS = {
    "field_write": lambda: {"x": _st()},
    "asarray_sort": lambda: {"x": np.array([3.0, 1.0, 2.0])},
    "shape_assign": None,  # the snapshot compares shape: static only is enough
    "method_out_kw": lambda: {"x": np.array([-1.0, 2.0])},
    "method_out_positional": lambda: {"x": np.array([-1.0, 2.0])},
    "take_out": lambda: {"x": np.array([1.0, 2.0, 3.0]), "y": np.zeros(2)},
    "reduce_out": lambda: {"x": np.ones((2, 3)), "y": np.zeros(3)},
    "real_write": lambda: {"x": np.array([1.0, 2.0])},
    "fancy_then_write": lambda: {"x": np.array([1.0, 2.0]), "idx": np.array([1, 0])},
    "nonzero_index_copy": None,
    "eval_reflection": None,
    "locals_reflection": None,
}
