"""Positional `out` arguments and in-place methods / functions of NumPy, random and the builtin containers."""
import random

import numpy as np


def add_positional_out(x: np.ndarray, y: np.ndarray):
    np.add(x, y, x)


def add_positional_out_result(x: np.ndarray, y: np.ndarray):
    return np.add(x, y, x)


def clip_positional_out(y: np.ndarray):
    np.clip(y, 0, 1, y)


def sqrt_positional_out(x: np.ndarray):
    np.sqrt(x, x)


def cumsum_positional_out(x: np.ndarray):
    np.cumsum(x, 0, None, x)


def out_keyword(x: np.ndarray, y: np.ndarray):
    np.multiply(x, y, out=y)


def out_keyword_tuple(x: np.ndarray):
    np.sqrt(x, out=(x,))


def where_keyword(x: np.ndarray, y: np.ndarray):
    return np.add(x, 1.0, out=y, where=x > 0)


def copyto_dst(dst: np.ndarray, src: np.ndarray):
    np.copyto(dst, src)


def put_arr(x: np.ndarray):
    np.put(x, [0], [5.0])


def put_along(x: np.ndarray):
    np.put_along_axis(x, np.array([0]), 9.0, 0)


def place_arr(x: np.ndarray):
    np.place(x, x > 0, [0.0])


def putmask_arr(x: np.ndarray):
    np.putmask(x, x > 0, 0.0)


def fill_diag(x: np.ndarray):
    np.fill_diagonal(x, 7.0)


def ufunc_at(x: np.ndarray):
    np.add.at(x, [0], 1.0)


def nd_sort(x: np.ndarray):
    x.sort()


def nd_fill(x: np.ndarray):
    x.fill(0.0)


def nd_put(x: np.ndarray):
    x.put([0], [1.0])


def nd_itemset(x: np.ndarray):
    x.itemset(0, 4.0)


def nd_resize(x: np.ndarray):
    x.resize((2,), refcheck=False)


def nd_partition(x: np.ndarray):
    x.partition(1)


def nd_setfield(x: np.ndarray):
    x.setfield(3.0, np.float64)


def nd_setflags(x: np.ndarray):
    x.setflags(write=False)


def nd_byteswap(x: np.ndarray):
    x.byteswap(inplace=True)


def py_shuffle(xs: list):
    random.shuffle(xs)


def np_shuffle(x: np.ndarray):
    np.random.shuffle(x)


def rng_shuffle(x: np.ndarray):
    rng = np.random.default_rng(0)
    rng.shuffle(x)


def list_sort(xs: list):
    xs.sort()


def list_reverse(xs: list):
    xs.reverse()


def list_extend(xs: list, ys: list):
    xs.extend(ys)


def list_insert(xs: list, y: np.ndarray):
    xs.insert(0, y)


def list_remove(xs: list):
    xs.remove(1.0)


def list_pop(xs: list):
    return xs.pop()


def list_clear(xs: list):
    xs.clear()


def list_imul(xs: list):
    xs *= 2


def dict_update(d: dict, e: dict):
    d.update(e)


def dict_setdefault(d: dict, x: np.ndarray):
    d.setdefault("k", x)


def dict_pop(d: dict):
    return d.pop("a")


def dict_popitem(d: dict):
    d.popitem()


def dict_clear(d: dict):
    d.clear()


def dict_ior(d: dict, e: dict):
    d |= e


def set_add(s: set):
    s.add(1)


def set_update(s: set, t: set):
    s.difference_update(t)


def del_item(d: dict):
    del d["a"]


def del_slice(xs: list):
    del xs[0:1]


# ---- must stay precise
def ufunc_fresh(x: np.ndarray, y: np.ndarray):
    return np.add(x, y)


def clip_fresh(x: np.ndarray):
    return np.clip(x, 0, 1)


def out_into_local(x: np.ndarray, y: np.ndarray):
    z = np.empty_like(x)
    np.add(x, y, z)
    np.multiply(z, 2.0, out=z)
    return z


def sort_local_copy(x: np.ndarray):
    y = x.copy()
    y.sort()
    return y


def list_local(xs: list):
    out = []
    for v in xs:
        out.append(len(v))
    out.sort()
    return out


EXPECT = {
    "add_positional_out": {"write": ["x"]},
    "add_positional_out_result": {"write": ["x"], "alias": ["x"]},
    "clip_positional_out": {"write": ["y"]},
    "sqrt_positional_out": {"write": ["x"]},
    "cumsum_positional_out": {"write": ["x"]},
    "out_keyword": {"write": ["y"]},
    "out_keyword_tuple": {"write": ["x"]},
    "where_keyword": {"write": ["y"], "alias": ["y"]},
    "copyto_dst": {"write": ["dst"]},
    "put_arr": {"write": ["x"]},
    "put_along": {"write": ["x"]},
    "place_arr": {"write": ["x"]},
    "putmask_arr": {"write": ["x"]},
    "fill_diag": {"write": ["x"]},
    "ufunc_at": {"write": ["x"]},
    "nd_sort": {"write": ["x"]},
    "nd_fill": {"write": ["x"]},
    "nd_put": {"write": ["x"]},
    "nd_itemset": {"write": ["x"]},
    "nd_resize": {"write": ["x"]},
    "nd_partition": {"write": ["x"]},
    "nd_setfield": {"write": ["x"]},
    "nd_setflags": {"write": ["x"]},
    "nd_byteswap": {"write": ["x"]},
    "py_shuffle": {"write": ["xs"]},
    "np_shuffle": {"write": ["x"]},
    "rng_shuffle": {"write": ["x"]},
    "list_sort": {"write": ["xs"]},
    "list_reverse": {"write": ["xs"]},
    "list_extend": {"write": ["xs"]},
    "list_insert": {"write": ["xs"]},
    "list_remove": {"write": ["xs"]},
    "list_pop": {"write": ["xs"]},
    "list_clear": {"write": ["xs"]},
    "list_imul": {"write": ["xs"]},
    "dict_update": {"write": ["d"]},
    "dict_setdefault": {"write": ["d"]},
    "dict_pop": {"write": ["d"]},
    "dict_popitem": {"write": ["d"]},
    "dict_clear": {"write": ["d"]},
    "dict_ior": {"write": ["d"]},
    "set_add": {"write": ["s"]},
    "set_update": {"write": ["s"]},
    "del_item": {"write": ["d"]},
    "del_slice": {"write": ["xs"]},
}
EXACT = {
    "ufunc_fresh": {"write": [], "alias": []},
    "clip_fresh": {"write": [], "alias": []},
    "out_into_local": {"write": [], "alias": []},
    "sort_local_copy": {"write": [], "alias": []},
    "list_local": {"write": [], "alias": []},
}

ARGS = {
    "copyto_dst": lambda: {"dst": np.zeros(3), "src": np.ones(3)},
    "clip_positional_out": lambda: {"y": np.array([-1.0, 0.5, 3.0])},
    "put_along": lambda: {"x": np.array([3.0, 1.0, 2.0])},
    "fill_diag": lambda: {"x": np.ones((3, 3))},
    "nd_itemset": None,  # removed in NumPy 2: static only
    "nd_setflags": None,  # flags are not part of a snapshot: static only
    "nd_setfield": lambda: {"x": np.array([1.0, 2.0])},
    "list_remove": lambda: {"xs": [1.0, 2.0]},
    "list_pop": lambda: {"xs": [1.0, 2.0]},
    "list_sort": lambda: {"xs": [3.0, 1.0]},
    "list_reverse": lambda: {"xs": [3.0, 1.0]},
    "py_shuffle": None,  # may leave a 2-list unchanged: static only
    "np_shuffle": None,
    "rng_shuffle": lambda: {"x": np.arange(20.0)},
    "nd_sort": lambda: {"x": np.array([3.0, 1.0, 2.0])},
    "nd_partition": lambda: {"x": np.array([3.0, 1.0, 2.0])},
    "nd_resize": lambda: {"x": np.array([3.0, 1.0, 2.0])},
    "dict_update": lambda: {"d": {"a": 1}, "e": {"b": 2}},
    "dict_ior": lambda: {"d": {"a": 1}, "e": {"b": 2}},
    "dict_pop": lambda: {"d": {"a": 1}},
    "dict_popitem": lambda: {"d": {"a": 1}},
    "dict_clear": lambda: {"d": {"a": 1}},
    "dict_setdefault": lambda: {"d": {"a": 1}, "x": np.ones(2)},
    "del_item": lambda: {"d": {"a": 1}},
    "set_add": lambda: {"s": {2}},
    "set_update": lambda: {"s": {2, 3}, "t": {2}},
    "list_local": lambda: {"xs": [[1.0], [2.0, 3.0]]},
    "where_keyword": lambda: {"x": np.array([1.0, -1.0]), "y": np.zeros(2)},
    "place_arr": lambda: {"x": np.array([1.0, -1.0])},
    "putmask_arr": lambda: {"x": np.array([1.0, -1.0])},
}
