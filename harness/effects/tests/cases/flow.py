"""Flow-sensitive bindings around jumps, exceptions, closures, generators, defaults and nested objects."""
import collections

import numpy as np


def break_before_copy(x: np.ndarray, flag: bool):
    for i in range(3):
        y = x
        if flag:
            break
        y = x.copy()
    y[0] = 9.0


def continue_before_copy(x: np.ndarray, xs: list[np.ndarray]):
    y = x.copy()
    for v in xs:
        y = x
        if v[0] > 0:
            continue
        y = x.copy()
    y[0] = 9.0


def except_sees_prefix(x: np.ndarray, d: dict):
    y = x.copy()
    try:
        y = x
        d["missing"]
        y = x.copy()
    except KeyError:
        y[0] = 5.0


def except_in_loop_body(x: np.ndarray, d: dict):
    y = x.copy()
    try:
        for k in ("a", "missing"):
            y = x
            d[k]
            y = x.copy()
    except KeyError:
        y[0] = 5.0


def finally_after_raise(x: np.ndarray):
    y = x.copy()
    try:
        y = x
        raise ValueError("no")
    finally:
        y[0] = 3.0


def return_then_finally(x: np.ndarray):
    try:
        return 0
    finally:
        x[0] = 7.0


def while_else_alias(x: np.ndarray):
    n = 0
    while n < 2:
        n += 1
    else:
        y = x
    return y


def ifexp_alias(x: np.ndarray, flag: bool):
    y = x if flag else x.copy()
    y[0] = 4.0
    return y


def boolop_alias(x: np.ndarray, y: np.ndarray | None):
    z = y or x
    return z


def starred_target(xs: list):
    first, *rest = xs
    rest[0][...] = 0.0
    return first


def closure_rebinding(x: np.ndarray):
    y = x.copy()

    def f():
        y[0] = 2.5
    y = x
    f()


def closure_local_shadow(x: np.ndarray):
    def g():
        x = [1.0]  # a local of g
        x[0] = 2.0
        return x
    g()
    x[0] = 8.0


def _acc(v, store=[]):
    store.append(v)
    return store


def default_arg_state(x: np.ndarray):
    return _acc(x)


def gen_alias(xs: list):
    for v in xs:
        yield v


def gen_write(xs: list[np.ndarray]):
    for v in xs:
        v[0] = 6.0
        yield 1


def _rec(v, n):
    if n == 0:
        v[...] = 0.0
        return v
    return _rec(v, n - 1)


def recursion_writes(x: np.ndarray):
    _rec(x, 3)


class Node:
    def __init__(self):
        self.child = None
        self.val = None


def nested_attr(x: np.ndarray):
    a = Node()
    b = Node()
    a.child = b
    b.val = x
    a.child.val[0] = 2.75
    return a


def setdefault_chain(x: np.ndarray):
    d = {}
    d.setdefault("k", []).append(x)
    return d


def defaultdict_insert(x: np.ndarray):
    dd = collections.defaultdict(list)
    dd["k"].append(x)
    return dd


def aug_attr(x: np.ndarray):
    n = Node()
    n.val = []
    n.val += [x]
    return n


def aug_subscript(x: np.ndarray):
    d = {"k": []}
    d["k"] += [x]
    d["k"][0][0] = 2.5
    return d


def tuple_iadd(x: np.ndarray):
    t = ()
    t += (x,)
    return t


def walrus_in_comp(xs: list):
    return [y for v in xs if (y := v) is not None]


def dict_comp_values(d: dict):
    e = {k: v for k, v in d.items()}
    for v in e.values():
        v[...] = 0.0


def swap(x: np.ndarray, y: np.ndarray):
    a, b = x.copy(), y
    a, b = b, a
    a[0] = 3.5
    return b


def with_target(x: np.ndarray):
    with np.errstate(all="ignore"):
        y = x
    y[0] = 1.25


def assert_effect(xs: list):
    assert xs.pop() is not None


def lambda_default(x: np.ndarray):
    f = lambda v=x: v  # noqa: E731
    return f()


def class_attr_table(x: np.ndarray):
    _TABLE["k"] = x
    return 0


_TABLE = {}


# ---- must stay precise
def copy_on_both_paths(x: np.ndarray, flag: bool):
    if flag:
        y = x.copy()
    else:
        y = x * 2.0
    y[0] = 1.0
    return y


def loop_rebinds_fresh(x: np.ndarray, xs: list[np.ndarray]):
    out = []
    for v in xs:
        w = v.copy()
        w[0] = 0.0
        out.append(w)
    return out


def try_value(x: np.ndarray, d: dict[str, float]):
    try:
        s = d["k"]
    except KeyError:
        s = 1.0
    y = x * s
    y[0] = 0.0
    return y


EXPECT = {
    "break_before_copy": {"write": ["x"]},
    "continue_before_copy": {"write": ["x"]},
    "except_sees_prefix": {"write": ["x"]},
    "except_in_loop_body": {"write": ["x"]},
    "finally_after_raise": {"write": ["x"]},
    "return_then_finally": {"write": ["x"]},
    "while_else_alias": {"alias": ["x"]},
    "ifexp_alias": {"write": ["x"], "alias": ["x"]},
    "boolop_alias": {"alias": ["x"]},
    "starred_target": {"write": ["xs"], "alias": ["xs"]},
    "closure_rebinding": {"write": ["x"]},
    "closure_local_shadow": {"write": ["x"]},
    "default_arg_state": {"alias": ["x"]},
    "gen_alias": {"alias": ["xs"]},
    "gen_write": {"write": ["xs"]},
    "recursion_writes": {"write": ["x"]},
    "nested_attr": {"write": ["x"], "alias": ["x"]},
    "setdefault_chain": {"alias": ["x"]},
    "defaultdict_insert": {"alias": ["x"]},
    "aug_attr": {"alias": ["x"]},
    "aug_subscript": {"write": ["x"], "alias": ["x"]},
    "tuple_iadd": {"alias": ["x"]},
    "walrus_in_comp": {"alias": ["xs"]},
    "dict_comp_values": {"write": ["d"]},
    "swap": {"write": ["y"], "alias": []},
    "with_target": {"write": ["x"]},
    "assert_effect": {"write": ["xs"]},
    "lambda_default": {"alias": ["x"]},
    "class_attr_table": {},
}
EXACT = {
    "copy_on_both_paths": {"write": [], "alias": []},
    "loop_rebinds_fresh": {"write": [], "alias": []},
    "try_value": {"write": [], "alias": []},
}
ARGS = {
    "break_before_copy": lambda: {"x": np.ones(3), "flag": True},
    "continue_before_copy": lambda: {"x": np.ones(3), "xs": [np.ones(2)]},
    "except_sees_prefix": lambda: {"x": np.ones(3), "d": {}},
    "except_in_loop_body": lambda: {"x": np.ones(3), "d": {"a": 1}},
    "ifexp_alias": lambda: {"x": np.ones(3), "flag": True},
    "boolop_alias": lambda: {"x": np.ones(3), "y": None},
    "starred_target": lambda: {"xs": [np.ones(2), np.ones(2)]},
    "gen_write": lambda: {"xs": [np.ones(2)]},
    "assert_effect": lambda: {"xs": [1, 2]},
    "copy_on_both_paths": lambda: {"x": np.ones(3), "flag": False},
    "loop_rebinds_fresh": lambda: {"x": np.ones(3), "xs": [np.ones(2)]},
    "try_value": lambda: {"x": np.ones(3), "d": {"k": 2.0}},
    "dict_comp_values": lambda: {"d": {"a": np.ones(2)}},
    "swap": lambda: {"x": np.ones(3), "y": np.ones(3)},
    "class_attr_table": None,
}
