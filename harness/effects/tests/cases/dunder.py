"""A class with a special method the translator does not follow: every function of the program is `unknown`."""
import numpy as np


class Bag:
    def __init__(self):
        self.items = []

    def __iadd__(self, x):
        x[...] = 0.0
        return self


def uses_operator(x: np.ndarray):
    b = Bag()
    b += x


def unrelated(x: np.ndarray):
    return x.copy()


EXPECT = {
    "uses_operator": {"write": ["x"]},
    "unrelated": {"write": ["x"], "alias": ["x"]},  # fail closed for the whole program: stated, not precise
}
EXACT = {}
ARGS = {"unrelated": None}
