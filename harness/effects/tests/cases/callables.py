"""Lambdas, local functions and other callables that are not called directly; comprehension binding order."""
from concurrent.futures import ThreadPoolExecutor

import numpy as np


def lambda_called_later(x: np.ndarray):
    f = lambda: x.fill(0.0)  # noqa: E731
    f()


def lambda_stored_and_called(x: np.ndarray):
    fs = [lambda v: v.fill(0.0)]
    fs[0](x)


def local_func_via_map(xs: list):
    def zero(v):
        v[...] = 0.0
        return v
    return list(map(zero, xs))


def local_func_as_key(xs: list):
    def key(v):
        v[0] = -1.0
        return v[0]
    return len(sorted(xs, key=key))


def local_func_vectorize(x: np.ndarray):
    def leak(v):
        x[0] = v
        return v
    np.vectorize(leak)(np.ones(2))


def local_func_submit(x: np.ndarray):
    def work(v):
        v[...] = 0.0
    with ThreadPoolExecutor(1) as ex:
        ex.submit(work, x).result()


def local_func_executor_map(xs: list):
    def work(v):
        v[...] = 0.0
    with ThreadPoolExecutor(1) as ex:
        list(ex.map(work, xs))


def local_func_returned_alias(x: np.ndarray):
    def get():
        return x
    g = get
    return g()


def callable_param(f, x: np.ndarray):
    return f(x)


def callable_in_container(fs: list, x: np.ndarray):
    for f in fs:
        f(x)


def apply_along(x: np.ndarray):
    def zero(v):
        v[...] = 0.0
        return v
    return np.apply_along_axis(zero, 0, x)


def method_value(xs: list, x: np.ndarray):
    add = xs.append
    add(x)


# ---- comprehension binding order / scoping
def _elems(xs):
    return xs


def nested_comp(xss: list):
    return [y for xs in xss for y in _elems(xs)]


def nested_comp_write(xss: list):
    for y in [y for xs in xss for y in _elems(xs)]:
        y[...] = 0.0


def comp_condition_effect(xs: list):
    return [1 for v in xs if v.sort() is None]


def dict_comp_alias(d: dict):
    return {k: v for k, v in d.items()}


def genexp_alias(xs: list):
    return tuple(v for v in xs)


def walrus_alias(x: np.ndarray):
    if (y := x) is not None:
        y[0] = 1.0


def unbound_read(x: np.ndarray, flag: bool):
    if flag:
        y = x
    y[0] = 2.0


def loop_var_after_loop(xs: list):
    for v in xs:
        pass
    v[...] = 0.0


def global_state(x: np.ndarray):
    _CACHE.append(x)
    return _CACHE


_CACHE = []


# ---- must stay precise
def lambda_pure_key(xs: list):
    return len(sorted(xs, key=lambda v: v[0]))


def local_func_on_copy(x: np.ndarray):
    def zero(v):
        v[...] = 0.0
        return v
    return zero(x.copy())


def comp_of_copies(xss: list[list[np.ndarray]]):
    out = [y.copy() for xs in xss for y in xs]
    out[0][...] = 0.0
    return out


EXPECT = {
    "lambda_called_later": {"write": ["x"]},
    "lambda_stored_and_called": {"write": ["x"]},
    "local_func_via_map": {"write": ["xs"], "alias": ["xs"]},
    "local_func_as_key": {"write": ["xs"]},
    "local_func_vectorize": {"write": ["x"]},
    "local_func_submit": {"write": ["x"]},
    "local_func_executor_map": {"write": ["xs"]},
    "local_func_returned_alias": {"alias": ["x"]},
    "callable_param": {"write": ["x"], "alias": ["x"]},
    "callable_in_container": {"write": ["x"]},
    "apply_along": {"write": ["x"]},
    "method_value": {"write": ["xs"]},
    "nested_comp": {"alias": ["xss"]},
    "nested_comp_write": {"write": ["xss"]},
    "comp_condition_effect": {"write": ["xs"]},
    "dict_comp_alias": {"alias": ["d"]},
    "genexp_alias": {"alias": ["xs"]},
    "walrus_alias": {"write": ["x"]},
    "unbound_read": {"write": ["x"]},
    "loop_var_after_loop": {"write": ["xs"]},
    "global_state": {"alias": ["x"]},
}
EXACT = {
    "lambda_pure_key": {"write": [], "alias": []},
    "local_func_on_copy": {"write": [], "alias": []},
    "comp_of_copies": {"write": [], "alias": []},
}

ARGS = {
    "callable_param": lambda: {"f": lambda v: v.__setitem__(0, 5.0) or v, "x": np.ones(2)},
    "callable_in_container": lambda: {"fs": [lambda v: v.fill(0.0)], "x": np.ones(2)},
    "nested_comp": lambda: {"xss": [[np.ones(2)], [np.ones(3)]]},
    "nested_comp_write": lambda: {"xss": [[np.ones(2)], [np.ones(3)]]},
    "comp_of_copies": lambda: {"xss": [[np.ones(2)], [np.ones(3)]]},
    "comp_condition_effect": lambda: {"xs": [np.array([2.0, 1.0])]},
    "local_func_as_key": lambda: {"xs": [np.ones(2), np.ones(2)]},
    "unbound_read": lambda: {"x": np.ones(2), "flag": True},
    "method_value": lambda: {"xs": [], "x": np.ones(2)},
    "apply_along": lambda: {"x": np.ones((2, 2))},
    "lambda_pure_key": lambda: {"xs": [np.ones(2), np.zeros(2)]},
}


# ---- decorators that replace the function
def _zeroing(f):
    def wrapper(v):
        v[...] = 0.0
        return f(v)
    return wrapper


@_zeroing
def decorated_top(x: np.ndarray):
    return 0


@_zeroing
def _decorated_helper(v):
    return 0


def calls_decorated(x: np.ndarray):
    return _decorated_helper(x)


EXPECT.update({"decorated_top": {"write": ["x"]}, "calls_decorated": {"write": ["x"]}})
ARGS.update({"decorated_top": None})  # the wrapper renames the parameter: static only
