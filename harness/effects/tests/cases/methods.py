"""Method dispatch (subclass overrides, static-class calls, classmethods), stable tests, trusted annotations."""
import numpy as np


class Base:
    def __init__(self, data: np.ndarray):
        self.data = data.copy()

    def touch(self, x):
        return None

    def run(self, x: np.ndarray):
        self.touch(x)
        return 0

    @classmethod
    def make(cls, x: np.ndarray):
        return cls(x)

    @staticmethod
    def helper(x: np.ndarray):
        x[0] = 1.0

    @property
    def first(self):
        return self.data[0]

    def keep(self, x: np.ndarray):
        self._kept = x

    def get_kept(self):
        return self._kept


class Derived(Base):
    def __init__(self, data: np.ndarray):
        self.data = data  # no copy

    def touch(self, x):
        x[...] = 0.0


def call_static_class(x: np.ndarray):
    Base.helper(x)


def call_on_base_annotated(b: Base, x: np.ndarray):
    b.touch(x)


def duck_method(o, x: np.ndarray):
    o.touch(x)


def unknown_method(o, x: np.ndarray):
    return o.frobnicate(x)


def ctor_keeps(x: np.ndarray):
    return Derived(x)


def ctor_copies(x: np.ndarray):
    b = Base(x)
    b.data[0] = 1.0
    return b


def keep_then_get(x: np.ndarray):
    b = Base(x)
    b.keep(x)
    y = b.get_kept()
    y[0] = 3.0


# ---- stable tests
def stable_eq_mutated(xs: list, x: np.ndarray):
    if xs == []:
        y = x.copy()
    else:
        y = x
    xs.pop()
    if xs == []:
        y[0] = 7.0
    return 0


def stable_truth_mutated(xs: list, x: np.ndarray):
    if xs:
        y = x.copy()
    else:
        y = x
    xs.append(1)
    if xs:
        y[0] = 7.0
    return 0


def stable_none(x: np.ndarray, m: np.ndarray | None):
    if m is None:
        y = x.copy()
    else:
        y = x.copy()
    if m is None:
        y[0] = 1.0
    return y


def stable_none_precise(x: np.ndarray, m: np.ndarray | None):
    if m is None:
        y = x.copy()
    else:
        y = x
    if m is None:
        y[0] = 1.0
    return 0


def stable_str_literal(x: np.ndarray, mode: str):
    if mode == "copy":
        y = x.copy()
    else:
        y = x
    if mode == "copy":
        y[0] = 1.0
    return 0


# ---- annotations that lie are not the translator's problem (checked dynamically); values that the annotation does
#      not constrain must not be assumed to be arrays
def unannotated_store(box, x: np.ndarray):
    box[0] = x


def object_param_loaded(o):
    return o.data


def list_of_arrays_element(xs: list):
    v = xs[0]
    v[0] = 1.0


EXPECT = {
    "call_static_class": {"write": ["x"]},
    "call_on_base_annotated": {"write": ["x"]},
    "duck_method": {"write": ["x"]},
    "unknown_method": {"write": ["o", "x"], "alias": ["o", "x"]},
    "ctor_keeps": {"alias": ["x"]},
    "keep_then_get": {"write": ["x"]},
    "stable_eq_mutated": {"write": ["x", "xs"]},
    "stable_truth_mutated": {"write": ["x", "xs"]},
    "unannotated_store": {"write": ["box"]},
    "object_param_loaded": {"alias": ["o"]},
    "list_of_arrays_element": {"write": ["xs"]},
    "Base.run": {"write": ["x"]},
    "Base.make": {"alias": ["x"]},
    "Base.helper": {"write": ["x"]},
    "Base.keep": {"write": ["self"]},
    "Base.get_kept": {"alias": ["self"]},
    "Derived.touch": {"write": ["x"]},
    "Derived": {"alias": ["data"]},
}
EXACT = {
    "ctor_copies": {"write": [], "alias": []},
    "stable_none": {"write": [], "alias": []},
    "stable_none_precise": {"write": [], "alias": []},
    "stable_str_literal": {"write": [], "alias": []},
    "Base": {"write": [], "alias": []},
    "Base.touch": {"write": [], "alias": []},
}

ARGS = {
    "call_on_base_annotated": lambda: {"b": Derived(np.ones(2)), "x": np.ones(2)},
    "duck_method": lambda: {"o": Derived(np.ones(2)), "x": np.ones(2)},
    "unknown_method": None,
    "stable_eq_mutated": lambda: {"xs": [1], "x": np.ones(2)},
    "stable_truth_mutated": lambda: {"xs": [], "x": np.ones(2)},
    "stable_none": lambda: {"x": np.ones(2), "m": None},
    "stable_none_precise": lambda: {"x": np.ones(2), "m": None},
    "stable_str_literal": lambda: {"x": np.ones(2), "mode": "copy"},
    "unannotated_store": lambda: {"box": [None], "x": np.ones(2)},
    "object_param_loaded": lambda: {"o": Base(np.ones(2))},
    "list_of_arrays_element": lambda: {"xs": [np.zeros(2)]},
    "Base.run": lambda: {"self": Derived(np.ones(2)), "x": np.ones(2)},
    "Base.make": lambda: {"cls": Derived, "x": np.ones(2)},
    "Base.first": None,  # a scalar: nothing to observe
    "Base.keep": lambda: {"self": Base(np.ones(2)), "x": np.ones(2)},
    "Base.get_kept": None,
    "Base.touch": lambda: {"self": Base(np.ones(2)), "x": np.ones(2)},
    "Derived.touch": lambda: {"self": Derived(np.ones(2)), "x": np.ones(2)},
    "Derived": lambda: {"data": np.ones(2)},
    "Base": lambda: {"data": np.ones(2)},
}
