"""Tables that used to mark views or in-place writers as FRESH / no-write (audit list, first block)."""
import numpy as np
import numpy.lib.recfunctions as rfn
from numpy.lib import stride_tricks


def trim_zeros_view(x: np.ndarray):
    return np.trim_zeros(x)


def s2u_view(x: np.ndarray):
    return rfn.structured_to_unstructured(x)


def u2s_view(x: np.ndarray):
    return rfn.unstructured_to_structured(x, names=["a", "b"])


def merge_single_view(x: np.ndarray):
    return rfn.merge_arrays(x)


def frombuffer_view(buf):
    return np.frombuffer(buf, dtype=np.uint8)


def min_element(xs: list):
    return min(xs, key=len)


def max_element(xs: list):
    return max(xs)


def nan_to_num_inplace(x: np.ndarray):
    np.nan_to_num(x, copy=False)


def nan_to_num_inplace_result(x: np.ndarray):
    return np.nan_to_num(x, copy=False)


def vars_store(o, x: np.ndarray):
    vars(o)["k"] = x


def dict_copy_shallow(d: dict):
    e = d.copy()
    e["a"][...] = 0.0
    return e


def list_copy_shallow(xs: list):
    ys = xs.copy()
    ys[0][...] = 0.0


def setattr_stores(o, x: np.ndarray):
    setattr(o, "k", x)


def setattr_then_write(x: np.ndarray):
    class Box:
        pass
    b = Box()
    setattr(b, "k", x)
    b.k[...] = 0.0


def astype_nocopy(x: np.ndarray):
    return x.astype(np.float64, copy=False)


def asarray_view(x: np.ndarray):
    y = np.asarray(x)
    y[0] = 1.0


def views_chain(x: np.ndarray):
    return np.atleast_2d(np.ascontiguousarray(x)).reshape(-1).ravel().squeeze().T.real


def flat_write(x: np.ndarray):
    x.flat[0] = 3.0


def view_method(x: np.ndarray):
    return x.view(np.int64)


def broadcast_view(x: np.ndarray):
    return np.broadcast_to(x, (2,) + x.shape)


def strided_view(x: np.ndarray):
    return stride_tricks.sliding_window_view(x, 2)


def diagonal_view(x: np.ndarray):
    return np.diagonal(x)


def split_views(x: np.ndarray):
    return np.split(x, 2)


def array_nocopy(x: np.ndarray):
    return np.array(x, copy=False)


def require_view(x: np.ndarray):
    return np.require(x, requirements="C")


def nditer_write(x: np.ndarray):
    with np.nditer(x, op_flags=["readwrite"]) as it:
        for v in it:
            v[...] = 0.0


def diff_n0(x: np.ndarray):
    return np.diff(x, n=0)


def median_overwrite(x: np.ndarray):
    return np.median(x, overwrite_input=True)


def object_array_store(xs: list):
    a = np.empty(1, dtype=object)
    a[0] = xs
    return a


def unknown_function(x: np.ndarray):
    import scipy_like_thing
    return scipy_like_thing.process(x)


# ---- must stay precise
def copy_then_write(x: np.ndarray):
    x = x.copy()
    x[0] = 1.0
    return x


def arithmetic_fresh(x: np.ndarray, y: np.ndarray):
    z = x + y
    z[0] = 0.0
    return np.clip(z, 0, 1)


def astype_copy(x: np.ndarray):
    y = x.astype(np.float32)
    y[0] = 0
    return y


def pad_where(x: np.ndarray, mask: np.ndarray):
    y = np.pad(x, 1)
    return np.where(np.isnan(y), 0.0, y)


def trim_zeros_copy(x: np.ndarray):
    y = np.trim_zeros(x).copy()
    y[...] = 1.0
    return y


EXPECT = {
    "trim_zeros_view": {"alias": ["x"]},
    "s2u_view": {"alias": ["x"]},
    "u2s_view": {"alias": ["x"]},
    "merge_single_view": {"alias": ["x"]},
    "frombuffer_view": {"alias": ["buf"]},
    "min_element": {"alias": ["xs"]},
    "max_element": {"alias": ["xs"]},
    "nan_to_num_inplace": {"write": ["x"]},
    "nan_to_num_inplace_result": {"write": ["x"], "alias": ["x"]},
    "vars_store": {"write": ["o"]},
    "dict_copy_shallow": {"write": ["d"], "alias": ["d"]},
    "list_copy_shallow": {"write": ["xs"]},
    "setattr_stores": {"write": ["o"]},
    "setattr_then_write": {"write": ["x"]},
    "astype_nocopy": {"alias": ["x"]},
    "asarray_view": {"write": ["x"]},
    "views_chain": {"alias": ["x"]},
    "flat_write": {"write": ["x"]},
    "view_method": {"alias": ["x"]},
    "broadcast_view": {"alias": ["x"]},
    "strided_view": {"alias": ["x"]},
    "diagonal_view": {"alias": ["x"]},
    "split_views": {"alias": ["x"]},
    "array_nocopy": {"alias": ["x"]},
    "require_view": {"alias": ["x"]},
    "nditer_write": {"write": ["x"]},
    "diff_n0": {"alias": ["x"]},
    "median_overwrite": {"write": ["x"]},
    "object_array_store": {"alias": ["xs"]},
    "unknown_function": {"write": ["x"], "alias": ["x"]},
}
EXACT = {
    "copy_then_write": {"write": [], "alias": []},
    "arithmetic_fresh": {"write": [], "alias": []},
    "astype_copy": {"write": [], "alias": []},
    "pad_where": {"write": [], "alias": []},
    "trim_zeros_copy": {"write": [], "alias": []},
}


class _O:
    pass


def _st():
    s = np.zeros(4, dtype=[("a", "f8"), ("b", "f8")])
    s["a"] = 1.0
    return s


ARGS = {
    "trim_zeros_view": lambda: {"x": np.array([0.0, 1.0, 2.0, 0.0])},
    "s2u_view": lambda: {"x": _st()},
    "u2s_view": lambda: {"x": np.ones((3, 2))},
    "merge_single_view": lambda: {"x": _st()},
    "frombuffer_view": lambda: {"buf": bytearray(b"abcd")},
    "min_element": lambda: {"xs": [[1.0, 2.0], [3.0]]},
    "max_element": lambda: {"xs": [[1.0, 2.0], [3.0]]},
    "nan_to_num_inplace": lambda: {"x": np.array([np.nan, 1.0])},
    "nan_to_num_inplace_result": lambda: {"x": np.array([np.nan, 1.0])},
    "vars_store": lambda: {"o": _O(), "x": np.ones(3)},
    "dict_copy_shallow": lambda: {"d": {"a": np.ones(3)}},
    "list_copy_shallow": lambda: {"xs": [np.ones(3)]},
    "setattr_stores": lambda: {"o": _O(), "x": np.ones(3)},
    "diagonal_view": lambda: {"x": np.ones((3, 3))},
    "split_views": lambda: {"x": np.ones(4)},
    "object_array_store": lambda: {"xs": [1.0]},
    "unknown_function": None,  # cannot run (no such module): static only
    "pad_where": lambda: {"x": np.array([1.0, np.nan]), "mask": np.array([True, False])},
    "trim_zeros_copy": lambda: {"x": np.array([0.0, 1.0, 2.0, 0.0])},
    "diff_n0": lambda: {"x": np.ones(4)},
}
