"""Containers aliased by several names; shallow constructors; `+=`; by-reference parameter passing; temp receivers."""
import itertools

import numpy as np


def alias_append(x: np.ndarray):
    out = []
    tmp = out
    tmp.append(x)
    out[0][...] = 0
    return out


def alias_dict(x: np.ndarray):
    d = {}
    e = d
    e["a"] = x
    return d


def nested_then_absorb(x: np.ndarray):
    inner = []
    box = [inner]
    inner.append(x)
    box[0][0][...] = 0.0
    return box


def alias_through_attr(x: np.ndarray):
    class Box:
        pass
    b = Box()
    b.items = []
    lst = b.items
    lst.append(x)
    return b


def iadd_name(xs: list):
    acc = []
    acc += xs
    acc[0][...] = 0.0
    return acc


def iadd_param(acc: list, xs: list):
    acc += xs


def concat_names(xs: list, ys: list):
    zs = xs + ys
    zs[0][...] = 0.0
    return zs


def repeat_list(xs: list):
    ys = xs * 2
    return ys


def slice_container(xs: list):
    ys = xs[:]
    ys[0][...] = 0.0
    return ys


def list_ctor(xs: list):
    ys = list(xs)
    ys[0][...] = 0.0


def tuple_ctor(xs: list):
    return tuple(xs)


def dict_ctor(d: dict):
    e = dict(d)
    e["a"][...] = 5.0
    return e


def sorted_shallow(xs: list):
    ys = sorted(xs, key=len)
    ys[0][...] = 0.0
    return ys


def reversed_shallow(xs: list):
    for v in reversed(xs):
        v[...] = 0.0


def zip_shallow(xs: list, ys: list):
    pairs = list(zip(xs, ys))
    pairs[0][1][...] = 0.0
    return pairs


def zip_nested_lists(x: np.ndarray, z: np.ndarray):
    a = [[x]]
    pairs = list(zip(a, a))
    pairs[0][0].append(z)
    return a


def enumerate_shallow(xs: list):
    for i, v in enumerate(xs):
        v[...] = i


def map_shallow(xs: list):
    return list(map(np.asarray, xs))


def filter_shallow(xs: list):
    return list(filter(None, xs))


def chain_shallow(xs: list, ys: list):
    for v in itertools.chain(xs, ys):
        v[...] = 0.0


def product_shallow(xs: list):
    return list(itertools.product(xs, repeat=2))


def sum_lists(xss: list):
    flat = sum(xss, [])
    flat[0][...] = 0.0
    return flat


def starred_list(xs: list):
    ys = [*xs]
    ys[0][...] = 0.0


def dict_unpack(d: dict):
    e = {**d}
    return e


def dict_values_view(d: dict):
    for v in d.values():
        v[...] = 0.0


def dict_items_view(d: dict):
    for k, v in d.items():
        v[...] = 0.0


# ---- by-reference parameter passing
def _put(lst, x):
    lst = lst if lst is not None else []
    lst.append(x)


def byref_rebound_param(x: np.ndarray):
    box = [[]]
    _put(box[0], x)
    box[0][0][...] = 0
    return box


def _put_plain(lst, x):
    lst.append(x)


def byref_subscript_arg(x: np.ndarray):
    box = [[]]
    _put_plain(box[0], x)
    return box


def byref_name_arg(x: np.ndarray):
    out = []
    _put(out, x)
    out[0][...] = 0.0
    return out


def _ret_same(v):
    return v


def byref_result(x: np.ndarray):
    out = []
    same = _ret_same(out)
    same.append(x)
    return out


# ---- inlined methods on temp-bound receivers
class Holder:
    def __init__(self):
        self.items = []

    def add(self, v):
        self.items.append(v)

    def first(self):
        return self.items[0]


def temp_receiver(x: np.ndarray):
    hs = [Holder()]
    hs[0].add(x)
    hs[0].first()[...] = 0.0
    return hs


def temp_receiver_ctor(x: np.ndarray):
    h = Holder()
    [h][0].add(x)
    return h


def loop_receiver(xs: list):
    hs = [Holder(), Holder()]
    for h in hs:
        h.add(xs)
    return hs[1].first()


# ---- the result is stored INTO an argument (the argument then shares it)
def result_stored_in_arg(d: dict):
    r = np.zeros(2)
    d["k"] = r
    return r


def result_appended_to_arg(xs: list, x: np.ndarray):
    y = x.copy()
    xs.append(y)
    return y[1:]


def arg_holds_part_of_other_arg(xs: list, d: dict):
    xs += [d["a"]]
    return d


# ---- must stay precise
def fresh_container_of_param(x: np.ndarray):
    out = []
    out.append(x)
    out.append(1)
    out.pop()
    return len(out)


def fresh_container_own_slots(x: np.ndarray):
    d = {"a": x}
    d["b"] = 3
    del d["b"]
    return len(d)


def copies_of_untyped_items(xs: list):
    out = [v.copy() for v in xs]  # items of unknown type: `.copy()` may be a shallow list / dict copy
    return out


def copies_in_container(xs: list[np.ndarray]):
    out = [v.copy() for v in xs]
    out[0][...] = 0.0
    return out


def local_holder(x: np.ndarray):
    h = Holder()
    h.add(x.copy())
    h.first()[...] = 0.0
    return h


EXPECT = {
    "alias_append": {"write": ["x"], "alias": ["x"]},
    "alias_dict": {"alias": ["x"]},
    "nested_then_absorb": {"write": ["x"], "alias": ["x"]},
    "alias_through_attr": {"alias": ["x"]},
    "iadd_name": {"write": ["xs"], "alias": ["xs"]},
    "iadd_param": {"write": ["acc"]},
    "concat_names": {"write": ["xs"], "alias": ["xs", "ys"]},
    "repeat_list": {"alias": ["xs"]},
    "slice_container": {"write": ["xs"], "alias": ["xs"]},
    "list_ctor": {"write": ["xs"]},
    "tuple_ctor": {"alias": ["xs"]},
    "dict_ctor": {"write": ["d"], "alias": ["d"]},
    "sorted_shallow": {"write": ["xs"], "alias": ["xs"]},
    "reversed_shallow": {"write": ["xs"]},
    "zip_shallow": {"write": ["ys"], "alias": ["xs", "ys"]},
    "zip_nested_lists": {"alias": ["x", "z"]},
    "enumerate_shallow": {"write": ["xs"]},
    "map_shallow": {"alias": ["xs"]},
    "filter_shallow": {"alias": ["xs"]},
    "chain_shallow": {"write": ["xs", "ys"]},
    "product_shallow": {"alias": ["xs"]},
    "sum_lists": {"write": ["xss"], "alias": ["xss"]},
    "starred_list": {"write": ["xs"]},
    "dict_unpack": {"alias": ["d"]},
    "dict_values_view": {"write": ["d"]},
    "dict_items_view": {"write": ["d"]},
    "byref_rebound_param": {"write": ["x"], "alias": ["x"]},
    "byref_subscript_arg": {"alias": ["x"]},
    "byref_name_arg": {"write": ["x"], "alias": ["x"]},
    "byref_result": {"alias": ["x"]},
    "temp_receiver": {"write": ["x"], "alias": ["x"]},
    "temp_receiver_ctor": {"alias": ["x"]},
    "loop_receiver": {"alias": ["xs"]},
    "copies_of_untyped_items": {"alias": ["xs"]},
    "result_stored_in_arg": {"write": ["d"], "alias": ["d"]},
    "result_appended_to_arg": {"write": ["xs"], "alias": ["xs"]},
    "arg_holds_part_of_other_arg": {"write": ["xs"], "alias": ["d", "xs"]},
}
EXACT = {
    "fresh_container_of_param": {"write": [], "alias": []},
    "fresh_container_own_slots": {"write": [], "alias": []},
    "copies_in_container": {"write": [], "alias": []},
    "local_holder": {"write": [], "alias": []},
}

_l = lambda: [np.ones(2), np.ones(3)]  # noqa: E731
ARGS = {
    "copies_of_untyped_items": lambda: {"xs": [[np.ones(2)]]},
    "iadd_param": lambda: {"acc": [1], "xs": [2]},
    "sum_lists": lambda: {"xss": [[np.ones(2)], [np.ones(3)]]},
    "zip_nested_lists": lambda: {"x": np.ones(2), "z": np.ones(2)},
    "filter_shallow": lambda: {"xs": [[1], [2]]},
}


# ---- dict built from pairs: it holds the elements of the pairs
def dict_from_zip(xs: list):
    a = dict(zip("ab", xs))["a"]
    a[...] = 2.5


def dict_update_pairs(xs: list):
    e = {}
    e.update(zip("ab", xs))
    return e


def dict_ior_pairs(xs: list):
    e = {}
    e |= [("a", xs[0])]
    e["a"][...] = 3.5


EXPECT.update({"dict_from_zip": {"write": ["xs"]}, "dict_update_pairs": {"alias": ["xs"]}, "dict_ior_pairs": {"write": ["xs"]}})
