"""Call histories on one object (translate_history): a constructor / classmethod / setter that keeps a caller-owned
container, combined with a method that later writes into what the object holds.  No single call changes its own
argument; the violation is `construct; method`.  HISTORY maps "Class" / "Class.classmethod" to the parameters of the
history program ("Owner(param)", Owner = Class, Class.classmethod or Class.method) that the analysis must report
(EXPECT: at least) / report exactly (EXACT), and to one concrete history that is run with identity-aware snapshots."""
import numpy as np

EXPECT = {}
EXACT = {}


class KeepsList:
    """the seeded shape: the list is kept when it already is one; the mutator assigns into its slots"""

    def __init__(self, layers: list[np.ndarray]):
        self.layers = layers if isinstance(layers, list) else list(layers)

    def grow(self, extra: np.ndarray):
        for i in range(len(self.layers)):
            self.layers[i] = np.concatenate([self.layers[i], extra])

    def total(self):
        return sum(float(x.sum()) for x in self.layers)


class CopiesList:
    """`list(layers)`: the slots are the object's own, the arrays are still the caller's (and never written)"""

    def __init__(self, layers: list[np.ndarray]):
        self.layers = list(layers)

    def grow(self, extra: np.ndarray):
        for i in range(len(self.layers)):
            self.layers[i] = np.concatenate([self.layers[i], extra])


class CopiesListWritesArrays:
    """a private list of the CALLER's arrays, written in place later"""

    def __init__(self, layers: list[np.ndarray]):
        self.layers = list(layers)

    def zero(self):
        for x in self.layers:
            x[...] = 0.0


class KeepsArrayRebinds:
    """`Laser(arr).data is arr`, but the mutator REPLACES the field by a new array: quiet"""

    def __init__(self, data: np.ndarray):
        self.data = data

    def add(self, more: np.ndarray):
        new = np.empty(self.data.size + more.size)
        new[: self.data.size] = self.data
        new[self.data.size:] = more
        self.data = new


class KeepsArrayWrites:
    def __init__(self, data: np.ndarray):
        self.data = data

    def scale(self, k: float):
        self.data *= k


class SetterKeeps:
    """kept by a setter (third call writes): construct; setter; method"""

    def __init__(self):
        self._table = np.zeros(2)

    @property
    def table(self):
        return self._table

    @table.setter
    def table(self, table: np.ndarray):
        self._table = np.asarray(table)

    def clear(self):
        self._table[...] = 0.0


class SetterCopies:
    def __init__(self):
        self._table = np.zeros(2)

    @property
    def table(self):
        return self._table

    @table.setter
    def table(self, table: np.ndarray):
        self._table = np.array(table)

    def clear(self):
        self._table[...] = 0.0


class KeepsDict:
    def __init__(self, info: dict[str, str] | None = None):
        self.info = info or {}

    def note(self, key: str, value: str):
        self.info[key] = value

    @classmethod
    def build(cls, info: dict[str, str]):
        return cls(info)

    @classmethod
    def build_copy(cls, info: dict[str, str]):
        return cls(dict(info))


class MethodKeepsLaterWrites:
    """kept by one method, written by another"""

    def __init__(self):
        self.items = []

    def remember(self, x: np.ndarray):
        self.items.append(x)

    def wipe(self):
        for x in self.items:
            x[...] = 0.0


class SubKeeps(CopiesList):
    """the subclass's constructor keeps; the inherited mutator writes (dispatch on the exact class)"""

    def __init__(self, layers: list[np.ndarray]):
        self.layers = layers


def _arrs():
    return [np.arange(3.0), np.arange(3.0) + 10.0]


HISTORY = {
    "KeepsList": {"expect": ["KeepsList(layers)"], "run": (lambda: {"layers": _arrs()}, [("grow", lambda: {"extra": np.ones(2)})])},
    "CopiesList": {"exact": [], "run": (lambda: {"layers": _arrs()}, [("grow", lambda: {"extra": np.ones(2)})])},
    "CopiesListWritesArrays": {"expect": ["CopiesListWritesArrays(layers)"], "run": (lambda: {"layers": _arrs()}, [("zero", lambda: {})])},
    "KeepsArrayRebinds": {"exact": [], "run": (lambda: {"data": np.arange(4.0)}, [("add", lambda: {"more": np.ones(2)})])},
    "KeepsArrayWrites": {"expect": ["KeepsArrayWrites(data)"], "run": (lambda: {"data": np.arange(4.0)}, [("scale", lambda: {"k": 2.0})])},
    "SetterKeeps": {"expect": ["SetterKeeps.table.setter(table)"],
                    "run": (lambda: {}, [("table.setter", lambda: {"table": np.arange(2.0) + 1}), ("clear", lambda: {})])},
    "SetterCopies": {"exact": [], "run": (lambda: {}, [("table.setter", lambda: {"table": np.arange(2.0) + 1}), ("clear", lambda: {})])},
    "KeepsDict": {"expect": ["KeepsDict(info)"], "run": (lambda: {"info": {"a": "b"}}, [("note", lambda: {"key": "k", "value": "v"})])},
    "KeepsDict.build": {"expect": ["KeepsDict.build(info)"], "run": (lambda: {"info": {"a": "b"}}, [("note", lambda: {"key": "k", "value": "v"})])},
    "KeepsDict.build_copy": {"exact": [], "run": (lambda: {"info": {"a": "b"}}, [("note", lambda: {"key": "k", "value": "v"})])},
    "MethodKeepsLaterWrites": {"expect": ["MethodKeepsLaterWrites.remember(x)"],
                               "run": (lambda: {}, [("remember", lambda: {"x": np.arange(3.0)}), ("wipe", lambda: {})])},
    "SubKeeps": {"expect": ["SubKeeps(layers)"], "run": (lambda: {"layers": _arrs()}, [("grow", lambda: {"extra": np.ones(2)})])},
}
