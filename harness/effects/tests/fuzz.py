"""Development tool (NOT part of `./check`): differential fuzzing of the C19 translator.

Random small Python functions over arrays, lists, dicts, objects, closures and helper calls are generated from a
grammar, translated by the real translator, analysed by the real Lean driver op, and RUN; every observed change of an
argument / sharing between result and argument must have been predicted.  A finding is a soundness bug of
harness/effects/translate.py (or of its tables): fix it and add the construct to harness/effects/tests/cases/.

    /venv/bin/python -m harness.effects.tests.fuzz <first seed> <last seed (exclusive)> <functions per seed>

The generated module lives in a private temporary directory that is removed at the end."""
import importlib.util
import random
import shutil
import sys
import tempfile
from pathlib import Path

import numpy as np

from harness import core
from harness.effects import observe
from harness.effects import translate as T

ROOT = None  # set in __main__
HELPERS = '''
import numpy as np
import copy


class Box:
    def __init__(self, v=None):
        self.v = v
        self.items = []

    def put(self, w):
        self.items.append(w)
        return self

    def get(self):
        return self.items[0]

    def setv(self, w):
        self.v = w


def _store(l, v):
    l.append(v)


def _first(l):
    return l[0]


def _ident(v):
    return v


def _maybe(v, flag):
    if flag:
        return v
    return v.copy()


def _swap(p, q):
    return q, p
'''

ARR = ["x", "y", "a", "b"]
LST = ["xs", "l", "m"]
OBJ = ["o", "p"]
DCT = ["d", "e"]


def expr_arr(r):
    v = r.choice(ARR)
    k = r.random()
    forms = [v, f"{v}.copy()", f"{v}[1:]", f"{v}.reshape(-1)", f"np.asarray({v})", f"{v}.T", f"np.sort({v})", f"{v} + 1.0",
             f"_ident({v})", f"_maybe({v}, flag)", f"{r.choice(LST)}[0]", f"{r.choice(DCT)}['k']", f"{r.choice(OBJ)}.v",
             f"{r.choice(OBJ)}.get()", f"_first({r.choice(LST)})", f"np.atleast_1d({v})", f"{v}.astype(float, copy=False)",
             f"({v} if flag else {r.choice(ARR)})", f"np.nan_to_num({v}, copy=False)", f"min([{v}, {r.choice(ARR)}], key=len)",
             f"{v}.view()", f"np.ravel({v})", f"{v}.astype(float)", f"(lambda w: w)({v})", f"g({v})", f"h()",
             f"next(iter({r.choice(LST)}))", f"np.split({v}, 1)[0]", f"np.atleast_2d({v})[0]", f"max({r.choice(LST)}, key=len)",
             f"[w for w in {r.choice(LST)}][0]", f"dict(zip('ab', {r.choice(LST)}))['a']", f"copy.copy({r.choice(OBJ)}).v",
             f"(*{r.choice(LST)},)[0]", f"np.trim_zeros({v})", f"np.frombuffer({v}, dtype=float)", f"{v}.squeeze()",
             f"sum([{v}], 0.0)", f"np.broadcast_to({v}, (2,) + {v}.shape)[0]"]
    return r.choice(forms)


def expr_lst(r):
    l = r.choice(LST)
    forms = [l, f"list({l})", f"{l}[:]", f"[{expr_arr(r)}, {expr_arr(r)}]", f"{l} + [{expr_arr(r)}]", f"sorted({l}, key=len)",
             f"[v for v in {l}]", f"[v.copy() for v in {l}]", f"{r.choice(OBJ)}.items", f"list({r.choice(DCT)}.values())",
             f"{l} * 2", f"list(reversed({l}))", f"[w for w, _ in zip({l}, {r.choice(LST)})]", f"copy.copy({l})", f"{l}.copy()",
             f"list(map(_ident, {l}))", f"list(map(lambda w: w[1:], {l}))", f"[*{l}, {expr_arr(r)}]", f"list(filter(None, {l}))",
             f"list(dict.fromkeys(range(2), {expr_arr(r)}).values())", f"sorted({l}, key=lambda w: w[0])",
             f"[w for w in {l} if w is not None]", f"list(zip({l}, {l}))[0]", f"[{r.choice(OBJ)}.v]", f"list({r.choice(OBJ)}.items)",
             f"[k for k in [{l}]][0]", f"{l}[::-1]", f"list(np.split({r.choice(ARR)}, 1))"]
    return r.choice(forms)


def stmt(r, depth=0):
    k = r.random()
    ind = "    " * (depth + 1)
    if k < 0.22:
        return [f"{ind}{r.choice(['a', 'b'])} = {expr_arr(r)}"]
    if k < 0.34:
        return [f"{ind}{r.choice(['l', 'm'])} = {expr_lst(r)}"]
    if k < 0.44:
        v = r.choice(["a", "b"])
        return [ind + r.choice([f"{v}[0] = 7.5", f"{v}[...] = 2.5", f"{v} += 1.5", f"np.add({v}, 1.0, out={v})", f"{v}.sort()",
                                f"{v}.fill(3.25)", f"np.negative({v}, {v})", f"{v}.T[0] = 4.5"])]
    if k < 0.54:
        l = r.choice(["l", "m"])
        return [ind + r.choice([f"{l}.append({expr_arr(r)})", f"{l} += [{expr_arr(r)}]", f"_store({l}, {expr_arr(r)})",
                                f"{l}.extend({expr_lst(r)})", f"{l}[0] = {expr_arr(r)}", f"{l}.insert(0, {expr_arr(r)})",
                                f"{l}[0][0] = 6.5", f"{l}.reverse()", f"{l}.pop()"])]
    if k < 0.62:
        o = r.choice(OBJ)
        return [ind + r.choice([f"{o}.v = {expr_arr(r)}", f"{o}.put({expr_arr(r)})", f"{o}.setv({expr_arr(r)})",
                                f"{o}.items = {expr_lst(r)}", f"{o}.v[0] = 5.5", f"{o} = Box({expr_arr(r)})",
                                f"{o}.get()[0] = 8.5", f"{o} = {r.choice(OBJ)}", f"setattr({o}, 'v', {expr_arr(r)})"])]
    if k < 0.70:
        d = r.choice(["e"])
        return [ind + r.choice([f"{d}['k'] = {expr_arr(r)}", f"{d} = {{'k': {expr_arr(r)}}}", f"{d} = dict(d)", f"{d} = d",
                                f"{d}['k'][0] = 1.25", f"{d}.update({r.choice(DCT)})", f"{d}.setdefault('z', {expr_arr(r)})"])]
    if k < 0.78 and depth < 2:
        return [f"{ind}if flag:"] + stmt(r, depth + 1) + [f"{ind}else:"] + stmt(r, depth + 1)
    if k < 0.86 and depth < 2:
        return [f"{ind}for a in list({r.choice(LST)})[:3]:"] + stmt(r, depth + 1) + (stmt(r, depth + 1) if r.random() < 0.5 else [])
    if k < 0.90 and depth < 2:
        return [f"{ind}try:"] + stmt(r, depth + 1) + stmt(r, depth + 1) + [f"{ind}except Exception:"] + stmt(r, depth + 1)
    if k < 0.94:
        return [f"{ind}a, b = _swap(a, b)"]
    if k < 0.97 and depth > 0:
        return [ind + r.choice(["continue", "break"])] if depth > 0 else [f"{ind}pass"]
    return [f"{ind}l, m = m, l"]


def gen_function(r, i):
    lines = [f"def f{i}(x: np.ndarray, y: np.ndarray, xs: list, d: dict, flag: bool):",
             "    a = x.copy()", "    b = y.copy()", "    l = []", "    m = [x.copy()]", "    o = Box(x.copy())", "    p = Box()",
             "    e = {'k': y.copy()}", "", "    def g(w):", "        l.append(w)", "        return w[:]", "",
             "    def h():", "        return b", ""]
    # loops use `a` as target; `continue/break` only valid inside loops: filter later by compile
    for _ in range(r.randint(3, 9)):
        lines += stmt(r)
    ret = r.choice([expr_arr(r), expr_lst(r), r.choice(OBJ), r.choice(DCT), "None", f"({expr_arr(r)}, {expr_lst(r)})"])
    lines.append(f"    return {ret}")
    return "\n".join(lines)


def main(seed, n):
    r = random.Random(seed)
    srcs = []
    while len(srcs) < n:
        s = gen_function(r, len(srcs))
        try:
            compile(s, "<f>", "exec")
        except SyntaxError:
            continue
        srcs.append(s)
    (ROOT / "cases" / "fz.py").write_text(HELPERS + "\n\n" + "\n\n\n".join(srcs) + "\n")
    spec = importlib.util.spec_from_file_location("fz", ROOT / "cases" / "fz.py")
    mod = importlib.util.module_from_spec(spec)
    spec.loader.exec_module(mod)
    res = {f["name"].split(".")[-1]: f for f in T.translate_all(ROOT, modules=["cases.fz"], src="")}
    d = core.Driver()
    bad = 0
    stats = {"w": 0, "r": 0, "raised": 0}
    np.seterr(all="ignore")
    for i in range(n):
        f = res[f"f{i}"]
        rep = d.call("c19.analyse", np=f["np"], prog=f["ir"])
        w = {f["params"][j] for j in rep["write"]}
        rr = {f["params"][j] for j in rep["ret"]}
        for flag in (True, False):
            args = {"x": np.array([1.0, 2.0, 3.0]), "y": np.array([4.0, 5.0, 6.0]),
                    "xs": [np.array([7.0, 8.0]), np.array([9.0, 10.0, 11.0])], "d": {"k": np.array([12.0, 13.0])}, "flag": flag}
            before = {k: observe.snap(v) for k, v in args.items()}
            try:
                out = getattr(mod, f"f{i}")(**args)
            except Exception:
                out = None
                stats["raised"] += 1
            changed = {k for k in args if observe.snap(args[k]) != before[k]}
            aliased = {k for k, v in args.items() if out is not None and k != "flag" and observe.shares(out, v)}
            stats["w"] += bool(changed); stats["r"] += bool(aliased)
            if changed - w or aliased - rr:
                bad += 1
                print(f"UNSOUND f{i} flag={flag}: changed {sorted(changed)} predicted {sorted(w)}; aliased {sorted(aliased)} predicted {sorted(rr)}")
                print(srcs[i]); print(f["diag"][:3])
                break
    d.close()
    print(f"seed {seed}: {n} functions, {bad} unsound, stats {stats}")
    return bad


if __name__ == "__main__":
    ROOT = Path(tempfile.mkdtemp(prefix="c19fuzz-", dir="/var/tmp"))
    (ROOT / "cases").mkdir()
    (ROOT / "cases" / "__init__.py").write_text("")
    tot = 0
    try:
        for s in range(int(sys.argv[1]), int(sys.argv[2])):
            tot += main(s, int(sys.argv[3]))
    finally:
        shutil.rmtree(ROOT, ignore_errors=True)
    print("TOTAL UNSOUND", tot)
    sys.exit(1 if tot else 0)
