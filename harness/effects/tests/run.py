"""Soundness / precision regression cases for the Python -> effect-IR translator (C19).

Every module under `cases/` holds small synthetic functions using one construct each, with
    EXPECT = {function: {"write": [...], "alias": [...]}}   the analysis must report AT LEAST these parameters
    EXACT  = {function: {"write": [...], "alias": [...]}}   the analysis must report EXACTLY these (precision)
    ARGS   = {function: lambda: {param: value} | None}      arguments for the dynamic confirmation (None: static only)
The functions are translated by the real translator and analysed by the real Lean driver op (`c19.analyse`), i.e. the
same path as the inventoried pewlib functions.  Where arguments are available the function is also RUN, with the
snapshot / sharing observers of the C19 harness: every expected effect must really happen (the table is not
imaginary) and every observed effect must be predicted by the analysis.

Run alone:  /venv/bin/python -m harness.effects.tests.run   (from the framework root; exit 1 on any failure)
"""
import importlib.util
import sys
from pathlib import Path

import numpy as np

from harness.effects import observe
from harness.effects import translate as T

HERE = Path(__file__).resolve().parent
_CACHE = {}


class _Obj:
    pass


def default_arg(name):
    if name in ("x", "y", "z", "dst", "src", "data"):
        return np.array([1.5, -2.0, 3.0, 0.25])
    if name in ("xs", "ys"):
        return [np.ones(2), np.ones(3)]
    if name in ("d", "e"):
        return {"a": np.ones(2)}
    if name in ("s", "t"):
        return {1, 2}
    if name in ("o", "box"):
        return _Obj()
    if name == "flag":
        return True
    if name == "mask":
        return np.array([True, False])
    raise KeyError(name)


def modules():
    return sorted(p.stem for p in (HERE / "cases").glob("*.py") if p.stem != "__init__")


def load():
    """{case id: {"ir":…, "np":…, "params":…, "expect":…, "exact":…, "args":…, "callable":…}}"""
    if _CACHE:
        return _CACHE
    for m in modules():
        spec = importlib.util.spec_from_file_location(f"c19cases_{m}", HERE / "cases" / f"{m}.py")
        mod = importlib.util.module_from_spec(spec)
        spec.loader.exec_module(mod)
        for f in T.translate_all(HERE, modules=[f"cases.{m}"], src=""):
            short = f["name"][len(f"cases.{m}."):]
            exp, exa = mod.EXPECT.get(short), mod.EXACT.get(short)
            if exp is None and exa is None:
                continue  # helpers
            _CACHE[f"{m}.{short}"] = dict(f, short=short, module=mod, expect=exp, exact=exa,
                                          args=getattr(mod, "ARGS", {}).get(short, "default"))
        missing = [k for k in list(mod.EXPECT) + list(mod.EXACT) if f"{m}.{k}" not in _CACHE]
        if missing:
            raise RuntimeError(f"regression cases without a translated function in {m}: {missing}")
        if hasattr(mod, "HISTORY"):  # call histories on one object: one history program per (class, producer)
            prog = T.Program(HERE, [f"cases.{m}"], "")
            tr = T.Translator(prog)
            tr.infer_plain_fields()
            for h in T.histories(prog, tr, modules=[f"cases.{m}"]):
                short = h["producer"][len(f"cases.{m}."):]
                if short in mod.HISTORY:
                    _CACHE[f"{m}.history:{short}"] = dict(h, short=short, module=mod, history=mod.HISTORY[short], prefix=f"cases.{m}.")
            missing = [k for k in mod.HISTORY if f"{m}.history:{k}" not in _CACHE]
            if missing:
                raise RuntimeError(f"history regression cases without a history program in {m}: {missing}")
    return _CACHE


def check_history(cid, case, driver):
    """the history program of one (class, producer): what the analysis reports, and one real history with snapshots of
    values AND slot identities of everything the caller passed"""
    rep = driver.call("c19.history", np=case["np"], ctor=case["ctor"], methods=case["methods"])
    labels = [f"{o[len(case['prefix']):]}({n})" for o, n in case["params"]]
    got = sorted({labels[i] for i in rep["write"]}) if not rep["top"] else sorted(labels)
    spec, fails = case["history"], []
    if "expect" in spec and set(spec["expect"]) - set(got):
        fails.append(f"UNSOUND {cid}: history analysis reports {got}, missing {sorted(set(spec['expect']) - set(got))}")
    if "exact" in spec and got != sorted(spec["exact"]):
        fails.append(f"IMPRECISE {cid}: history analysis reports {got}, expected exactly {sorted(spec['exact'])}")
    ctor_args, calls = spec["run"]
    mod, parts = case["module"], case["short"].split(".")
    owned = []

    def keep(owner, args):
        for k, v in args.items():
            owned.append((f"{owner}({k})", v, observe.snap(v), observe.inner_snapshot(v), observe.identity_snapshot(v)))
    a = ctor_args()
    keep(case["short"], a)
    cls = getattr(mod, parts[0])
    obj = cls(**a) if len(parts) == 1 else getattr(cls, parts[1])(**a)
    for name, mk in calls:
        a = mk()
        definer = next(k.__name__ for k in type(obj).__mro__ if name.split(".")[0] in vars(k))  # ordinary dispatch
        keep(f"{definer}.{name}", a)
        try:
            if name.endswith(".setter"):
                (val,) = a.values()
                setattr(obj, name.split(".")[0], val)
            else:
                getattr(obj, name)(**a)
        except Exception:
            pass
    changed = sorted({lab for lab, v, deep, inner, ident in owned
                      if observe.snap(v) != deep or observe.inner_changed(inner) or observe.identity_changed(ident)})
    if "expect" in spec and not set(spec["expect"]) <= set(changed):
        fails.append(f"CASE {cid}: expected effect not observed when the history is run: changed {changed}")
    if not set(changed) <= set(got):
        fails.append(f"UNSOUND {cid}: observed when the history is run but not predicted: {changed} (predicted {got})")
    return fails


def static_verdict(case, driver):
    rep = driver.call("c19.analyse", np=case["np"], prog=case["ir"])
    return (sorted({case["params"][i] for i in rep["write"]}), sorted({case["params"][i] for i in rep["ret"]}))


def dynamic_verdict(case):
    """(changed params, aliased params) of one real call, or None when the case is static-only"""
    if case["args"] is None:
        return None
    try:
        args = case["args"]() if callable(case["args"]) else {p: default_arg(p) for p in case["params"]}
    except KeyError as e:
        raise RuntimeError(f"no arguments for regression case {case['name']}: {e}")
    mod, parts = case["module"], case["short"].split(".")
    before = {k: observe.snap(v) for k, v in args.items()}
    kw = dict(args)
    try:
        res = _invoke(case, mod, parts, kw)
        if hasattr(res, "__next__") and hasattr(res, "send"):  # a generator: its body runs when iterated
            res = list(res)
    except Exception:  # the call may fail: what it did to its arguments before that counts
        res = None
    changed = sorted(k for k in args if observe.snap(args[k]) != before[k])
    aliased = sorted(k for k, v in args.items() if res is not None and observe.shares(res, v))
    return changed, aliased


def _invoke(case, mod, parts, kw):
    if case["kind"] == "constructor":
        res = getattr(mod, parts[0])(**kw)
    elif case["kind"] == "method":
        raw = vars(getattr(mod, parts[0]))[parts[1]]
        if isinstance(raw, classmethod):
            res = getattr(kw.pop("cls"), parts[1])(**kw)
        elif isinstance(raw, staticmethod):
            res = raw.__func__(**kw)
        elif isinstance(raw, property):
            res = raw.fget(kw["self"])
        else:
            res = getattr(kw.pop("self"), parts[1])(**kw)
    else:
        res = getattr(mod, parts[0])(**kw)
    return res


# the translator's own fail-closed check of its output: IR fragments and the variable that must be found possibly unbound
IR_CASES = {
    "ir.read_of_never_bound": (["seq", [["bind", 0, ["param", 0]], ["write", 5]]], 5),
    "ir.alias_of_never_bound": (["seq", [["bind", 1, ["alias", [7]]]]], 7),
    "ir.store_of_unbound": (["seq", [["bind", 0, ["fresh", 0]], ["store", 0, 0, 3]]], 3),
    "ir.bound_on_one_branch_only": (["seq", [["branch", ["bind", 1, ["fresh", 0]], ["skip"]], ["ret", 1]]], 1),
    # the comprehension-order bug of the audit: the inner iterable is read before the outer target is bound
    "ir.read_before_bind_in_loop": (["loop", ["seq", [["bind", 1, ["load", [2], 0, 0]], ["bind", 2, ["fresh", 1]]]]], 2),
    "ir.bound_before_raise_only": (["seq", [["branch", ["seq", [["bind", 1, ["fresh", 0]], ["stop", "raise"]]], ["skip"]],
                                           ["write", 1]]], 1),
    # accepted: bound on every path that continues
    "ir.ok_else_raises": (["seq", [["branch", ["bind", 1, ["fresh", 0]], ["seq", [["stop", "raise"]]]], ["write", 1]]], None),
    "ir.ok_loop_then_use": (["seq", [["loop", ["bind", 1, ["fresh", 0]]], ["write", 1]]], None),
    # `kill`: the variables of a returned callee are unbound again
    "ir.read_after_kill": (["seq", [["bind", 1, ["fresh", 0]], ["kill", [1]], ["write", 1]]], 1),
    "ir.ok_rebound_after_kill": (["seq", [["bind", 1, ["fresh", 0]], ["kill", [1]], ["bind", 1, ["fresh", 1]], ["write", 1]]], None),
    "ir.killed_in_loop_read_next_round": (["seq", [["bind", 1, ["fresh", 0]], ["loop", ["seq", [["write", 1], ["kill", [1]]]]]]], 1),
    "ir.ok_callee_return": (["seq", [["scope", [["bind", 1, ["fresh", 0]], ["stop", "ret"]]], ["write", 1]]], None),
}


def check_ir(cid):
    ir, want = IR_CASES[cid]
    _, bad = T.definitely_bound(ir, frozenset())
    return [] if bad == want else [f"UNSOUND {cid}: definite-assignment check reports {bad}, expected {want}"]


def all_ids():
    return sorted(load()) + sorted(IR_CASES)


def check(cid, driver):
    """list of failure texts for one case ([] = as expected)"""
    if cid in IR_CASES:
        return check_ir(cid)
    case = load()[cid]
    if "history" in case:
        return check_history(cid, case, driver)
    w, r = static_verdict(case, driver)
    fails = []
    if case["expect"] is not None:
        mw = sorted(set(case["expect"].get("write", [])) - set(w))
        mr = sorted(set(case["expect"].get("alias", [])) - set(r))
        if mw or mr:
            fails.append(f"UNSOUND {cid}: analysis reports write={w} alias={r}, missing write={mw} alias={mr}")
    if case["exact"] is not None:
        if w != sorted(case["exact"]["write"]) or r != sorted(case["exact"]["alias"]):
            fails.append(f"IMPRECISE {cid}: analysis reports write={w} alias={r}, expected exactly {case['exact']}")
    np.seterr(all="ignore")
    dyn = dynamic_verdict(case)
    if dyn is not None:
        changed, aliased = dyn
        want = case["expect"] or case["exact"]
        pn = set(case["params"])
        nw = sorted(set(want.get("write", [])) - set(changed))
        na = sorted(set(want.get("alias", [])) - set(aliased))
        if case["expect"] is not None and (nw or na):
            fails.append(f"CASE {cid}: expected effect not observed when run: write={nw} alias={na}")
        uw = sorted((set(changed) & pn) - set(w))
        ua = sorted((set(aliased) & pn) - set(r))
        if uw or ua:
            fails.append(f"UNSOUND {cid}: observed when run but not predicted: write={uw} alias={ua}")
    return fails


def main():
    from harness import core

    d = core.Driver()
    bad = 0
    try:
        for cid in all_ids():
            for f in check(cid, d):
                bad += 1
                print(f)
    finally:
        d.close()
    n = len(all_ids())
    print(f"{n} translator regression cases, {bad} failures")
    return 1 if bad else 0


if __name__ == "__main__":
    sys.exit(main())
