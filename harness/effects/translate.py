"""Python AST -> effect IR (C19).  Regenerates, from /repo's current source, the program that
`PewModel/Effects.lean` analyses.  See DESIGN.md 5.19.

IR (JSON): ["skip"] | ["bind", x, src] | ["write", x] | ["ret", x] | ["store", x, label, y] | ["kill", [x...]] |
           ["seq", [s...]] | ["branch", s, t] | ["loop", s]
           (`kill`: the variables of an inlined callee go out of scope when it has returned; they are unbound again)
           src = ["param", i] | ["fresh", site] | ["alias", [y...]] | ["load", [y...], label, site] | ["reach", [y...]] |
                 ["unknown"]

Every Python name is ONE IR variable holding an object.  A parameter and everything reachable from it when the call
starts (elements, attributes, dict values, views) is ONE object (a region).  Objects created by the function are
objects of an allocation site; what a container / instance holds is a labelled heap edge (`store`), what is taken out
of it a `load` (label 0 = any slot: elements, `setattr`, `vars(o)[k]`; attribute names get their own labels).  The
heap is shared by all names of an object, so a reference stored through one name is seen through every other, through
by-reference parameters of inlined callees, through receivers that are temporaries, and through containers that hold
the container (all of that is done by the Lean analysis `ana`, proved sound for every execution of the IR).

FAIL-CLOSED RULE: whatever the translator cannot classify becomes an UNKNOWN CALL: everything reachable from any
argument (and from the callee object: a closure holds its free variables, a bound method its receiver) may be written
and may be stored into everything else reachable from them, and the result may be anything.  A construct that cannot
even be expressed that way marks the whole function `unknown` (every parameter may be written and aliased).  After
translation the IR is checked for definite assignment: a read of a variable that is not bound on every path would
have no execution in `Pew.Effects.Exec`; such a function is replaced by the all-unknown program.

Besides the objects, a value may carry a TAG / type fact (flow-sensitive, intersected at joins): plain ndarray /
scalar / str (`arr`: holds no references, subscripts are views), builtin container (`cont`), ElementTree objects,
executors / futures, instances of a pewlib class (from constructors and trusted annotations).  Type facts select which
method table applies to a receiver and whether a subscript store keeps a reference; annotations of the inventoried
functions' parameters are asserted (`isinstance`) on every dynamic call of the harness.
Function values: lambdas and functions handed to sorted/min/max/map/filter/list.sort/Executor.map are applied to the
items in a loop; names that can only hold pewlib functions, local functions or lambdas are called as a branch over
them; any other function value is a container of its free variables and calling it is an unknown call.
"""
from __future__ import annotations

import ast
import inspect
from pathlib import Path

# ----------------------------------------------------------------------------- tables (trusted)
# Reviewed against the NumPy installed in /venv (2.x).  A function is FRESH only when EVERY call of it returns newly
# allocated memory (or a scalar / immutable) and writes nothing; positional / keyword `out` arguments are handled
# separately (`out_positions`), as are the keywords that turn a copy into a view or an in-place operation
# (`copy=`, `overwrite_input=`, `n=0`, `inplace=`): see `Scope.external`.
FRESH_FUNCS = set("""
np.array np.empty np.zeros np.ones np.full np.empty_like np.zeros_like np.ones_like np.full_like np.arange np.linspace
np.logspace np.geomspace np.eye np.identity
np.stack np.vstack np.hstack np.dstack np.column_stack np.concatenate np.append np.insert np.delete np.repeat np.tile
np.pad np.copy
np.isnan np.isinf np.isfinite np.isin np.all np.any np.sum np.nansum np.mean np.nanmean np.median np.nanmedian np.std
np.nanstd np.var np.nanvar np.amin np.amax np.min np.max np.nanmin np.nanmax np.argmin np.argmax np.argsort np.sort
np.cumsum np.cumprod np.prod np.diff np.abs np.absolute np.sqrt np.exp np.log np.log1p np.log2 np.log10 np.power np.sign
np.round np.around np.floor np.ceil np.clip np.where np.nonzero np.flatnonzero np.argwhere np.count_nonzero
np.unravel_index np.ravel_multi_index np.logical_and np.logical_or np.logical_not np.logical_xor np.maximum np.minimum
np.add np.subtract np.multiply np.divide np.true_divide np.floor_divide np.mod np.remainder np.negative np.square
np.hypot np.arctan2 np.sin np.cos np.tan np.greater np.less np.equal np.not_equal np.greater_equal np.less_equal
np.maximum.accumulate np.minimum.accumulate np.add.reduce np.add.reduceat np.add.accumulate np.lcm np.lcm.reduce
np.gcd np.searchsorted np.histogram np.cov np.corrcoef np.convolve np.correlate np.unique np.iscomplexobj np.isscalar
np.fft.rfft np.fft.irfft np.fft.rfftn np.fft.irfftn np.fft.fft np.fft.ifft np.fft.fftn np.fft.ifftn np.fft.fftshift
np.fft.ifftshift np.fft.fftfreq np.fft.rfftfreq
np.polynomial.polynomial.polyfit np.polyfit np.polyval np.dot np.matmul np.outer np.cross np.interp np.digitize
np.bincount np.percentile np.quantile np.nanpercentile np.nanquantile np.genfromtxt np.loadtxt np.load np.savez
np.savez_compressed np.save np.savetxt np.fromfile np.dtype np.uint64 np.uint32 np.uint8 np.int64 np.int32 np.float64
np.float32 np.bool_ np.random.permutation np.random.random np.random.normal np.random.default_rng np.allclose
np.array_equal np.shares_memory np.may_share_memory np.meshgrid np.indices np.lib.recfunctions.drop_fields
np.lib.recfunctions.append_fields
len int float str bool complex abs round any all isinstance issubclass hasattr callable range slice repr
print format ord chr hash id divmod pow type bytes bytearray open
ValueError TypeError KeyError IndexError IOError OSError RuntimeError NotImplementedError AttributeError StopIteration
UserWarning DeprecationWarning Exception AssertionError FileNotFoundError ZeroDivisionError
Path pathlib.Path time.time time.strptime time.mktime calendar.timegm logging.getLogger math.sqrt math.exp math.log
math.floor math.ceil math.isnan math.gamma math.erf math.pi version importlib.metadata.version copy.deepcopy
logger.warning logger.info logger.debug logger.error logger.exception warnings.warn re.compile re.match re.search
re.findall struct.pack struct.unpack sys.byteorder
int.from_bytes np.take_along_axis np.trapezoid np.trapz np.logical_or.reduce np.logical_and.reduce np.argpartition
np.nanargmax np.nanargmin np.uint16 np.int8 np.int16
np.result_type np.promote_types np.can_cast np.issubdtype np.iinfo np.finfo np.frexp np.ldexp np.spacing np.nextafter
np.min_scalar_type np.isclose np.rint np.trunc np.fix np.copysign np.signbit np.expm1 np.cbrt np.reciprocal np.float16
""".split())
# np.diff(x, n=0) returns x itself, np.meshgrid(copy=False) views, np.array(copy=False|None) / np.nan_to_num(copy=False)
# the argument, np.median/percentile/quantile(overwrite_input=True) sort the argument in place: keyword rules below.
# NOT here (they were, wrongly): np.trim_zeros (a slice), rfn.structured_to_unstructured / unstructured_to_structured /
# merge_arrays (views when possible), np.frombuffer (a view of the buffer), min / max / sum (an element / the start value)

# callables whose result may be a VIEW of / the same object as (one of) their arguments; they write nothing
VIEW_FUNCS = set("""
np.asarray np.asanyarray np.ascontiguousarray np.asfortranarray np.atleast_1d np.atleast_2d np.atleast_3d np.reshape
np.ravel np.swapaxes np.flip np.fliplr np.flipud np.squeeze np.transpose np.moveaxis np.rollaxis np.expand_dims
np.broadcast_to np.broadcast_arrays np.real np.imag np.diag np.diagonal np.lib.stride_tricks.as_strided
np.lib.stride_tricks.sliding_window_view np.lib.stride_tricks.broadcast_to
np.lib.recfunctions.rename_fields np.lib.recfunctions.structured_to_unstructured
np.lib.recfunctions.unstructured_to_structured np.lib.recfunctions.merge_arrays np.lib.recfunctions.repack_fields
np.split np.array_split np.hsplit np.vsplit np.dsplit np.rot90 np.take np.nan_to_num np.require np.trim_zeros
np.frombuffer np.nditer np.compress np.extract np.real_if_close np.matrix_transpose np.permute_dims memoryview
""".split())
VIEW_IF_KEYWORD = {"np.array": {"copy"}, "np.meshgrid": {"copy"}, "np.diff": {"n"}, "np.copy": {"subok"}}
# keyword (when present and not the literal False) that makes the call write its first argument
WRITE_IF_KEYWORD = {"np.median": "overwrite_input", "np.nanmedian": "overwrite_input", "np.percentile": "overwrite_input",
                    "np.nanpercentile": "overwrite_input", "np.quantile": "overwrite_input",
                    "np.nanquantile": "overwrite_input"}

# result may be ANYTHING reachable from the arguments (an element, an attribute, a default), or a new value built from it
DEEP_FUNCS = set("min max sum next getattr".split())

# callables returning a NEW container that holds the ELEMENTS of their positional arguments (shallow copies) ...
ELEMENT_CONTAINER_FUNCS = set("""
tuple list dict set frozenset sorted reversed iter copy.copy filter collections.OrderedDict collections.deque
itertools.chain itertools.islice itertools.cycle itertools.tee dict.values dict.keys
""".split())
# ... or new tuples of the elements of their arguments (one more level)
TUPLE_CONTAINER_FUNCS = set("""
zip enumerate itertools.product itertools.zip_longest itertools.combinations itertools.permutations
itertools.combinations_with_replacement dict.items itertools.pairwise
""".split())

# callables that write to some of their arguments: name -> indices of written positional args
WRITE_FUNCS = {
    "np.copyto": [0], "np.put": [0], "np.place": [0], "np.putmask": [0], "np.fill_diagonal": [0],
    "np.put_along_axis": [0], "np.random.shuffle": [0], "np.add.at": [0], "np.subtract.at": [0], "np.multiply.at": [0],
    "np.divide.at": [0], "np.maximum.at": [0], "np.minimum.at": [0], "delattr": [0], "random.shuffle": [0],
    "np.ndarray.sort": [0], "np.ndarray.fill": [0], "list.sort": [0], "list.append": [0], "heapq.heapify": [0],
    "heapq.heappop": [0],
}
# ... and store (references to) the other arguments in it
STORE_FUNCS = {"setattr": (0, [2]), "heapq.heappush": (0, [1]), "list.append": (0, [1])}

# methods (by name) that mutate their receiver
INPLACE_METHODS = set("""append extend insert pop popitem remove clear update setdefault sort reverse fill resize put
itemset setflags setfield byteswap partition add discard __setitem__ __delitem__ write writelines truncate seek
appendleft extendleft popleft rotate intersection_update difference_update symmetric_difference_update
move_to_end sort_values
""".split())
# `sort`, `fill`, ... on ndarray are in-place too; file methods write their own file object (its position)

# in-place methods that store their arguments themselves / the elements of their arguments in the receiver
STORING_SELF = set("append insert setdefault add appendleft __setitem__ fill put itemset setfield".split())
STORING_ELEMS = set("extend update extendleft intersection_update difference_update symmetric_difference_update".split())
# methods that write an ARGUMENT (Generator.shuffle(x), file.readinto(buf)): name -> written positional args
ARG_WRITING_METHODS = {"shuffle": [0], "readinto": [0], "readinto1": [0], "recv_into": [0], "permuted": []}

# methods (by name) returning fresh values and not touching the receiver (ndarray reductions / str / Path / file /
# re.Match methods).  A positional or keyword `out` of the ndarray ones is a write: METHOD_OUT_POS
FRESH_METHODS = set("""sum mean std var min max any all argmin argmax argsort cumsum cumprod prod round
clip conj conjugate nonzero tobytes tostring dot trace ptp searchsorted repeat flatten nansum
split rsplit strip lstrip rstrip replace join format lower upper startswith endswith find rfind index count encode
decode isdigit isalpha title capitalize zfill rpartition splitlines casefold
bit_length is_integer as_integer_ratio total_seconds hex
exists is_dir is_file with_suffix with_name joinpath resolve open read_text read_bytes glob iterdir mkdir stat
read readline readlines close flush tell
group groups start end span match search fullmatch
""".split())
# `match search fullmatch`: compiled-pattern methods; pure, the match object keeps only the (immutable) searched string
# number of positional arguments of an ndarray method BEFORE its `out` parameter
METHOD_OUT_POS = {"clip": 2, "round": 1, "cumsum": 2, "cumprod": 2, "sum": 2, "mean": 2, "prod": 2, "std": 2, "var": 2,
                  "min": 1, "max": 1, "any": 1, "all": 1, "argmin": 1, "argmax": 1, "dot": 1, "trace": 4, "ptp": 1,
                  "conj": 0, "conjugate": 0, "take": 2, "compress": 2, "choose": 1}
# methods whose result is the receiver or a shallow copy of it, depending on what the receiver is
COPY_METHODS = {"copy", "astype", "tolist", "item", "__copy__"}

# methods (by name) returning a view / an element of the receiver
VIEW_METHODS = set("""reshape ravel view transpose swapaxes squeeze diagonal take get
__getitem__ real imag T flat getfield newbyteorder result __iter__ __next__ __enter__ compress
""".split())
# dict views: new containers of the elements / of (key, value) tuples
ELEMENT_VIEW_METHODS = {"values", "keys"}
TUPLE_VIEW_METHODS = {"items"}
# attributes that are views of an array / hold the receiver itself
VIEW_ATTRS = {"T", "flat", "real", "imag", "base", "data", "mT", "ctypes", "__dict__", "__self__", "__array_interface__"}
# attributes that are new immutable values whatever the receiver is
FRESH_ATTRS = {"shape", "ndim", "size", "dtype", "itemsize", "nbytes", "strides", "flags", "__name__", "__class__",
               "__doc__", "__module__", "__qualname__"}
# ... and when the receiver holds no references (str / Path / dtype)
FRESH_ATTRS_OF_PLAIN = {"names", "name", "suffix", "stem", "parent", "parts", "fields", "char", "kind", "type"}

# external constructors / parsers whose result is a FRESH object of a known library type (the tag selects the
# method rules below; nothing of the argument is written: parsing only reads its path / file argument)
TAGGED_FRESH_FUNCS = {
    "xml.etree.ElementTree.parse": "xml", "xml.etree.ElementTree.fromstring": "xml", "xml.etree.ElementTree.XML": "xml",
    "concurrent.futures.ProcessPoolExecutor": "exec", "concurrent.futures.ThreadPoolExecutor": "exec",
}
# value tags:  xml  = an ElementTree / Element (or a part of one: child, attrib dict, text)
#              xmlc = a builtin container / iterator of such (findall, iter, list(...), sorted(...)) or one of its items
#              exec = a concurrent.futures executor;  fut = a future of `submit` (or a container of futures)
LOADED_TAG = {"xml": "xml", "xmlc": "xmlc", "fut": "fut"}
CONTAINER_TAG = {"xml": "xmlc", "xmlc": "xmlc", "fut": "fut"}
#              ("cls", key) = an instance of the pewlib class `key` or of a subclass (constructed here, or a parameter /
#              inlined result annotated with that class): its methods and properties are that hierarchy's
#              ("list", t) = a builtin container whose items have tag t (annotation `list[C]`, or built here from such items)


def loaded_tag(tag):
    if isinstance(tag, tuple):
        return tag[1] if tag[0] == "list" else None
    return LOADED_TAG.get(tag)


def container_tag(tag):
    if isinstance(tag, tuple) or tag == "arr":
        return ("list", tag)
    return CONTAINER_TAG.get(tag)
# Element / ElementTree methods: all pure.  `find getroot` return a part of the receiver, `findall iter iterfind` a new
# list / iterator of parts, `findtext itertext` text (str) or the default, `get keys items` attribute strings or the default
XML_PART = {"find", "getroot"}
XML_PARTS = {"findall", "iter", "iterfind"}
XML_TEXT = {"findtext", "itertext"}
XML_ATTR = {"get", "keys", "items"}
XML_ANNOTATIONS = {"ElementTree.Element", "ElementTree.ElementTree", "Element", "ET.Element", "ET.ElementTree",
                   "xml.etree.ElementTree.Element", "xml.etree.ElementTree.ElementTree"}

# builtin higher-order callables: the function argument is applied to the ELEMENTS of the other arguments
HOF_KEY = {"sorted", "min", "max"}   # key=<function>; its results are only compared
HOF_FIRST = {"map", "filter"}        # first positional argument; map's results are the new elements
PURE_TYPES = {"str", "int", "float", "bytes", "bool", "complex"}  # `str.isdigit`, `int`, ... passed as functions

# callables through which a function can reach objects / run code that its source does not name
REFLECTION = {"eval", "exec", "globals", "locals", "compile", "__import__", "sys._getframe", "inspect.currentframe",
              "inspect.stack", "importlib.import_module", "sys.modules", "builtins.eval", "builtins.exec"}

JUMPS = (ast.Continue, ast.Break)
WILD = 0  # heap label matching every label


def np_object(name: str):
    """the NumPy object a dotted table name (`np.add`, `np.lib.recfunctions.merge_arrays`) denotes, or None"""
    if not name.startswith("np."):
        return None
    try:
        import importlib

        import numpy
        obj = numpy
        parts = name.split(".")[1:]
        for i, p in enumerate(parts):
            if not hasattr(obj, p):
                obj = importlib.import_module("numpy." + ".".join(parts[: i + 1]))
            else:
                obj = getattr(obj, p)
        return obj
    except Exception:
        return None


_OUT_CACHE = {}


def out_positions(name: str):
    """positional indices of the `out` parameter(s) of a NumPy callable, read from the installed library: a ufunc's
    outputs follow its `nin` inputs, any other function's from its signature.  None = cannot tell (then every
    positional argument beyond the first is treated as a possible output)"""
    if name in _OUT_CACHE:
        return _OUT_CACHE[name]
    obj, res = np_object(name), None
    if obj is not None:
        import numpy

        if isinstance(obj, numpy.ufunc):
            res = list(range(obj.nin, obj.nin + obj.nout))
        else:
            try:
                ps = list(inspect.signature(obj).parameters.values())
                res = [i for i, p in enumerate(ps) if p.name == "out"
                       and p.kind in (p.POSITIONAL_ONLY, p.POSITIONAL_OR_KEYWORD)]
            except (TypeError, ValueError):
                res = None
    _OUT_CACHE[name] = res
    return res


def accepts_out(name: str) -> bool:
    """the NumPy callable has an `out` parameter (ufuncs do; others by signature; unknown signature: assume it has)"""
    obj = np_object(name)
    if obj is None:
        return True
    import numpy

    if isinstance(obj, numpy.ufunc):
        return True
    try:
        return "out" in inspect.signature(obj).parameters
    except (TypeError, ValueError):
        return True


class Val:
    """abstract value of an expression.
    own:     IR variables whose object the value may BE (or be a view / part of)
    unknown: or any existing object
    arr:     known to be a plain ndarray / scalar / str / Path (holds no references; subscripts are views)
    cont:    known to be a builtin container (list / dict / set / tuple / iterator of one)"""
    __slots__ = ("own", "unknown", "arr", "cont", "tag")

    def __init__(self, own=(), unknown=False, arr=False, cont=False, tag=None):
        self.own = frozenset(own)
        self.unknown = unknown
        self.arr = arr
        self.cont = cont and not arr
        self.tag = None if arr else tag  # library type of the value (see TAGS), None = not known

    def neutral(self):
        """a constant / None: joins with anything without changing what that is"""
        return not self.own and not self.unknown and self.tag is None and not self.cont

    def __or__(self, o):
        if o.neutral():
            return Val(self.own, self.unknown, self.arr, self.cont, self.tag)
        if self.neutral():
            return Val(o.own, o.unknown, o.arr, o.cont, o.tag)
        if self.tag == o.tag:
            tag = self.tag
        elif {self.tag, o.tag} <= {"xml", "xmlc"}:
            tag = "xmlc"
        else:
            tag = None
        return Val(self.own | o.own, self.unknown or o.unknown, self.arr and o.arr, self.cont and o.cont, tag)

    def untagged(self):
        return Val(self.own, self.unknown, self.arr, self.cont)


FRESH = Val(arr=True)


def union(vals):
    u = FRESH
    for v in vals:
        u = u | v
    return u


class Program:
    """all inventoried + helper modules, parsed"""

    def __init__(self, repo: Path, modules: list[str], src: str = "src"):
        self.repo = repo
        self.src = src      # directory under `repo` holding the packages (the regression cases live directly in theirs)
        self.mods = {}      # dotted module name -> ast.Module
        self.funcs = {}     # (module, name) -> FunctionDef
        self.classes = {}   # (module, name) -> ClassDef
        self.imports = {}   # module -> {local name: ("mod", dotted) | ("obj", module, name)}
        self.consts = {}    # (module, name) -> True for module-level names only ever bound to a dict/list/tuple/set/constant literal
        self._fields = {}
        self._ftypes = {}
        for m in modules:
            self.load(m)

    def path(self, mod: str) -> Path | None:
        p = self.repo / self.src / (mod.replace(".", "/") + ".py")
        if p.exists():
            return p
        p = self.repo / self.src / mod.replace(".", "/") / "__init__.py"
        return p if p.exists() else None

    def load(self, mod: str):
        if mod in self.mods:
            return
        p = self.path(mod)
        if p is None:
            return
        tree = ast.parse(p.read_text())
        self.mods[mod] = tree
        imp = {}
        for node in tree.body:
            if isinstance(node, ast.FunctionDef):
                self.funcs[(mod, node.name)] = node
            elif isinstance(node, ast.ClassDef):
                self.classes[(mod, node.name)] = node
            elif isinstance(node, ast.Import):
                for a in node.names:
                    imp[a.asname or a.name.split(".")[0]] = ("mod", a.name if a.asname else a.name.split(".")[0])
            elif isinstance(node, ast.ImportFrom):
                base = node.module or ""
                if node.level:
                    parts = mod.split(".")
                    if p.name != "__init__.py":
                        parts = parts[:-1]  # the package containing this module
                    parts = parts[: len(parts) - (node.level - 1)]
                    base = ".".join(parts + ([node.module] if node.module else []))
                for a in node.names:
                    full = f"{base}.{a.name}"
                    if self.path(full) is not None:
                        imp[a.asname or a.name] = ("mod", full)
                    else:
                        imp[a.asname or a.name] = ("obj", base, a.name)
        self.imports[mod] = imp
        literal = (ast.Dict, ast.List, ast.Tuple, ast.Set, ast.Constant)
        bad = {n for node in ast.walk(tree) if isinstance(node, (ast.Global, ast.Nonlocal)) for n in node.names}
        for node in tree.body:
            tgts = node.targets if isinstance(node, ast.Assign) else [node.target] if isinstance(node, (ast.AnnAssign, ast.AugAssign)) else []
            for t in tgts:
                for n in ast.walk(t):
                    if isinstance(n, ast.Name):
                        ok = isinstance(node, (ast.Assign, ast.AnnAssign)) and isinstance(t, ast.Name) \
                            and isinstance(node.value, literal) and n.id not in bad
                        self.consts[(mod, n.id)] = ok and self.consts.get((mod, n.id), True)
        for kind, *rest in list(imp.values()):
            target = rest[0]
            if target.startswith("pewlib"):
                self.load(target)

    # ---- class helpers
    def mro(self, key):
        out, todo = [], [key]
        while todo:
            k = todo.pop(0)
            if k in out or k not in self.classes:
                continue
            out.append(k)
            cls = self.classes[k]
            for b in cls.bases:
                r = self.resolve_name(k[0], b) if isinstance(b, ast.Name) else None
                if r and r[0] == "class":
                    todo.append(r[1])
        return out

    def resolve_name(self, mod, node):
        """Name -> ('func', key) | ('class', key) | ('ext', dotted) | None"""
        name = node.id
        if (mod, name) in self.funcs:
            return ("func", (mod, name))
        if (mod, name) in self.classes:
            return ("class", (mod, name))
        imp = self.imports.get(mod, {}).get(name)
        if imp:
            if imp[0] == "mod":
                return ("mod", imp[1])
            _, m, n = imp
            for _hop in range(4):  # follow re-exports through package __init__ files
                if (m, n) in self.funcs:
                    return ("func", (m, n))
                if (m, n) in self.classes:
                    return ("class", (m, n))
                nxt = self.imports.get(m, {}).get(n)
                if nxt and nxt[0] == "obj":
                    _, m, n = nxt
                else:
                    break
            return ("ext", f"{m}.{n}")
        return None

    def find_method(self, cls_key, name, after=None):
        mro = self.mro(cls_key)
        if after is not None and after in mro:
            mro = mro[mro.index(after) + 1:]
        for k in mro:
            for n in self.classes[k].body:
                if isinstance(n, ast.FunctionDef) and n.name == name:
                    return k, n
        return None

    def class_fields(self, cls_key):
        """attributes assigned as `self.X = ...` anywhere in the class hierarchy; None when `self` escapes
        (is used other than as `self.<attr>` / `super()`), in which case no field sensitivity is used"""
        if cls_key in self._fields:
            return self._fields[cls_key]
        fields, ok = set(), True
        for k in self.mro(cls_key):
            for fn in self.classes[k].body:
                if not isinstance(fn, ast.FunctionDef) or not fn.args.args or fn.args.args[0].arg != "self":
                    continue
                parents = {}
                for node in ast.walk(fn):
                    for ch in ast.iter_child_nodes(node):
                        parents[ch] = node
                for node in ast.walk(fn):
                    if isinstance(node, ast.Name) and node.id == "self":
                        par = parents.get(node)
                        if not (isinstance(par, ast.Attribute) and par.value is node):
                            ok = False
                    if isinstance(node, ast.Attribute) and isinstance(node.value, ast.Name) and node.value.id == "self" \
                            and isinstance(node.ctx, ast.Store):
                        fields.add(node.attr)
        self._fields[cls_key] = sorted(fields) if ok else None
        return self._fields[cls_key]

    def subclasses(self, cls_key):
        """cls_key and every loaded class that has it in its MRO"""
        return [k for k in self.classes if cls_key in self.mro(k)]

    def overrides(self, cls_key, name):
        """the method `name` as found from cls_key, plus the overriding definitions of its subclasses: what
        `obj.name` may be for an object that is an instance of cls_key (or of a subclass)"""
        out = []
        for k in [cls_key] + [k for k in self.subclasses(cls_key) if k != cls_key]:
            m = self.find_method(k, name)
            if m and m not in out:
                out.append(m)
        return out

    def field_type(self, cls_key, field):
        """class of `self.<field>` when the ONLY assignment to an attribute of that name in the whole program is
        `self.<field> = <parameter>` in an `__init__` of the hierarchy, the parameter being annotated with a pewlib
        class (annotations are trusted, as for arrays and containers); else None"""
        k0 = (cls_key, field)
        if k0 in self._ftypes:
            return self._ftypes[k0]
        legit, found, ok = set(), None, True
        for k in self.mro(cls_key):
            init = next((n for n in self.classes[k].body if isinstance(n, ast.FunctionDef) and n.name == "__init__"), None)
            if init is None or not init.args.args:
                continue
            rebound = {n.id for n in ast.walk(init) if isinstance(n, ast.Name) and isinstance(n.ctx, (ast.Store, ast.Del))}
            for node in ast.walk(init):
                if not (isinstance(node, ast.Assign) and len(node.targets) == 1 and isinstance(node.value, ast.Name)):
                    continue
                t, v = node.targets[0], node.value
                if not (isinstance(t, ast.Attribute) and t.attr == field and isinstance(t.value, ast.Name)
                        and t.value.id == init.args.args[0].arg and v.id not in rebound):
                    continue
                ann = next((x.annotation for x in init.args.args + init.args.kwonlyargs if x.arg == v.id), None)
                if isinstance(ann, ast.Constant) and isinstance(ann.value, str) and ann.value.isidentifier():
                    ann = ast.Name(id=ann.value)
                r = self.resolve_name(k[0], ann) if isinstance(ann, ast.Name) else None
                if r and r[0] == "class" and found in (None, r[1]):
                    found = r[1]
                    legit.add(id(t))
        for tree in self.mods.values():  # any other store to an attribute of that name, anywhere: no typing
            for node in ast.walk(tree):
                if isinstance(node, ast.Attribute) and node.attr == field and isinstance(node.ctx, (ast.Store, ast.Del)) \
                        and id(node) not in legit:
                    ok = False
                if isinstance(node, ast.Name) and node.id in ("setattr", "delattr", "__dict__"):
                    ok = False
                if isinstance(node, ast.Attribute) and node.attr in ("__dict__", "__setattr__"):
                    ok = False
        self._ftypes[k0] = found if ok else None
        return self._ftypes[k0]

    def self_classes(self, def_cls, method):
        """the classes an object can be an exact instance of when method `method`, as defined in class `def_cls`, runs
        with it as `self` by ordinary dispatch: `def_cls` and the loaded subclasses that inherit that definition"""
        out = []
        for k in self.subclasses(def_cls):
            m = self.find_method(k, method)
            if m is not None and m[0] == def_cls:
                out.append(k)
        return out or [def_cls]

    def plain_for(self, classes, field):
        """"arr" when every exact instance of one of `classes` holds a plain value (ndarray / scalar / str / Path / None)
        in attribute `field`, ("list", t) when a builtin container of plain values (t = "arr" or again such a list), else
        None (see Translator.infer_plain_fields)"""
        pf = getattr(self, "plain_fields", None)
        if not classes or pf is None:
            return None
        ts = {pf.get((k, field)) for k in classes}
        return next(iter(ts)) if len(ts) == 1 else None

    IMMUTABLE_CALLS = {"np.sqrt", "np.dtype", "Path", "pathlib.Path", "logging.getLogger", "re.compile", "np.float64",
                       "np.float32", "float", "int", "str", "bytes", "frozenset", "np.exp", "np.log", "math.sqrt"}

    def global_kind(self, mod, name):
        """how a module-level name (not a function / class / import) is bound: "immutable" (constants, dtypes, paths,
        loggers, compiled patterns), "literal" (dict / list / set / tuple literals), "mutable" (anything else), or None
        when the module does not assign it"""
        tree = self.mods.get(mod)
        if tree is None:
            return None
        vals = []
        for node in tree.body:
            tgts = node.targets if isinstance(node, ast.Assign) else [node.target] if isinstance(node, (ast.AnnAssign, ast.AugAssign)) else []
            for t in tgts:
                if any(isinstance(n, ast.Name) and n.id == name for n in ast.walk(t)):
                    vals.append(node.value if isinstance(node, (ast.Assign, ast.AnnAssign)) and isinstance(t, ast.Name) else "other")
        if not vals:
            return None

        def immutable(v):
            if v is None or isinstance(v, ast.Constant):
                return True
            if isinstance(v, ast.Tuple):
                return all(immutable(x) for x in v.elts)
            if isinstance(v, (ast.UnaryOp,)):
                return immutable(v.operand)
            if isinstance(v, ast.BinOp):
                return immutable(v.left) and immutable(v.right)
            if isinstance(v, ast.Call):
                f = v.func
                parts = []
                while isinstance(f, ast.Attribute):
                    parts.append(f.attr)
                    f = f.value
                if isinstance(f, ast.Name):
                    parts.append(f.id)
                    return ".".join(reversed(parts)) in Program.IMMUTABLE_CALLS
                return False
            if isinstance(v, ast.Attribute):
                return True  # np.pi, module constants
            return False
        if all(v != "other" and immutable(v) for v in vals):
            return "immutable"
        if all(v != "other" and isinstance(v, (ast.Dict, ast.List, ast.Set, ast.Tuple)) for v in vals):
            return "literal"
        return "mutable"

    def class_level_attr(self, attr):
        """some loaded class binds this name in its body (a class attribute: one object shared by all instances that do
        not shadow it)"""
        if not hasattr(self, "_clsattrs") or self._clsattrs_n != len(self.mods):
            names = set()
            for cls in self.classes.values():
                for n in cls.body:
                    tg = n.targets if isinstance(n, ast.Assign) else [n.target] if isinstance(n, ast.AnnAssign) and n.value is not None else []
                    names |= {t.id for t in tg if isinstance(t, ast.Name)}
            self._clsattrs, self._clsattrs_n = names, len(self.mods)
        return attr in self._clsattrs

    def attr_assigned(self, attr):
        """some loaded module assigns an attribute of this name (`x.attr = ...`, or a class-body field)"""
        if not hasattr(self, "_assigned") or self._assigned_n != len(self.mods):
            names = set()
            for tree in self.mods.values():
                for node in ast.walk(tree):
                    if isinstance(node, ast.Attribute) and isinstance(node.ctx, (ast.Store, ast.Del)):
                        names.add(node.attr)
                    elif isinstance(node, ast.ClassDef):
                        for n in node.body:
                            tg = n.targets if isinstance(n, ast.Assign) else [n.target] if isinstance(n, ast.AnnAssign) else []
                            names |= {t.id for t in tg if isinstance(t, ast.Name)}
            self._assigned, self._assigned_n = names, len(self.mods)
        return attr in self._assigned

    HANDLED_DUNDERS = {"__init__", "__repr__", "__str__", "__format__", "__getitem__", "__setitem__", "__post_init__",
                       "__init_subclass__", "__class_getitem__"}

    def unhandled_dunders(self):
        """special methods of pewlib's own classes that Python calls implicitly (iteration, operators, comparisons,
        context managers, attribute hooks, ...) and this translator does not follow"""
        out = []
        for k, cls in self.classes.items():
            for n in cls.body:
                if isinstance(n, ast.FunctionDef) and n.name.startswith("__") and n.name.endswith("__") \
                        and n.name not in Program.HANDLED_DUNDERS:
                    out.append(f"{k[1]}.{n.name}")
        return sorted(out)

    def methods_named(self, name):
        out = []
        for k, cls in self.classes.items():
            for n in cls.body:
                if isinstance(n, ast.FunctionDef) and n.name == name:
                    out.append((k, n))
        return out


def decorators(fn):
    out = set()
    for d in fn.decorator_list:
        out.add(ast.unparse(d))
    return out


KNOWN_DECORATORS = {"property", "staticmethod", "classmethod", "abstractmethod", "abc.abstractmethod", "override",
                    "typing.override", "overload", "typing.overload", "no_type_check", "final", "typing.final"}


def unknown_decorators(fn):
    """decorators that may replace the function by something else (the body read here is then not what runs)"""
    return sorted(d for d in decorators(fn) if d not in KNOWN_DECORATORS
                  and not d.endswith((".setter", ".getter", ".deleter")))


def dotted(node):
    """a.b.c -> 'a.b.c' for pure attribute chains on a Name, else None"""
    parts = []
    while isinstance(node, ast.Attribute):
        parts.append(node.attr)
        node = node.value
    if isinstance(node, ast.Name):
        parts.append(node.id)
        return ".".join(reversed(parts))
    return None


def mentions_object_dtype(e: ast.Call) -> bool:
    """a NumPy constructor call that names the object dtype: its result holds references"""
    for a in list(e.args) + [k.value for k in e.keywords]:
        for n in ast.walk(a):
            if isinstance(n, ast.Name) and n.id == "object":
                return True
            if isinstance(n, ast.Attribute) and n.attr in ("object_", "object"):
                return True
            if isinstance(n, ast.Constant) and isinstance(n.value, str) and (n.value in ("O", "object", "|O") or n.value.startswith("O")):
                return True
    return False


def keyword_literal(e: ast.Call, name: str):
    """('absent',) | ('const', value) | ('expr',) for keyword `name` of a call"""
    for k in e.keywords:
        if k.arg == name:
            return ("const", k.value.value) if isinstance(k.value, ast.Constant) else ("expr",)
        if k.arg is None:
            return ("expr",)  # **mapping may carry it
    return ("absent",)


def free_names(fn) -> set:
    """names read inside a lambda / nested function that are not its own parameters or locals (its free variables, and
    those of the functions nested in it)"""
    a = fn.args
    own = {x.arg for x in a.posonlyargs + a.args + a.kwonlyargs} | {x.arg for x in (a.vararg, a.kwarg) if x}
    if isinstance(fn, ast.FunctionDef):
        nonlocal_ = {x for n in ast.walk(fn) if isinstance(n, (ast.Nonlocal, ast.Global)) for x in n.names}
        own |= {n.id for n in ast.walk(fn) if isinstance(n, ast.Name) and isinstance(n.ctx, (ast.Store, ast.Del))} - nonlocal_
    return {n.id for n in ast.walk(fn) if isinstance(n, ast.Name) and isinstance(n.ctx, ast.Load)} - own


def assigned_names(fn) -> set:
    """names a function body binds (its locals), not counting nested function bodies' own parameters"""
    out = {n.id for n in ast.walk(fn) if isinstance(n, ast.Name) and isinstance(n.ctx, (ast.Store, ast.Del))}
    out |= {n.name for n in ast.walk(fn) if isinstance(n, (ast.FunctionDef, ast.ClassDef)) and n is not fn}
    for n in ast.walk(fn):
        if isinstance(n, (ast.Import, ast.ImportFrom)):
            out |= {(a.asname or a.name).split(".")[0] for a in n.names}
    nonlocal_ = {x for n in ast.walk(fn) if isinstance(n, (ast.Nonlocal, ast.Global)) for x in n.names}
    return out - nonlocal_


class Unsupported(Exception):
    """a construct that cannot be expressed soundly in the IR: the whole function becomes `unknown`"""


def unknown_program(nparams: int):
    """every parameter may be written and may be returned"""
    out = []
    for i in range(nparams):
        out += [["bind", i, ["param", i]], ["write", i], ["ret", i]]
    return ["seq", out]


def _join_da(a, b):
    if a is None:
        return b
    if b is None:
        return a
    return a & b


def definitely_bound(ir, bound, rets=None, jumps=None):
    """definite-assignment check of the emitted IR (with its control-flow markers): returns (variables bound after `ir`
    on every path that completes normally | None when no path does, first variable read while possibly unbound | None).
    Markers: ["stop", "ret" | "raise" | "jump"] ends the path (a `ret` inside a ["scope", [...]] — an inlined callee —
    ends the callee only, a `jump` the innermost loop's iteration); ["exc"] is the exception edge out of a statement of a
    `try` body.  The check is about the TRANSLATOR (does it read a variable it has not bound where Python has bound the
    name?), not about the Python program: like Python's own rule it assumes a loop body ran when a name bound in it is
    read after the loop, and a `try` body completed when a name bound in it is read after the handlers (Python raises
    UnboundLocalError otherwise, which is the `raise` rule of `Exec`, the only rule that applies to such a read)."""
    if bound is None:
        return None, None  # unreachable
    k = ir[0]
    if k == "skip":
        return bound, None
    if k == "exc":
        return None, None
    if k == "stop":
        if ir[1] == "ret" and rets is not None:
            rets.append(bound)
        if ir[1] == "jump" and jumps is not None:
            jumps.append(bound)
        return None, None
    if k == "bind":
        src = ir[2]
        if src[0] in ("alias", "load", "reach"):
            for y in src[1]:
                if y not in bound:
                    return bound, y
        return bound | {ir[1]}, None
    if k in ("write", "ret"):
        return bound, (None if ir[1] in bound else ir[1])
    if k == "store":
        for y in (ir[1], ir[3]):
            if y not in bound:
                return bound, y
        return bound, None
    if k == "kill":
        return bound - set(ir[1]), None
    if k == "seq":
        for s in ir[1]:
            bound, bad = definitely_bound(s, bound, rets, jumps)
            if bad is not None:
                return bound, bad
        return bound, None
    if k == "scope":
        inner = []
        end = bound
        for s in ir[1]:
            end, bad = definitely_bound(s, end, inner, None)
            if bad is not None:
                return end, bad
        for r in inner:
            end = _join_da(end, r)
        return end, None
    if k == "branch":
        a, bad = definitely_bound(ir[1], bound, rets, jumps)
        if bad is not None:
            return bound, bad
        b, bad = definitely_bound(ir[2], bound, rets, jumps)
        if bad is not None:
            return bound, bad
        return _join_da(a, b), None
    if k == "loop":
        inner = []
        end, bad = definitely_bound(ir[1], bound, rets, inner)
        if bad is not None:
            return bound, bad
        for r in inner:
            end = _join_da(end, r)
        # a second iteration starts from the end of the first: the body must also check from there
        if end is not None and end != bound:
            _, bad = definitely_bound(ir[1], bound & end, rets, [])
            if bad is not None:
                return bound, bad
        return (end if end is not None else bound), None
    raise ValueError(k)


def py_maybe_unbound(fn) -> set:
    """names of the Python function `fn` that its own control flow may read before binding them (the same optimistic
    rules as `definitely_bound`: a loop body ran, a `try` body completed).  Python raises UnboundLocalError on such a
    path; an IR variable of such a name that `definitely_bound` finds possibly unbound is the program's doing, not the
    translator's."""
    params = {a.arg for a in fn.args.posonlyargs + fn.args.args + fn.args.kwonlyargs}
    params |= {a.arg for a in (fn.args.vararg, fn.args.kwarg) if a}
    local = assigned_names(fn) | params
    flagged = set()

    def reads(node, bound, extra=frozenset()):
        """names read by an expression (nested function bodies run later: skipped; comprehension targets are their own)"""
        if node is None:
            return
        if isinstance(node, (ast.Lambda, ast.FunctionDef)):
            return
        if isinstance(node, (ast.ListComp, ast.SetComp, ast.GeneratorExp, ast.DictComp)):
            ex = set(extra)
            for g in node.generators:
                reads(g.iter, bound, frozenset(ex))
                ex |= {n.id for n in ast.walk(g.target) if isinstance(n, ast.Name)}
                for c in g.ifs:
                    reads(c, bound, frozenset(ex))
            for part in ([node.key, node.value] if isinstance(node, ast.DictComp) else [node.elt]):
                reads(part, bound, frozenset(ex))
            return
        if isinstance(node, ast.Name):
            if isinstance(node.ctx, ast.Load) and node.id in local and node.id not in bound and node.id not in extra:
                flagged.add(node.id)
            return
        for ch in ast.iter_child_nodes(node):
            reads(ch, bound, extra)

    def binds(target):
        return {n.id for n in ast.walk(target) if isinstance(n, ast.Name) and isinstance(n.ctx, (ast.Store,))}

    def walrus(node):
        return {n.target.id for n in ast.walk(node) if isinstance(n, ast.NamedExpr) and isinstance(n.target, ast.Name)} if node is not None else set()

    def join(a, b):
        return b if a is None else a if b is None else a & b

    def block(stmts, bound, jumps):
        for s in stmts:
            if bound is None:
                return None
            bound = stmt(s, bound, jumps)
        return bound

    def stmt(s, bound, jumps):
        if isinstance(s, (ast.FunctionDef, ast.ClassDef)):
            return bound | {s.name}
        if isinstance(s, (ast.Import, ast.ImportFrom)):
            return bound | {(a.asname or a.name).split(".")[0] for a in s.names}
        if isinstance(s, ast.Assign):
            reads(s.value, bound)
            for t in s.targets:
                reads(t, bound)
            out = bound | walrus(s.value)
            for t in s.targets:
                out = out | binds(t)
            return out
        if isinstance(s, ast.AnnAssign):
            reads(s.value, bound)
            reads(s.target, bound)
            return bound | (binds(s.target) if s.value is not None else set()) | walrus(s.value)
        if isinstance(s, ast.AugAssign):
            reads(s.value, bound)
            if isinstance(s.target, ast.Name) and s.target.id in local and s.target.id not in bound:
                flagged.add(s.target.id)
            reads(s.target, bound)
            return bound | binds(s.target)
        if isinstance(s, ast.Return):
            reads(s.value, bound)
            return None
        if isinstance(s, ast.Raise):
            reads(s.exc, bound)
            reads(s.cause, bound)
            return None
        if isinstance(s, (ast.Break, ast.Continue)):
            jumps.append(bound)
            return None
        if isinstance(s, ast.If):
            reads(s.test, bound)
            b0 = bound | walrus(s.test)
            return join(block(s.body, b0, jumps), block(s.orelse, b0, jumps))
        if isinstance(s, (ast.For, ast.While)):
            inner = []
            if isinstance(s, ast.For):
                reads(s.iter, bound)
                reads(s.target, bound)
                b0 = bound | binds(s.target) | walrus(s.iter)
            else:
                reads(s.test, bound)
                b0 = bound | walrus(s.test)
            end = block(s.body, b0, inner)
            for j in inner:
                end = join(end, j)
            end = end if end is not None else bound
            return block(s.orelse, end, jumps) if s.orelse else end
        if isinstance(s, ast.With):
            for it in s.items:
                reads(it.context_expr, bound)
                if it.optional_vars is not None:
                    reads(it.optional_vars, bound)
                    bound = bound | binds(it.optional_vars)
            return block(s.body, bound, jumps)
        if isinstance(s, ast.Try):
            end = block(s.body, bound, jumps)
            after = block(s.orelse, end, jumps) if end is not None else None
            for h in s.handlers:
                hb = (end if end is not None else bound) | ({h.name} if h.name else set())
                after = join(after, block(h.body, hb, jumps))
            if s.finalbody:
                after = block(s.finalbody, after if after is not None else bound, jumps) if after is not None else \
                    (block(s.finalbody, bound, jumps) and None)
            return after
        if isinstance(s, ast.Delete):
            for t in s.targets:
                reads(t, bound)
            return bound
        for ch in ast.iter_child_nodes(s):
            reads(ch, bound)
        return bound | walrus(s)

    block(fn.body, frozenset(params), [])
    return flagged


def strip_markers(ir):
    """the IR proper: control-flow markers removed (`scope` is a `seq`; an alternative that is only an exception edge
    is `skip`)"""
    k = ir[0]
    if k in ("stop", "exc"):
        return None
    if k in ("seq", "scope"):
        return ["seq", [t for t in (strip_markers(s) for s in ir[1]) if t is not None]]
    if k == "branch":
        return ["branch", strip_markers(ir[1]) or ["skip"], strip_markers(ir[2]) or ["skip"]]
    if k == "loop":
        return ["loop", strip_markers(ir[1]) or ["skip"]]
    return ir


class Translator:
    MAX_DEPTH = 7

    def __init__(self, prog: Program):
        self.prog = prog
        self._py_unbound = {}
        self.field_log = {}  # attribute name -> {id(store site): type of every value translated there so far | None}
        self.list_violation = False
        self.reset()

    def infer_plain_fields(self):
        """(class, attribute) pairs such that every exact instance of the class holds a plain value (ndarray / scalar /
        str / Path / None: no references) in the attribute.  A store site `self.<f> = v` inside a method can affect the
        instances the method can run on; any other store site (`obj.<f> = v` elsewhere) every class.  (K, f) is kept iff
        every store site that can affect K stores a value this translator judges plain, each judged in its own function.
        Greatest fixpoint (start from all pairs, drop violators until stable): sound as an invariant — assuming the
        fields hold plain values when READ, every WRITE stores a plain value — for objects that only pewlib's code builds
        and modifies, which the harness asserts on every pewlib object it passes (`plain_field_violations`)."""
        prog = self.prog
        prog.plain_fields = {}
        glob, local, owners = {}, {}, []   # f -> {site}, (class def, method) -> {(f, site)}
        for (mod, name), fn in prog.funcs.items():
            owners.append((mod, fn, None))
        for key, cls in prog.classes.items():
            for n in cls.body:
                if isinstance(n, ast.FunctionDef):
                    owners.append((key[0], n, key))
        in_method = set()
        for key, cls in prog.classes.items():
            for fn in cls.body:
                if not isinstance(fn, ast.FunctionDef) or not fn.args.args or "staticmethod" in decorators(fn) \
                        or "classmethod" in decorators(fn):
                    continue
                me = fn.args.args[0].arg
                rebound = any(isinstance(n, ast.Name) and n.id == me and isinstance(n.ctx, (ast.Store, ast.Del)) for n in ast.walk(fn))
                for node in ast.walk(fn):
                    if isinstance(node, ast.Attribute) and isinstance(node.ctx, (ast.Store, ast.Del)) \
                            and isinstance(node.value, ast.Name) and node.value.id == me and not rebound:
                        local.setdefault((key, fn.name), set()).add((node.attr, id(node)))
                        in_method.add(id(node))
        for tree in prog.mods.values():
            for node in ast.walk(tree):
                if isinstance(node, ast.Attribute) and isinstance(node.ctx, (ast.Store, ast.Del)) and id(node) not in in_method:
                    glob.setdefault(node.attr, set()).add(id(node))
                if (isinstance(node, ast.Name) and node.id in ("setattr", "delattr", "__dict__")) or \
                        (isinstance(node, ast.Attribute) and node.attr in ("__dict__", "__setattr__")):
                    return  # attributes may be set by name: nothing is known about any field
        def super_calls(cls):
            return {n.attr for n in ast.walk(cls) if isinstance(n, ast.Attribute) and isinstance(n.value, ast.Call)
                    and isinstance(n.value.func, ast.Name) and n.value.func.id == "super"}
        affects = {}   # class K -> {(f, site)} of the methods that can run on an exact K
        for K in prog.classes:
            acc = set()
            supers = set()
            for B in prog.mro(K):
                supers |= super_calls(prog.classes[B])
            for B in prog.mro(K):
                for fn in prog.classes[B].body:
                    if isinstance(fn, ast.FunctionDef):
                        m = prog.find_method(K, fn.name)
                        if (m is not None and m[0] == B) or fn.name in supers:
                            acc |= local.get((B, fn.name), set())
            affects[K] = acc
        def plain_type(t):
            return t == "arr" or (isinstance(t, tuple) and t[0] == "list" and plain_type(t[1]))
        # first guess (round 0, nothing assumed): the one plain type found at the store sites that can be judged without
        # assumptions; then the greatest fixpoint below that guess: a pair is dropped as soon as one of its sites stores
        # anything else under the current assumptions
        cand = None
        for _round in range(12):
            prog.plain_fields = dict(cand or {})
            self.field_log = {}
            self.list_violation = False
            for mod, fn, cls_key in owners:
                if not any(isinstance(n, ast.Attribute) and isinstance(n.ctx, ast.Store) for n in ast.walk(fn)):
                    continue
                ck = cls_key if cls_key and "staticmethod" not in decorators(fn) else None
                self.reset()
                try:
                    self._translate(mod, fn, ck, False, self.param_names(fn))
                except Unsupported:
                    pass
            site_t = {sid: t for sites in self.field_log.values() for sid, t in sites.items()}
            new = {}
            for K, acc in affects.items():
                for f in {g for g, _ in acc}:
                    sids = [sid for g, sid in acc if g == f] + list(glob.get(f, ()))
                    ts = {site_t.get(sid) for sid in sids}
                    if cand is None:
                        ts.discard(None)
                    t = next(iter(ts)) if len(ts) == 1 else None
                    if plain_type(t) and not (t != "arr" and self.list_violation) and (cand is None or cand.get((K, f)) == t):
                        new[(K, f)] = t
            if cand is not None and new == cand:
                break
            cand = new
        else:
            cand = {}
        prog.plain_fields = cand
        self.reset()

    def py_unbound(self, fn):
        if id(fn) not in self._py_unbound:
            self._py_unbound[id(fn)] = py_maybe_unbound(fn)
        return self._py_unbound[id(fn)]

    def reset(self):
        self.var_name = {}  # IR variable of a Python name -> (function node, name)
        self.ever_bound = set()  # IR variables some emitted statement binds (so far)
        self.nvars = 0
        self.nsites = 0
        self.diag = []      # unknown calls etc.
        self.arr = set()    # facts: v (var v holds a plain array / scalar), ("cont", v), ("tag", v, t), ("fld", v, attr)
        self.labels = {}    # attribute name -> heap label (>= 2)
        self.lambda_vals = {}
        self.gvar = None    # the object standing for all mutable module-level state
        self.killed = set() # IR variables of inlined callees that have returned (already out of scope)

    def new(self):
        self.nvars += 1
        return self.nvars - 1

    def site(self):
        self.nsites += 1
        return self.nsites - 1

    def label(self, attr):
        if attr not in self.labels:
            self.labels[attr] = len(self.labels) + 2
        return self.labels[attr]

    # ------------------------------------------------------------------ entry
    def translate(self, mod, fn: ast.FunctionDef, cls_key=None, constructor=False):
        """returns (np, param names, IR)"""
        self.reset()
        params = self.param_names(fn)
        nparams = len(params) - (1 if constructor else 0)
        pnames = [n for i, (n, _) in enumerate(params) if not (constructor and i == 0)]
        try:
            bad_dunders = self.prog.unhandled_dunders()
            if bad_dunders:
                raise Unsupported(f"classes define special methods that are called implicitly and not followed: {bad_dunders[:5]}")
            if unknown_decorators(fn):
                raise Unsupported(f"decorated with {unknown_decorators(fn)}: the function that runs is the decorator's result")
            ir = self._translate(mod, fn, cls_key, constructor, params)
            # fail closed per variable: one that is read while possibly unbound is bound to `unknown` at entry
            poisoned, own_doing = [], set()
            for _ in range(200):
                _, bad = definitely_bound(ir, frozenset(own_doing))
                if bad is None:
                    break
                owner = self.var_name.get(bad)
                if owner is not None and owner[1] in self.py_unbound(owner[0]):
                    own_doing.add(bad)  # the Python function itself may read this name before binding it
                    continue
                poisoned.append(bad)
                ir = ["seq", [["bind", bad, ["unknown"]], ir]]
            else:
                raise Unsupported("too many IR variables read before they are bound on every path")
            if poisoned:
                self.diag.append(f"IR variables read while possibly unbound, bound to `unknown` at entry: {poisoned}")
            ir = strip_markers(ir)
        except Unsupported as e:
            self.diag.append(f"UNKNOWN FUNCTION ({e}): every parameter may be written / aliased")
            ir = unknown_program(nparams)
        return nparams, pnames, ir

    def _translate(self, mod, fn, cls_key, constructor, params):
        scope = Scope(self, mod, cls_key, top=True)
        scope.fn_name = fn.name if cls_key is not None else None
        scope.fn_node = fn
        scope.setup_function(fn)
        rebinds = assigned_names(fn)
        scope.stable = {n for n, _ in params} - rebinds
        out = []
        # parameters are the IR variables 0 .. np-1 (the constructor's `self` comes after them)
        order = [p for i, p in enumerate(params) if not (constructor and i == 0)]
        for idx, (name, ann) in enumerate(order):
            v = scope.var(name)
            assert v == idx
            out.append(["bind", v, ["param", idx]])
        self.gvar = self.new()
        out.append(["bind", self.gvar, ["fresh", self.site()]])
        for i, (name, ann) in enumerate(params):
            if constructor and i == 0:
                v = scope.var(name)
                out.append(["bind", v, ["fresh", self.site()]])
                scope.selfvar = v
                scope.set_tag(v, ("cls", cls_key))
                continue
            v = scope.vars[name]
            if i == 0 and cls_key is not None and name == "self":
                scope.selfvar = v
            scope.annotate(v, mod, ann, is_self=(i == 0 and cls_key is not None))
            scope.immutable_param[name] = ann is not None and is_immutable_annotation(ann)
        scope.prebind_captured(fn, out)
        scope.block(fn.body, out, stack=[(mod, fn.name)])
        if constructor:
            scope.ret(scope.name_val(params[0][0]), out)
        return ["seq", out]

    # ------------------------------------------------------------------ call histories on one object
    def translate_history(self, cls_key, producer, members):
        """The IR of all call histories `obj = <producer>(...); obj.m1(...); obj.m2(...); ...` on an EXACT instance of
        class `cls_key` (see `history` in PewModel/Effects.lean).
        producer: ("init", def_key, fn) | ("classmethod", def_key, fn);  members: [(qualified name, def_key, fn, kind)] with
        kind in {"method", "property", "setter"}, dispatched as on an exact `cls_key` object.
        The parameters of the history are the producer's own parameters (without self / cls) followed by every member's
        (without self): what the caller passes at construction and in the later calls.  `*args` / `**kwargs` are not
        passed.  Returns {"np", "params": [(owner, name)], "ctor": IR, "methods": [IR], "obj": receiver variable,
        "tmp": an unused variable, "diag"}; a construct that cannot be expressed makes the whole history unknown."""
        self.reset()
        prog = self.prog
        kind, pkey, pfn = producer

        def own_params(fn, skip_first):
            a = fn.args
            ps = [(x.arg, ast.unparse(x.annotation) if x.annotation else None) for x in a.posonlyargs + a.args + a.kwonlyargs]
            return ps[1:] if skip_first else ps
        pname = f"{cls_key[0]}.{cls_key[1]}" + ("" if kind == "init" else f".{pfn.name}")
        plist = [(pname, n, ann, pkey[0]) for n, ann in own_params(pfn, True)]
        for q, dkey, fn, mkind in members:
            plist += [(q, n, ann, dkey[0]) for n, ann in own_params(fn, True)]
        nparams = len(plist)
        try:
            bad_dunders = prog.unhandled_dunders()
            if bad_dunders:
                raise Unsupported(f"classes define special methods that are called implicitly and not followed: {bad_dunders[:5]}")
            scope = Scope(self, cls_key[0], None, top=True)
            pre = []
            pvals = {}
            for idx, (owner, n, ann, mod) in enumerate(plist):
                v = scope.var(f"{owner}({n})")
                assert v == idx
                pre.append(["bind", v, ["param", idx]])
            self.gvar = self.new()
            pre.append(["bind", self.gvar, ["fresh", self.site()]])
            for idx, (owner, n, ann, mod) in enumerate(plist):
                scope.annotate(idx, mod, ann, is_self=False)
                pvals[(owner, n)] = f"{owner}({n})"
            scope.stable = set(scope.vars)
            stack = [(cls_key[0], "<history>")]
            kw = {n: scope.name_val(pvals[(pname, n)]) for n, _ in own_params(pfn, True)}
            if kind == "init":
                so = scope.fresh(pre)
                scope.set_tag(so, ("cls", cls_key))
                selfval = Val([so], False, False, False, ("cls", cls_key))
                scope.inline(pkey[0], pfn, [selfval], kw, pre, stack, cls_key=cls_key, def_cls=pkey)
                made = selfval
            else:
                made = scope.inline(pkey[0], pfn, [FRESH], kw, pre, stack, cls_key=cls_key, def_cls=pkey)
            obj = scope.var("<receiver>")
            scope.bind(pre, obj, made)
            if scope.tag_of(obj) is None and not scope.is_arr(made):
                scope.set_tag(obj, ("cls", cls_key))
            recv_tag = scope.tag_of(obj)
            alts_final = []

            def make(body):
                arr0, arrs = set(scope.arr), []
                del alts_final[:]
                for q, dkey, fn, mkind in members:
                    scope.arr = set(arr0)
                    b = []
                    recv = scope.name_val("<receiver>")
                    kwm = {n: scope.name_val(pvals[(q, n)]) for n, _ in own_params(fn, True)}
                    scope.inline(dkey[0], fn, [recv], kwm, b, stack, cls_key=cls_key, def_cls=dkey)
                    arrs.append(scope.arr)
                    alts_final.append(["seq", b])
                scope.arr = set.intersection(*arrs) if arrs else arr0
                node = ["skip"]
                for alt in reversed(alts_final):
                    node = ["branch", alt, node]
                body.append(node)
                return FRESH
            loop_out = []
            scope.in_loop(loop_out, make)
            ir = ["seq", pre + loop_out]
            poisoned = []
            for _ in range(200):
                _, bad = definitely_bound(ir, frozenset())
                if bad is None:
                    break
                owner = self.var_name.get(bad)
                if owner is not None and owner[1] in self.py_unbound(owner[0]):
                    raise Unsupported("a followed function may read one of its own names before binding it")
                poisoned.append(bad)
                pre.insert(0, ["bind", bad, ["unknown"]])
                ir = ["seq", pre + loop_out]
            else:
                raise Unsupported("too many IR variables read before they are bound on every path")
            if poisoned:
                self.diag.append(f"IR variables read while possibly unbound, bound to `unknown` at entry: {poisoned}")
            ctor = strip_markers(["seq", pre])
            methods = [strip_markers(a) for a in alts_final]
        except Unsupported as e:
            self.diag.append(f"UNKNOWN HISTORY ({e}): every parameter may be written")
            ctor, methods, obj = unknown_program(nparams), [], nparams
            ctor = ["seq", ctor[1] + [["bind", obj, ["fresh", 0]]]]
            self.nvars = nparams + 1
        return {"np": nparams, "params": [(o, n) for o, n, _, _ in plist], "ctor": ctor, "methods": methods, "obj": obj,
                "tmp": self.new(), "diag": list(self.diag)}

    def func_locals(self, mod, fn, scope=None):
        """local names that are only ever bound by `name = <pewlib function | local function | lambda>`:
        name -> tuple of function values ("key", pewlib key) / ("node", FunctionDef | Lambda).
        A call through such a name is one of those functions (translated as a branch over them)."""
        params = {n for n, _ in self.param_names(fn)}
        vals, plain = {}, set()
        for node in ast.walk(fn):
            if isinstance(node, ast.Assign) and len(node.targets) == 1 and isinstance(node.targets[0], ast.Name):
                vals.setdefault(node.targets[0].id, []).append(node.value)
                plain.add(id(node.targets[0]))
            elif isinstance(node, ast.AnnAssign) and isinstance(node.target, ast.Name):
                if node.value is not None:
                    vals.setdefault(node.target.id, []).append(node.value)
                plain.add(id(node.target))
        stored = {n.id for n in ast.walk(fn) if isinstance(n, ast.Name) and isinstance(n.ctx, (ast.Store, ast.Del))}
        other = {n.id for n in ast.walk(fn) if isinstance(n, ast.Name) and isinstance(n.ctx, (ast.Store, ast.Del))
                 and id(n) not in plain}
        other |= {n for node in ast.walk(fn) if isinstance(node, (ast.Global, ast.Nonlocal)) for n in node.names}
        localdefs = {}
        for n in ast.walk(fn):
            if isinstance(n, ast.FunctionDef) and n is not fn:
                localdefs.setdefault(n.name, []).append(n)
        other |= {n.name for n in ast.walk(fn) if isinstance(n, ast.ClassDef)}
        out = {}
        for name, vs in vals.items():
            if name in params or name in other or name in localdefs:
                continue
            keys = []
            for v in vs:
                if isinstance(v, ast.Lambda):
                    keys.append(("node", v))
                    continue
                if isinstance(v, ast.Name) and v.id in localdefs and len(localdefs[v.id]) == 1 and v.id not in stored | params:
                    keys.append(("node", localdefs[v.id][0]))
                    continue
                r = self.prog.resolve_name(mod, v) if isinstance(v, ast.Name) and v.id not in stored | params else None
                if not (r and r[0] == "func"):
                    keys = None
                    break
                keys.append(("key", r[1]))
            if keys:
                out[name] = tuple(keys)
        return out

    @staticmethod
    def param_names(fn):
        a = fn.args
        ps = [(x.arg, ast.unparse(x.annotation) if x.annotation else None) for x in a.posonlyargs + a.args]
        if a.vararg:
            ps.append((a.vararg.arg, None))
        ps += [(x.arg, ast.unparse(x.annotation) if x.annotation else None) for x in a.kwonlyargs]
        if a.kwarg:
            ps.append((a.kwarg.arg, None))
        return ps


def is_container_annotation(ann: str) -> bool:
    """annotations of builtin containers / str: method calls on them are the builtin ones"""
    parts = [x.strip() for x in ann.split("|")]
    return all(x == "None" or x == "str" or x.split("[")[0] in ("dict", "list", "tuple", "set", "Sequence", "Mapping")
               for x in parts)


PLAIN_TYPES = {"np.ndarray", "numpy.ndarray", "float", "int", "str", "bool", "Path", "bytes", "complex", "np.dtype",
               "np.float64", "np.float32", "np.int64", "np.int32"}
CONTAINER_TYPES = {"list", "tuple", "set", "frozenset", "Sequence", "Iterable", "Iterator", "Collection", "List", "Tuple", "Set"}
MAPPING_TYPES = {"dict", "Mapping", "Dict", "MutableMapping"}


def annotation_type(prog: Program, mod: str, node):
    """what a (trusted, dynamically asserted) annotation says about a value:
    "arr" (plain ndarray / scalar / str / Path: holds no references), ("list", t) (a builtin container whose items are t,
    t possibly None = unknown), ("cls", key) (an instance of that pewlib class or of a subclass), or None"""
    if node is None:
        return None
    if isinstance(node, str):
        try:
            node = ast.parse(node.strip(), mode="eval").body
        except SyntaxError:
            return None
    if isinstance(node, ast.Constant) and isinstance(node.value, str):
        return annotation_type(prog, mod, node.value)
    if isinstance(node, ast.Constant) and node.value is None:
        return "arr"
    if isinstance(node, ast.BinOp) and isinstance(node.op, ast.BitOr):
        parts, todo = [], [node]
        while todo:
            n = todo.pop()
            if isinstance(n, ast.BinOp) and isinstance(n.op, ast.BitOr):
                todo += [n.left, n.right]
            elif not (isinstance(n, ast.Constant) and n.value is None):
                parts.append(annotation_type(prog, mod, n))
        if not parts:
            return "arr"
        if all(p == parts[0] for p in parts):
            return parts[0]
        if all(isinstance(p, tuple) and p[0] == "list" for p in parts):
            return ("list", None)
        return None
    d = dotted(node)
    if d is not None:
        if d in PLAIN_TYPES:
            return "arr"
        if d in CONTAINER_TYPES or d in MAPPING_TYPES:
            return ("list", None)
        if isinstance(node, ast.Name):
            r = prog.resolve_name(mod, node)
            if r and r[0] == "class":
                return ("cls", r[1])
        return None
    if isinstance(node, ast.Subscript):
        base = dotted(node.value)
        args = node.slice.elts if isinstance(node.slice, ast.Tuple) else [node.slice]
        args = [a for a in args if not (isinstance(a, ast.Constant) and a.value is Ellipsis)]
        if base in CONTAINER_TYPES:
            ts = [annotation_type(prog, mod, a) for a in args]
            return ("list", ts[0] if ts and all(t == ts[0] for t in ts) else None)
        if base in MAPPING_TYPES and len(args) == 2:
            k, v = annotation_type(prog, mod, args[0]), annotation_type(prog, mod, args[1])
            return ("list", v if k == "arr" else None)  # keys are elements too
        if base in ("Optional",) and len(args) == 1:
            return annotation_type(prog, mod, args[0])
    return None


def annotation_tag(prog: Program, mod: str, ann) -> tuple | None:
    """`C` / `C | None` / "C" naming exactly one pewlib class -> ("cls", key);  `list[C]` -> ("list", ("cls", key))"""
    t = annotation_type(prog, mod, ann)
    if isinstance(t, tuple) and (t[0] == "cls" or (t[0] == "list" and t[1] is not None)):
        return t
    return None


def is_xml_annotation(ann: str) -> bool:
    parts = [x.strip().strip("'\"") for x in ann.split("|")]
    return all(x in XML_ANNOTATIONS or x == "None" for x in parts) and any(x in XML_ANNOTATIONS for x in parts)


def is_array_annotation(ann: str) -> bool:
    """annotations of values that hold no references: ndarray, scalars, str, Path (optionally `| None`)"""
    parts = [x.strip() for x in ann.split("|")]
    ok = {"np.ndarray", "float", "int", "str", "bool", "None", "Path", "str | Path"}
    return all(x in ok for x in parts)


def is_immutable_annotation(ann: str) -> bool:
    """annotations of values that cannot change between two tests of them"""
    parts = [x.strip() for x in ann.split("|")]
    return all(x in {"float", "int", "str", "bool", "None", "Path", "bytes", "complex"} for x in parts)


class Scope:
    def __init__(self, tr: Translator, mod, cls_key, top=False):
        self.tr, self.mod, self.cls_key, self.top = tr, mod, cls_key, top
        self.vars = {}        # python name -> IR variable
        self.res = None       # result variable of an inlined call
        self.res_arr = True
        self.selfvar = None   # variable of `self`
        self.def_cls = cls_key
        self.fn_name = None   # name of the method being translated (for `self`'s possible classes)
        self.fn_node = None   # the function whose body this scope translates
        self.localfuncs = {}
        self.funcvals = {}    # name -> tuple of function values the name certainly holds one of (see func_locals)
        self.fn_closure = {}  # id(FunctionDef | Lambda) -> Scope it closes over
        self.known = {}       # outcome of stable tests on the current path (path splitting)
        self.stable = set()   # parameter names never rebound in this function
        self.immutable_param = {}  # parameter name -> annotated with an immutable type
        self.weak = set()     # names read by nested functions / lambdas: never strongly updated once bound

    def setup_function(self, fn):
        """per-function syntactic facts: captured names, names possibly mutated, function-valued locals"""
        for k, v in self.tr.func_locals(self.mod, fn).items():
            self.funcvals[k] = v
            for kind, node in v:
                if kind == "node":
                    self.fn_closure[id(node)] = self
        for n in ast.walk(fn):
            if isinstance(n, (ast.Lambda, ast.FunctionDef)) and n is not fn:
                self.weak |= free_names(n)

    def prebind_captured(self, fn, out):
        """local names that nested functions / lambdas read are only ever weakly updated (`v := v | new`: the closure
        reads them when it runs, whenever that is), so they are bound (to nothing) before the body"""
        for name in sorted(self.weak & assigned_names(fn)):
            if name not in self.vars:
                out.append(["bind", self.var(name), ["fresh", self.tr.site()]])

    # ------------------------------------------------------------------ facts
    @property
    def arr(self):
        return self.tr.arr

    @arr.setter
    def arr(self, v):
        self.tr.arr = v

    def tag_of(self, v):
        for f in self.tr.arr:
            if type(f) is tuple and f[0] == "tag" and f[1] == v:
                return f[2]
        return None

    def set_tag(self, v, tag):
        old = self.tag_of(v)
        if old is not None:
            self.tr.arr.discard(("tag", v, old))
        if tag is not None:
            self.tr.arr.add(("tag", v, tag))

    def forget(self, v):
        """drop every fact about variable v (it is being rebound)"""
        self.tr.arr = {f for f in self.tr.arr if not (f == v or (type(f) is tuple and f[1] == v))}

    def annotate(self, v, mod, ann, is_self=False):
        """type facts from a (trusted, dynamically asserted) parameter annotation"""
        if ann is None:
            return
        t = annotation_type(self.tr.prog, mod, ann)
        if t == "arr":
            self.arr.add(v)
        elif isinstance(t, tuple) and t[0] == "list":
            self.arr.add(("cont", v))
            if t[1] is not None and self.tag_of(v) is None:
                self.set_tag(v, t)
        elif isinstance(t, tuple) and not is_self and self.tag_of(v) is None:
            self.set_tag(v, t)
        if is_xml_annotation(ann):
            self.set_tag(v, "xml")

    def var(self, name):
        if name not in self.vars:
            self.vars[name] = self.tr.new()
            if self.fn_node is not None:
                self.tr.var_name[self.vars[name]] = (self.fn_node, name)
        return self.vars[name]

    def name_val(self, name):
        v = self.vars[name]
        return Val([v], False, v in self.arr, ("cont", v) in self.arr, self.tag_of(v))

    def is_arr(self, val: Val):
        if val.unknown:
            return False
        if val.arr:
            return True
        return bool(val.own) and all(v in self.arr for v in val.own)

    def is_cont(self, val: Val):
        if val.unknown or self.is_arr(val):
            return False
        if val.cont or (isinstance(val.tag, tuple) and val.tag[0] == "list"):
            return True
        return bool(val.own) and all(("cont", v) in self.arr for v in val.own)

    # ------------------------------------------------------------------ IR helpers
    def fresh(self, out):
        t = self.tr.new()
        out.append(["bind", t, ["fresh", self.tr.site()]])
        return t

    def srcs(self, out, val: Val):
        """IR variables standing for the objects `val` may be (an `unknown` temporary added when needed)"""
        vs = sorted(val.own)
        if val.unknown:
            t = self.tr.new()
            out.append(["bind", t, ["unknown"]])
            vs.append(t)
        return vs

    def bind(self, out, v, val: Val, weak=False):
        self.tr.ever_bound.add(v)
        arr, cont = self.is_arr(val), self.is_cont(val)
        own = set(val.own) | ({v} if weak else set())
        if val.unknown:
            out.append(["bind", v, ["unknown"]])
        elif own:
            out.append(["bind", v, ["alias", sorted(own)]])
        else:
            out.append(["bind", v, ["fresh", self.tr.site()]])
        if weak:
            arr, cont = arr and v in self.arr, cont and ("cont", v) in self.arr
            tag = val.tag if val.tag == self.tag_of(v) else None
        else:
            tag = val.tag
            # facts about the fields of the object move with it when the value is exactly one variable
            flds = {f[2] for f in self.tr.arr if type(f) is tuple and f[0] == "fld" and len(val.own) == 1
                    and f[1] == next(iter(val.own))} if not val.unknown else set()
        self.forget(v)
        if arr:
            self.arr.add(v)
        if cont:
            self.arr.add(("cont", v))
        self.set_tag(v, None if arr else tag)
        if not weak:
            for a in flds:
                self.arr.add(("fld", v, a))

    def tmp(self, out, val: Val):
        v = self.tr.new()
        self.bind(out, v, val)
        return v

    def one(self, out, val: Val):
        """a single IR variable holding the value"""
        if len(val.own) == 1 and not val.unknown:
            return next(iter(val.own))
        return self.tmp(out, val)

    def elem(self, out, val: Val, label=WILD, view=None, tag=None):
        """an element / attribute / view of `val`: what slot `label` holds; `view`: or (part of) the value itself
        (default: unless it is known to be a builtin container)"""
        if self.is_arr(val):
            return Val(val.own, False, True)
        if view is None:
            view = not self.is_cont(val)
        if not val.own and not val.unknown:
            return FRESH
        t = self.tr.new()
        out.append(["bind", t, ["load", self.srcs(out, val), label, self.tr.site()]])
        own = {t} | (set(val.own) if view else set())
        tag = tag if tag is not None else loaded_tag(val.tag)
        if tag == "arr":  # items of a container annotated as holding plain arrays / scalars
            return Val(own, val.unknown, True)
        return Val(own, val.unknown, False, False, tag)

    def store(self, out, base: Val, label, val: Val, new_base=False):
        """the object(s) `base` now hold a reference to `val` in slot `label`"""
        if not (val.own or val.unknown) or not (base.own or base.unknown):
            return
        bs, vs = self.srcs(out, base), self.srcs(out, val)
        for b in bs:
            for v in vs:
                out.append(["store", b, label, v])
        for b in base.own:
            self.arr.discard(b)  # it holds a reference now
        if new_base:
            return  # an object created just now: no other name of it exists
        self.drop_field_facts(None if label == WILD else label)
        if not self.is_arr(val):
            if isinstance(base.tag, tuple) and base.tag[0] == "list" and label == WILD:
                self.tr.list_violation = True  # something not plain goes into a container typed as holding plain values
            self.drop_plain_item_tags()

    def drop_plain_item_tags(self):
        """a reference to something that is not a plain value was stored somewhere: no container is known to hold
        plain values only any more (containers may be aliased)"""
        def plain(t):
            return t == "arr" or (isinstance(t, tuple) and t[0] == "list" and plain(t[1]))
        self.tr.arr = {f for f in self.tr.arr if not (type(f) is tuple and f[0] == "tag" and plain(f[2]))}

    def drop_field_facts(self, label):
        names = {a for a, l in self.tr.labels.items() if label is None or l == label}
        self.tr.arr = {f for f in self.tr.arr if not (type(f) is tuple and f[0] == "fld" and f[2] in names)}

    def container(self, out, vals, tag=None, label=WILD):
        """a NEW container holding references to the values"""
        c = self.fresh(out)
        cv = Val([c], False, False, True, tag)
        for v in vals:
            self.store(out, cv, label, v, new_base=True)
        return cv

    def reach(self, out, vals):
        """a variable standing for anything reachable from the values, or None when they are all plain"""
        vs = []
        for v in vals:
            vs += self.srcs(out, v)
        if not vs:
            return None
        t = self.tr.new()
        out.append(["bind", t, ["reach", sorted(set(vs))]])
        return t

    def write(self, out, val: Val, deep=False):
        """a write through `val`: its own object(s); `deep` also everything reachable (unknown callee)"""
        if deep:
            t = self.reach(out, [val])
            if t is not None:
                out.append(["write", t])
            return
        for v in self.srcs(out, val):
            out.append(["write", v])

    # ------------------------------------------------------------------ statements
    def stable_test(self, t):
        """a test whose outcome cannot change between two evaluations in this function: identity tests (`is`, `is not`)
        among never-rebound parameters and constants; `==` / `!=` / truth of a never-rebound parameter annotated with an
        immutable type (str / int / float / bool / None) against constants; `not` / `and` / `or` of those"""
        def atom(n):
            return isinstance(n, ast.Constant) or (isinstance(n, ast.Name) and n.id in self.stable)

        def immut(n):
            return isinstance(n, ast.Constant) or (isinstance(n, ast.Name) and n.id in self.stable
                                                   and self.immutable_param.get(n.id, False))

        def ok(n):
            if isinstance(n, ast.BoolOp):
                return all(ok(v) for v in n.values)
            if isinstance(n, ast.UnaryOp) and isinstance(n.op, ast.Not):
                return ok(n.operand)
            if isinstance(n, ast.Compare):
                sides = [n.left] + list(n.comparators)
                if all(isinstance(o, (ast.Is, ast.IsNot)) for o in n.ops):
                    return all(atom(s) for s in sides)
                if all(isinstance(o, (ast.Eq, ast.NotEq, ast.Lt, ast.LtE, ast.Gt, ast.GtE)) for o in n.ops):
                    return all(immut(s) for s in sides)
                return False
            return immut(n) and isinstance(n, ast.Name)
        return ok(t)

    def block(self, stmts, out, stack, mode=False):
        """mode "try": inside a `try` body (also nested): any statement may be the last one executed before a handler
        runs, so every statement is individually skippable (the skip is an exception edge);
        mode "loop": inside a loop body with `continue` / `break`: after a statement that contains one, the rest of the
        block may not run"""
        for i, s in enumerate(stmts):
            if isinstance(s, ast.If) and not mode:
                key = ast.unparse(s.test)
                rest = stmts[i + 1:]
                if key not in self.known and self.stable_test(s.test) and any(
                        isinstance(n, ast.If) and ast.unparse(n.test) == key for st in rest for n in ast.walk(st)):
                    # path splitting: the continuation is translated once per outcome of the repeated test
                    self.expr(s.test, out, stack)
                    arr0 = set(self.arr)
                    a, b = [], []
                    self.known[key] = True
                    self.block(list(s.body) + list(rest), a, stack, mode)
                    arr_a = self.arr
                    self.arr = set(arr0)
                    self.known[key] = False
                    self.block(list(s.orelse) + list(rest), b, stack, mode)
                    del self.known[key]
                    self.arr = arr_a & self.arr
                    out.append(["branch", ["seq", a], ["seq", b]])
                    return
            if mode == "try":
                sub = []
                arr0, bound0 = set(self.arr), set(self.tr.ever_bound)
                self.stmt(s, sub, stack, mode)
                # the statement may not have completed: a fact survives if it held before too, or is about a variable
                # that had no binding before (then either it is still unbound or it is what this statement made it)
                self.arr = (arr0 & self.arr) | {f for f in self.arr if (f if type(f) is int else f[1]) not in bound0}
                out.append(["branch", ["seq", sub], ["exc"]])
            else:
                self.stmt(s, out, stack, mode)
                if mode == "loop" and i + 1 < len(stmts) and any(isinstance(n, JUMPS) for n in walk_no_nested_loops([s])):
                    rest = []
                    arr0 = set(self.arr)
                    self.block(stmts[i + 1:], rest, stack, mode)
                    self.arr = arr0 & self.arr
                    out.append(["branch", ["seq", rest], ["skip"]])
                    return

    def stmt(self, s, out, stack, jl=False):
        if isinstance(s, (ast.Pass, ast.Break, ast.Continue, ast.Global, ast.Nonlocal)):
            if isinstance(s, (ast.Global, ast.Nonlocal)):
                raise Unsupported(f"{type(s).__name__.lower()} declaration")
            if isinstance(s, JUMPS):
                out.append(["stop", "jump"])
            return
        if isinstance(s, (ast.Import, ast.ImportFrom)):
            for a in s.names:
                self.vars.pop((a.asname or a.name).split(".")[0], None)  # a module / imported object: not a tracked value
            return
        if isinstance(s, ast.Expr):
            self.expr(s.value, out, stack)
        elif isinstance(s, ast.Assign) and len(s.targets) == 1 and isinstance(s.targets[0], (ast.Tuple, ast.List)) \
                and isinstance(s.value, (ast.Tuple, ast.List)) and len(s.targets[0].elts) == len(s.value.elts) \
                and not any(isinstance(x, ast.Starred) for x in s.targets[0].elts + s.value.elts):
            # a, b = e1, e2: all right-hand sides first, then pairwise
            vals = []
            for x in s.value.elts:
                v = self.expr(x, out, stack)
                if v.own or v.unknown:
                    t = self.tmp(out, v)
                    v = Val([t], False, self.is_arr(v), self.is_cont(v), v.tag)
                vals.append(v)
            for t, v in zip(s.targets[0].elts, vals):
                self.assign(t, v, out, stack)
        elif isinstance(s, ast.Assign):
            val = self.expr(s.value, out, stack)
            if len(s.targets) > 1 or not isinstance(s.targets[0], ast.Name):
                val = Val([self.one(out, val)], False, self.is_arr(val), self.is_cont(val), val.tag) if (val.own or val.unknown) else val
            for t in s.targets:
                self.assign(t, val, out, stack)
        elif isinstance(s, ast.AnnAssign):
            if s.value is not None:
                self.assign(s.target, self.expr(s.value, out, stack), out, stack)
        elif isinstance(s, ast.AugAssign):
            rhs = self.expr(s.value, out, stack)
            tv = self.expr(s.target, out, stack)
            self.write(out, tv)  # in place for arrays and lists
            if isinstance(s.target, (ast.Subscript, ast.Attribute)):
                base = self.expr(s.target.value, out, stack)
                self.write(out, base)
                if not (self.is_arr(tv) and self.is_arr(rhs)):
                    # `o.items += xs` / `d[k] += xs`: the new value (the old one extended, or a new object built from both)
                    # is stored back
                    new = self.container(out, [self.elem(out, rhs, view=True), self.elem(out, tv, view=True)])
                    lab = self.tr.label(s.target.attr) if isinstance(s.target, ast.Attribute) else WILD
                    if not self.is_arr(base):
                        self.store(out, base, lab, new | tv)
            if not self.is_arr(tv) and not self.is_arr(rhs):
                el = self.elem(out, rhs, view=True)
                self.store(out, tv, WILD, el)  # list += iterable: the elements are kept
                if isinstance(s.op, ast.BitOr):
                    self.store(out, tv, WILD, self.elem(out, el, view=True))  # dict |= pairs
            elif not self.is_arr(tv) and (rhs.own or rhs.unknown):
                self.store(out, tv, WILD, rhs)
            if isinstance(s.target, ast.Name) and not self.is_arr(tv) and s.target.id in self.vars:
                # immutable left operands (tuple, str, number) are REBOUND to a new object holding both
                new = self.container(out, [self.elem(out, rhs, view=True), self.elem(out, tv, view=True)])
                self.bind(out, self.vars[s.target.id], new | tv, weak=True)
        elif isinstance(s, ast.Delete):
            for t in s.targets:
                if isinstance(t, (ast.Subscript, ast.Attribute)):
                    self.write(out, self.expr(t.value, out, stack))
        elif isinstance(s, ast.Return):
            val = self.expr(s.value, out, stack) if s.value is not None else FRESH
            self.ret(val, out)
            out.append(["stop", "ret"])
        elif isinstance(s, ast.Raise):
            if s.exc is not None:
                self.expr(s.exc, out, stack)
            if s.cause is not None:
                self.expr(s.cause, out, stack)
            out.append(["stop", "raise"])
        elif isinstance(s, ast.Assert):
            self.expr(s.test, out, stack)
            if s.msg is not None:
                self.expr(s.msg, out, stack)
        elif isinstance(s, ast.If) and ast.unparse(s.test) in self.known:
            self.block(s.body if self.known[ast.unparse(s.test)] else s.orelse, out, stack, jl)
        elif isinstance(s, ast.If):
            self.expr(s.test, out, stack)
            a, b = [], []
            arr0 = set(self.arr)
            self.block(s.body, a, stack, jl)
            arr_a = self.arr
            self.arr = set(arr0)
            self.block(s.orelse, b, stack, jl)
            self.arr = arr_a & self.arr
            out.append(["branch", ["seq", a], ["seq", b]])
        elif isinstance(s, (ast.For, ast.While)):
            has_jump = any(isinstance(n, JUMPS) for n in walk_no_nested_loops(s.body))
            arr0 = set(self.arr)
            pre = []
            it = self.expr(s.iter, pre, stack) if isinstance(s, ast.For) else None
            if it is not None and (it.own or it.unknown):
                it = Val([self.one(pre, it)], False, self.is_arr(it), self.is_cont(it), it.tag)
            out.extend(pre)
            # pass 1 finds which facts survive the body, pass 2 translates under those facts only
            for final in (False, True):
                diag = list(self.tr.diag)
                body = []
                if isinstance(s, ast.For):
                    self.assign(s.target, self.elem(body, it), body, stack)
                else:
                    self.expr(s.test, body, stack)
                self.block(s.body, body, stack, "try" if jl == "try" else ("loop" if has_jump else False))
                self.arr = arr0 & self.arr
                arr0 = set(self.arr)
                if not final:
                    self.tr.diag = diag
            out.append(["loop", ["seq", body]])
            if isinstance(s, ast.While):
                self.expr(s.test, out, stack)
            self.block(s.orelse, out, stack, jl)
        elif isinstance(s, ast.With):
            for item in s.items:
                val = self.expr(item.context_expr, out, stack)
                if item.optional_vars is not None:
                    if not (self.is_arr(val) or val.tag is not None or val.neutral()):
                        val = val | self.elem(out, val, view=True)  # what `__enter__` returns: the manager or a part of it
                    self.assign(item.optional_vars, val, out, stack)
            self.block(s.body, out, stack, jl)
        elif isinstance(s, ast.Try):
            # any prefix of the body may have run when a handler starts: every statement skippable
            body = []
            self.block(s.body, body, stack, "try")
            out.append(["seq", body])
            facts_body = set(self.arr)  # hold at every point of the body where the variables concerned are bound
            ends = []
            for h in s.handlers:
                hb = []
                self.arr = set(facts_body)
                if h.type is not None:
                    self.expr(h.type, hb, stack)
                if h.name:
                    self.bind(hb, self.var(h.name), FRESH)
                self.block(h.body, hb, stack, jl)
                ends.append(set(self.arr))
                out.append(["branch", ["seq", hb], ["skip"]])
            ob = []
            self.arr = set(facts_body)
            self.block(s.orelse, ob, stack, "try" if s.finalbody or jl == "try" else jl)
            out.append(["seq", ob])
            for e_ in ends:
                self.arr = self.arr & e_
            self.block(s.finalbody, out, stack, jl)
        elif isinstance(s, ast.FunctionDef):
            self.localfuncs[s.name] = s  # nested helper: inlined at its call sites (closure = this scope)
            self.fn_closure[id(s)] = self
            self.vars.pop(s.name, None)
        elif isinstance(s, ast.ClassDef):
            raise Unsupported("class definition inside a function")
        else:
            raise Unsupported(f"statement {type(s).__name__}")

    def ret(self, val: Val, out):
        if self.top:
            if self.is_arr(val):
                for v in sorted(val.own):
                    out.append(["ret", v])
                return
            t = self.reach(out, [val])  # the result and everything it holds references to
            if t is not None:
                out.append(["ret", t])
        else:
            self.res_arr = self.res_arr and self.is_arr(val)
            if val.unknown:
                out.append(["bind", self.res, ["unknown"]])
            else:
                out.append(["bind", self.res, ["alias", sorted(val.own | {self.res})]])
            self.res_tags.append(val.tag if (val.own or val.unknown or val.tag) else "neutral")
            self.res_cont = self.res_cont and (self.is_cont(val) or val.neutral())

    def assign(self, target, val: Val, out, stack):
        if isinstance(target, ast.Name):
            name = target.id
            self.localfuncs.pop(name, None)  # a nested function's name rebound to a value
            weak = name in self.weak and name in self.vars
            self.bind(out, self.var(name), val, weak=weak)
        elif isinstance(target, (ast.Tuple, ast.List)):
            for e in target.elts:
                if isinstance(e, ast.Starred):
                    self.assign(e.value, self.container(out, [self.elem(out, val)]), out, stack)
                else:
                    self.assign(e, self.elem(out, val), out, stack)
        elif isinstance(target, ast.Subscript):
            base = self.expr(target.value, out, stack)
            self.expr(target.slice, out, stack)
            for key, fn in self.dunder_candidates(base, "__setitem__"):
                self.inline(key[0], fn, [base, FRESH, val], {}, out, stack, cls_key=key)
            self.write(out, base)
            if not self.is_arr(base):
                self.store(out, base, WILD, val)
        elif isinstance(target, ast.Attribute):
            base = self.expr(target.value, out, stack)
            for key, fn in self.tr.prog.methods_named(target.attr):
                if any(d.endswith(".setter") for d in decorators(fn)):
                    self.inline(key[0], fn, [base, val], {}, out, stack, cls_key=key)
            self.write(out, base)
            t_new = "arr" if (self.is_arr(val) or val.neutral()) else (val.tag if isinstance(val.tag, tuple) and val.tag[0] == "list" else None)
            log = self.tr.field_log.setdefault(target.attr, {})
            log[id(target)] = t_new if log.get(id(target), t_new) == t_new else None
            if not (target.attr in ("dtype", "shape") and self.is_arr(base)):
                self.store(out, base, self.tr.label(target.attr), val)
                if len(base.own) == 1 and not base.unknown and self.is_arr(val):
                    self.arr.add(("fld", next(iter(base.own)), target.attr))
        elif isinstance(target, ast.Starred):
            self.assign(target.value, self.container(out, [val]), out, stack)
        else:
            raise Unsupported(f"assignment target {type(target).__name__}")

    def dunder_candidates(self, base: Val, name):
        """pewlib classes' own `__getitem__` / `__setitem__` / ... for a receiver that is not a plain array / builtin"""
        if self.is_arr(base) or self.is_cont(base) or (base.tag is not None and not isinstance(base.tag, tuple)):
            return []
        if isinstance(base.tag, tuple) and base.tag[0] == "cls":
            return self.tr.prog.overrides(base.tag[1], name)
        if isinstance(base.tag, tuple):
            return []
        return self.tr.prog.methods_named(name)

    # ------------------------------------------------------------------ expressions
    def global_val(self, name):
        """a module-level name that is not a function / class / module"""
        kind = self.tr.prog.global_kind(self.mod, name)
        if kind == "immutable":
            return FRESH
        if kind == "literal":  # a dict / list / set / tuple literal of constants: part of the module's mutable state
            return Val([self.tr.gvar], False, False, True)
        if kind == "mutable":
            return Val([self.tr.gvar])
        return None

    def function_value(self, node, out, stack):
        """a lambda / local function used as a value: an object holding (references to) its free variables; calling it
        through anything but a name that certainly holds it is an unknown call on that object"""
        held = []
        sc = self.fn_closure.get(id(node), self)
        for n in sorted(free_names(node)):
            if n in sc.vars:
                held.append(sc.name_val(n))
        held.append(Val([self.tr.gvar]))
        return self.container(out, held).untagged()

    def expr(self, e, out, stack) -> Val:
        if e is None or isinstance(e, (ast.Constant, ast.JoinedStr, ast.FormattedValue)):
            if isinstance(e, ast.JoinedStr):
                for v in e.values:
                    if isinstance(v, ast.FormattedValue):
                        self.stringify(self.expr(v.value, out, stack), out, stack)
            return FRESH
        if isinstance(e, ast.Name):
            if e.id in self.vars:
                return self.name_val(e.id)
            if e.id in self.localfuncs:
                return self.function_value(self.localfuncs[e.id], out, stack)
            if e.id in self.funcvals:
                vals = [self.function_value(n, out, stack) for kind, n in self.funcvals[e.id] if kind == "node"]
                return union(vals) if vals else FRESH
            r = self.tr.prog.resolve_name(self.mod, e)
            if r is not None and r[0] == "ext":
                m, _, n = r[1].rpartition(".")
                if m in self.tr.prog.mods and self.tr.prog.global_kind(m, n) in ("literal", "mutable"):
                    return Val([self.tr.gvar])  # a module-level object of another pewlib module
            if r is not None:
                return FRESH  # a pewlib function / class / module or an object of another library: not data we track
            g = self.global_val(e.id)
            if g is not None:
                return g
            import builtins
            if hasattr(builtins, e.id) or e.id in ("__name__", "__file__"):
                return FRESH
            self.tr.diag.append(f"unbound name {e.id} in {stack[-1]}")
            return Val(unknown=True)
        if isinstance(e, ast.BinOp):
            l = self.expr(e.left, out, stack)
            r = self.expr(e.right, out, stack)
            if (self.is_arr(l) or l.neutral()) and (self.is_arr(r) or r.neutral()):
                return FRESH
            if isinstance(e.op, ast.Mod) and isinstance(e.left, (ast.Constant, ast.JoinedStr)):
                self.stringify(r, out, stack)
                return FRESH
            if not isinstance(e.op, (ast.Add, ast.Mult, ast.Sub, ast.BitOr, ast.BitAnd, ast.BitXor, ast.Mod)):
                # / // ** @ << >>: no builtin container implements them (Path / str gives a new immutable Path); arrays
                # and numbers give new values; pewlib's classes define no operators
                return FRESH
            # list / tuple concatenation or repetition, set and dict operators: a new container sharing the elements
            tag = l.tag if l.tag == r.tag or r.neutral() else (r.tag if l.neutral() else None)
            return self.container(out, [self.elem(out, l, view=False), self.elem(out, r, view=False)],
                                  tag=tag if isinstance(tag, tuple) and tag[0] == "list" else None)
        if isinstance(e, ast.UnaryOp):
            v = self.expr(e.operand, out, stack)
            if isinstance(e.op, ast.Not) or self.is_arr(v) or v.neutral():
                return FRESH
            return self.container(out, [self.elem(out, v, view=False)])
        if isinstance(e, ast.Compare):
            self.expr(e.left, out, stack)
            for c in e.comparators:
                self.expr(c, out, stack)
            return FRESH
        if isinstance(e, ast.BoolOp):
            return union([self.expr(v, out, stack) for v in e.values])
        if isinstance(e, ast.IfExp):
            self.expr(e.test, out, stack)
            a, b = [], []
            arr0 = set(self.arr)
            va = self.expr(e.body, a, stack)
            arr_a = self.arr
            self.arr = set(arr0)
            vb = self.expr(e.orelse, b, stack)
            self.arr = arr_a & self.arr
            if a or b:
                res = self.tr.new()
                self.bind(a, res, va)
                fa = {f for f in self.tr.arr if f == res or (type(f) is tuple and f[1] == res)}
                self.bind(b, res, vb)
                fb = {f for f in self.tr.arr if f == res or (type(f) is tuple and f[1] == res)}
                self.forget(res)
                self.tr.arr |= fa & fb
                out.append(["branch", ["seq", a], ["seq", b]])
                v = va | vb
                return Val([res], False, res in self.arr, ("cont", res) in self.arr, v.tag)
            return va | vb
        if isinstance(e, (ast.Tuple, ast.List, ast.Set)):
            items, tag = [], None
            for x in e.elts:
                v = self.expr(x.value if isinstance(x, ast.Starred) else x, out, stack)
                items.append(self.elem(out, v) if isinstance(x, ast.Starred) else v)
            tags = {v.tag for v in items if not v.neutral()}
            if len(tags) == 1:
                tag = container_tag(next(iter(tags)))
            if all(self.is_arr(v) or v.neutral() for v in items):
                tag = ("list", "arr")  # holds plain values only (dropped when anything else is stored anywhere)
            return self.container(out, items, tag=tag)
        if isinstance(e, ast.Dict):
            items = []
            for k, v in zip(e.keys, e.values):
                if k is not None:
                    items.append(self.expr(k, out, stack))
                    items.append(self.expr(v, out, stack))
                else:
                    items.append(self.elem(out, self.expr(v, out, stack)))  # **mapping
            return self.container(out, items)
        if isinstance(e, ast.Starred):
            return self.expr(e.value, out, stack)
        if isinstance(e, ast.Slice):
            for x in (e.lower, e.upper, e.step):
                if x is not None:
                    self.expr(x, out, stack)
            return FRESH
        if isinstance(e, ast.Subscript):
            d = dotted(e.value)
            if d in ("np.r_", "np.c_", "np.s_", "np.index_exp", "np.mgrid", "np.ogrid") and d.split(".")[0] not in self.vars:
                self.expr(e.slice, out, stack)
                return FRESH
            base = self.expr(e.value, out, stack)
            self.expr(e.slice, out, stack)
            res = FRESH
            for key, fn in self.dunder_candidates(base, "__getitem__"):
                res = res | self.inline(key[0], fn, [base, FRESH], {}, out, stack, cls_key=key)
            if isinstance(e.slice, ast.Slice) and isinstance(base.tag, tuple) and base.tag[0] == "list":
                # a slice of a list is a new list of the same items
                return self.container(out, [self.elem(out, base, view=False)], tag=base.tag)
            if isinstance(e.slice, ast.Slice) and not self.is_arr(base):
                # a slice of an array is a view, of a builtin sequence a new sequence of its items
                v = self.elem(out, base)
                return res | v | self.container(out, [v]).untagged()
            return res | self.elem(out, base)
        if isinstance(e, ast.Attribute):
            return self.attribute(e, out, stack)
        if isinstance(e, (ast.ListComp, ast.SetComp, ast.GeneratorExp, ast.DictComp)):
            return self.comprehension(e, out, stack)
        if isinstance(e, ast.Lambda):
            if id(e) in self.tr.lambda_vals:  # argument of a builtin higher-order call: applied there (see `apply_fn`)
                return self.tr.lambda_vals[id(e)]
            self.fn_closure.setdefault(id(e), self)
            return self.function_value(e, out, stack)
        if isinstance(e, ast.NamedExpr):
            val = self.expr(e.value, out, stack)
            self.assign(e.target, val, out, stack)
            return val
        if isinstance(e, (ast.Yield, ast.YieldFrom)):
            val = self.expr(e.value, out, stack) if e.value is not None else FRESH
            if isinstance(e, ast.YieldFrom):
                val = self.elem(out, val)
            self.ret(val, out)
            return Val(unknown=True)  # what `send` passes in
        if isinstance(e, ast.Await):
            return self.expr(e.value, out, stack)
        if isinstance(e, ast.Call):
            return self.call(e, out, stack)
        raise Unsupported(f"expression {type(e).__name__}")

    def attribute(self, e, out, stack) -> Val:
        d = dotted(e)
        if d is not None and d.split(".")[0] not in self.vars and d.split(".")[0] not in self.localfuncs \
                and d.split(".")[0] not in self.funcvals:
            head = d.split(".")[0]
            r = self.tr.prog.resolve_name(self.mod, ast.Name(id=head))
            g = self.global_val(head) if r is None else None
            if g is None or g is FRESH:
                return FRESH  # module attribute / class attribute / constant
        base = self.expr(e.value, out, stack)
        if e.attr in FRESH_ATTRS:
            return FRESH
        if e.attr in FRESH_ATTRS_OF_PLAIN and self.is_arr(base):
            return FRESH
        if base.tag in ("xml", "xmlc") and e.attr in ("tag", "text", "tail"):
            return FRESH  # str (or None), like findtext
        if self.is_arr(base):
            return Val(base.own, False, True)  # T, real, imag, flat, ...: views
        # a data attribute that some class of the program assigns is loaded exactly; any other name may be a bound
        # method / a view: the receiver itself is included
        view = e.attr in VIEW_ATTRS or not self.tr.prog.attr_assigned(e.attr)
        is_fld_arr = len(base.own) == 1 and not base.unknown and ("fld", next(iter(base.own)), e.attr) in self.arr
        pewlib_obj = (isinstance(base.tag, tuple) and base.tag[0] == "cls") or \
            (self.selfvar is not None and base.own == {self.selfvar} and self.cls_key is not None)
        if pewlib_obj:
            if isinstance(base.tag, tuple) and base.tag[0] == "cls" and not (self.selfvar is not None and base.own == {self.selfvar}):
                classes = self.tr.prog.subclasses(base.tag[1])
            else:
                classes = self.tr.prog.self_classes(self.def_cls or self.cls_key, self.fn_name) if self.fn_name else \
                    self.tr.prog.subclasses(self.cls_key)
            ft = self.tr.prog.plain_for(classes, e.attr)
            if ft == "arr":
                is_fld_arr = True
            elif ft is not None:  # a builtin container of plain values
                v = self.elem(out, base, self.tr.label(e.attr), view=False)
                return Val(v.own, False, False, True, ft)
        if is_fld_arr:
            view = False  # a data attribute of a pewlib object
        val = self.elem(out, base, self.tr.label(e.attr), view=view)
        if self.tr.prog.class_level_attr(e.attr) and not is_fld_arr:
            # may be the class's own attribute: one object shared through the module state, whoever loads it
            g = Val([self.tr.gvar])
            shared = self.elem(out, g, self.tr.label(e.attr), view=False)
            self.store(out, g, self.tr.label(e.attr), shared)
            val = val | shared
        if is_fld_arr:
            for v in val.own:
                self.arr.add(v)
            val = Val(val.own, False, True)
        cands = []
        ftype = None
        if isinstance(e.value, ast.Attribute) and isinstance(e.value.value, ast.Name) and self.selfvar is not None \
                and self.cls_key and e.value.value.id in self.vars and self.vars[e.value.value.id] == self.selfvar:
            ftype = self.tr.prog.field_type(self.cls_key, e.value.attr)  # `self.<field>.<attr>` with a typed field
        if isinstance(base.tag, tuple) and base.tag[0] == "cls" and not (self.selfvar is not None and base.own == {self.selfvar}):
            ftype = base.tag[1]
        if base.tag in ("xml", "xmlc", "exec", "fut"):
            cands = []  # library objects: `tag text attrib tail` are plain attributes
        elif self.selfvar is not None and base.own == {self.selfvar} and self.cls_key:
            cands = [m for m in self.tr.prog.overrides(self.cls_key, e.attr) if "property" in decorators(m[1])]
        elif ftype is not None:
            cands = [m for m in self.tr.prog.overrides(ftype, e.attr) if "property" in decorators(m[1])]
        elif self.is_cont(base):
            cands = []
        else:
            cands = [(k, fn) for k, fn in self.tr.prog.methods_named(e.attr) if "property" in decorators(fn)]
        typed = pewlib_obj or ftype is not None
        if cands and typed and not self.tr.prog.attr_assigned(e.attr):
            val = FRESH  # a property of the receiver's own class hierarchy, never assigned as a data attribute
        for key, fn in cands:
            val = val | self.inline(key[0], fn, [base], {}, out, stack, cls_key=key)
        return val

    def comprehension(self, e, out, stack):
        """generators are bound in order: the first iterable is evaluated outside, every later one inside the loops of
        the earlier targets; the comprehension's variables are its own scope"""
        acc = self.fresh(out)
        accv = Val([acc], False, False, True)
        saved = dict(self.vars)
        targets = set()
        for g in e.generators:
            targets |= {n.id for n in ast.walk(g.target) if isinstance(n, ast.Name)}
        for n in targets:
            self.vars.pop(n, None)
        tags = []

        def level(i, body):
            if i == len(e.generators):
                if isinstance(e, ast.DictComp):
                    k = self.expr(e.key, body, stack)
                    val = self.expr(e.value, body, stack)
                    self.store(body, accv, WILD, k)
                else:
                    val = self.expr(e.elt, body, stack)
                self.store(body, accv, WILD, val)
                tags.append(val.tag)
                return
            g = e.generators[i]
            it = self.expr(g.iter, body, stack)
            inner = []

            def make(b):
                self.assign(g.target, self.elem(b, it), b, stack)
                for c in g.ifs:
                    self.expr(c, b, stack)
                level(i + 1, b)
                return FRESH
            self.in_loop(body, make)
        level(0, out)
        for n in targets:
            self.vars.pop(n, None)
        for n, v in saved.items():
            self.vars[n] = v
        tag = container_tag(tags[-1]) if tags else None
        return Val([acc], False, False, True, tag)

    # ------------------------------------------------------------------ function values
    def in_loop(self, out, make):
        """`make(body) -> Val` translated as the body of a loop (run any number of times), with the two passes over the
        facts that `for` statements use"""
        arr0 = set(self.arr)
        for final in (False, True):
            diag = list(self.tr.diag)
            body = []
            val = make(body)
            self.arr = arr0 & self.arr
            arr0 = set(self.arr)
            if not final:
                self.tr.diag = diag
        out.append(["loop", ["seq", body]])
        return val

    def lambda_body(self, lam: ast.Lambda, argvals, body, stack) -> Val:
        """the lambda's expression with its parameters bound to `argvals` (every parameter to their union when the
        positions are not known); the value is what the expression may return"""
        sc = self.fn_closure.get(id(lam), self)
        saved = {}
        a = lam.args
        names = [x.arg for x in a.posonlyargs + a.args]
        extra = [x.arg for x in a.kwonlyargs] + [y.arg for y in (a.vararg, a.kwarg) if y]
        anyv = union(argvals)
        dflt_of = {}
        for x, d in zip(reversed(a.posonlyargs + a.args), reversed(a.defaults)):
            dflt_of[x.arg] = d
        for x, d in zip(a.kwonlyargs, a.kw_defaults):
            if d is not None:
                dflt_of[x.arg] = d
        dvals = {n: self.expr(d, body, stack) for n, d in dflt_of.items()}  # evaluated in the defining scope
        for i, n in enumerate(names + extra):
            saved[n] = sc.vars.get(n)
            v = argvals[i] if i < len(argvals) and i < len(names) and len(argvals) <= len(names) else anyv
            if n in dvals and not (i < len(argvals) and i < len(names) and len(argvals) <= len(names)):
                v = v | dvals[n]  # not (certainly) passed: the default
            if n in (a.vararg.arg if a.vararg else None, a.kwarg.arg if a.kwarg else None):
                v = self.container(body, [anyv])
            sc.vars[n] = self.tmp(body, v)
        saved_vars = self.vars
        self.vars = sc.vars
        try:
            ret = self.expr(lam.body, body, stack)
        finally:
            self.vars = saved_vars
        for name, old in saved.items():
            if old is None:
                sc.vars.pop(name, None)
            else:
                sc.vars[name] = old
        return ret

    def pure_function_value(self, node) -> bool:
        """`str.isdigit`, `int`, `len`, ...: builtins passed as functions; they write nothing and return new values"""
        d = dotted(node)
        if d is None or d.split(".")[0] in self.vars or d.split(".")[0] in self.localfuncs or d.split(".")[0] in self.funcvals:
            return False
        if self.tr.prog.resolve_name(self.mod, ast.Name(id=d.split(".")[0])) is not None:
            return False
        parts = d.split(".")
        return (len(parts) == 2 and parts[0] in PURE_TYPES) or (len(parts) == 1 and (d in PURE_TYPES or d in ("len", "abs", "repr")))

    def apply_fn(self, fnode, elem_nodes, out, stack) -> Val:
        """a builtin higher-order callable applies `fnode` to elements: translated as calls in a loop; returns what
        the applications may return"""
        if self.pure_function_value(fnode):
            return FRESH
        if isinstance(fnode, ast.Constant) and fnode.value is None:  # filter(None, xs)
            return FRESH

        res = self.tr.new()
        out.append(["bind", res, ["fresh", self.tr.site()]])

        def make(body):
            if isinstance(fnode, ast.Lambda):
                self.fn_closure.setdefault(id(fnode), self)
                elems = [self.expr(n, body, stack) for n in elem_nodes]
                v = self.lambda_body(fnode, elems, body, stack)
            else:
                syn = ast.copy_location(ast.Call(func=fnode, args=list(elem_nodes), keywords=[]), fnode)
                v = self.call(syn, body, stack)
            self.bind(body, res, v, weak=True)
            return v
        v = self.in_loop(out, make)
        if isinstance(fnode, ast.Lambda):
            self.tr.lambda_vals[id(fnode)] = FRESH
        return Val([res], v.unknown, False, False, v.tag)

    def higher_order(self, e: ast.Call, out, stack):
        """(result of the applications | None, names of keywords that do not flow into the result)"""
        f = e.func

        def elem(n):
            n = n.value if isinstance(n, ast.Starred) else n
            return ast.copy_location(ast.Subscript(value=n, slice=ast.Constant(0), ctx=ast.Load()), n)
        builtin = isinstance(f, ast.Name) and f.id not in self.vars and f.id not in self.localfuncs \
            and f.id not in self.funcvals and self.tr.prog.resolve_name(self.mod, f) is None
        key = next((k.value for k in e.keywords if k.arg == "key"), None)
        if builtin and f.id in HOF_KEY and key is not None:
            pos = [a.value if isinstance(a, ast.Starred) else a for a in e.args]
            if len(pos) > 1:  # min(a, b, key=f): the arguments themselves
                for p in pos:
                    self.apply_fn(key, [p], out, stack)
            else:
                self.apply_fn(key, [elem(a) for a in e.args], out, stack)
            return None, {"key"}
        if isinstance(f, ast.Attribute) and f.attr == "sort" and key is not None:
            self.apply_fn(key, [elem(f.value)], out, stack)
            return None, {"key"}
        if builtin and f.id in HOF_FIRST and len(e.args) >= 2 and not isinstance(e.args[0], ast.Starred):
            res = self.apply_fn(e.args[0], [elem(a) for a in e.args[1:]], out, stack)
            return (res if f.id == "map" else None), set()
        return None, set()

    def call_one_of(self, fvals, args, kwargs, out, stack, arg_nodes) -> Val:
        """a call through a name that holds one of the functions `fvals`: a branch over inlining each"""
        res = self.tr.new()
        out.append(["bind", res, ["fresh", self.tr.site()]])
        arr0, arrs, alts, is_arr, rv = set(self.arr), [], [], True, FRESH
        for kind, f in fvals:
            self.arr = set(arr0)
            b = []
            if kind == "key":
                v = self.inline(f[0], self.tr.prog.funcs[f], args, kwargs, b, stack, arg_nodes=arg_nodes)
            elif isinstance(f, ast.Lambda):
                if kwargs:
                    v = self.unknown_call("lambda with keywords", args + list(kwargs.values()), b, f)
                else:
                    v = self.lambda_body(f, args, b, stack)
            else:
                sc = self.fn_closure.get(id(f), self)
                v = self.inline(sc.mod, f, args, kwargs, b, stack, cls_key=sc.cls_key, def_cls=sc.def_cls, closure=sc,
                                arg_nodes=arg_nodes)
            self.bind(b, res, v)
            is_arr = is_arr and self.is_arr(v)
            rv = rv | v
            arrs.append(self.arr)
            alts.append(["seq", b])
        self.arr = set.intersection(*arrs)
        node = alts[-1]
        for alt in reversed(alts[:-1]):
            node = ["branch", alt, node]
        out.append(node)
        self.forget(res)
        if is_arr:
            self.arr.add(res)
        return Val([res], rv.unknown, is_arr, False, None if is_arr else rv.tag)
    # ------------------------------------------------------------------ calls
    def call(self, e: ast.Call, out, stack) -> Val:
        self._stack = stack
        hof_res, no_flow = self.higher_order(e, out, stack)
        args = []
        star_from = None
        for i, a in enumerate(e.args):
            v = self.expr(a, out, stack)
            if isinstance(a, ast.Starred):
                star_from = i if star_from is None else star_from
                v = self.elem(out, v)
            args.append(v)
        if star_from is not None:  # positions are unknown from the first `*iterable` on: every later slot may get any of them
            tail = union(args[star_from:])
            args = args[:star_from] + [tail] * 12
        kwargs = {}
        for k in e.keywords:
            kwargs[k.arg or "**"] = self.expr(k.value, out, stack)
        arg_nodes = ([None if isinstance(a, ast.Starred) or star_from is not None else a for a in e.args] + [None] * 12,
                     {(k.arg or "**"): k.value for k in e.keywords})
        if "**" in kwargs:
            kwargs["**"] = self.elem(out, kwargs["**"])
            arg_nodes[1].pop("**", None)
        allargs = args + list(kwargs.values())
        flow = args + [v for k, v in kwargs.items() if k not in no_flow]
        f = e.func
        if "out" in kwargs:  # `out=` keyword: the named array (or every array of the tuple) is written
            o = kwargs["out"]
            self.write(out, o)
            if not self.is_arr(o):
                self.write(out, self.elem(out, o))

        d = dotted(f)
        if isinstance(f, ast.Name) and f.id in self.localfuncs and f.id not in self.vars:
            fn = self.localfuncs[f.id]
            sc = self.fn_closure.get(id(fn), self)
            return self.inline(sc.mod, fn, args, kwargs, out, stack, cls_key=sc.cls_key,
                               def_cls=sc.def_cls, closure=sc, arg_nodes=arg_nodes)
        if isinstance(f, ast.Name) and f.id in self.funcvals and f.id not in self.localfuncs:
            return self.call_one_of(self.funcvals[f.id], args, kwargs, out, stack, arg_nodes)
        if isinstance(f, ast.Name) and f.id == "cls" and self.cls_key:
            return self.construct_any(self.cls_key, args, kwargs, out, stack, arg_nodes)
        if isinstance(f, ast.Name) and f.id not in self.vars:
            r = self.tr.prog.resolve_name(self.mod, f)
            if r and r[0] == "func":
                return self.inline(r[1][0], self.tr.prog.funcs[r[1]], args, kwargs, out, stack, arg_nodes=arg_nodes)
            if r and r[0] == "class":
                return self.construct(r[1], args, kwargs, out, stack, arg_nodes)
            if r is None and self.tr.prog.global_kind(self.mod, f.id) is not None:
                return self.unknown_call(f.id, [Val([self.tr.gvar])] + allargs, out, e)
            name = r[1] if r and r[0] == "ext" else f.id
            return self.external(name, f.id, args, kwargs, flow, hof_res, out, e)
        if d is not None and d.split(".")[0] not in self.vars and d.split(".")[0] not in self.localfuncs \
                and d.split(".")[0] not in self.funcvals:
            head = d.split(".")[0]
            r = self.tr.prog.resolve_name(self.mod, ast.Name(id=head))
            if r and r[0] == "mod" and r[1].startswith("pewlib"):
                parts = d.split(".")[1:]
                mod = r[1]
                while len(parts) > 1 and self.tr.prog.path(f"{mod}.{parts[0]}") is not None:
                    mod = f"{mod}.{parts[0]}"
                    self.tr.prog.load(mod)
                    parts = parts[1:]
                if len(parts) == 1 and (mod, parts[0]) in self.tr.prog.funcs:
                    return self.inline(mod, self.tr.prog.funcs[(mod, parts[0])], args, kwargs, out, stack, arg_nodes=arg_nodes)
                if len(parts) == 1 and (mod, parts[0]) in self.tr.prog.classes:
                    return self.construct((mod, parts[0]), args, kwargs, out, stack, arg_nodes)
                if len(parts) == 2 and (mod, parts[0]) in self.tr.prog.classes:
                    return self.static_method((mod, parts[0]), parts[1], args, kwargs, out, stack, e, arg_nodes)
            if r and r[0] == "class" and len(d.split(".")) == 2:
                return self.static_method(r[1], d.split(".")[1], args, kwargs, out, stack, e, arg_nodes)
            parts = d.split(".")
            gk = self.tr.prog.global_kind(self.mod, head) if r is None else None
            if gk in ("literal", "mutable") and len(parts) == 2:
                # a method of a module-level object: handled like a method call on any other object (below)
                pass
            else:
                full = d
                if r and r[0] == "ext":
                    full = r[1] + d[len(head):]  # `from xml.etree import ElementTree` -> xml.etree.ElementTree.parse
                if r and r[0] == "mod":
                    full = r[1] + d[len(head):]
                    if r[1] == "numpy":
                        full = "np" + d[len(head):]
                    if r[1] == "numpy.lib.recfunctions":
                        full = "np.lib.recfunctions" + d[len(head):]
                    if r[1] == "numpy.lib.stride_tricks" or r[1] == "numpy.lib":
                        full = "np.lib" + r[1][len("numpy.lib"):] + d[len(head):]
                return self.external(full, d, args, kwargs, flow, hof_res, out, e)

        # ---- super().method(...)
        if isinstance(f, ast.Attribute) and isinstance(f.value, ast.Call) and isinstance(f.value.func, ast.Name) \
                and f.value.func.id == "super" and self.cls_key and self.selfvar is not None:
            m = self.tr.prog.find_method(self.cls_key, f.attr, after=self.def_cls)
            if m:
                return self.inline(m[0][0], m[1], [self.self_val()] + args, kwargs, out, stack,
                                   cls_key=self.cls_key, def_cls=m[0], arg_nodes=([None] + arg_nodes[0], arg_nodes[1]))
            if f.attr in ("__init__", "__init_subclass__", "__post_init__"):
                return FRESH  # object.__init__
            return self.unknown_call(ast.unparse(f), [self.self_val()] + allargs, out, e)

        # ---- method call on some object
        if isinstance(f, ast.Attribute):
            return self.method_call(e, f, args, kwargs, allargs, flow, hof_res, arg_nodes, out, stack)
        fv = self.expr(f, out, stack)
        return self.unknown_call(ast.unparse(f), [fv] + allargs, out, e)

    def method_call(self, e, f, args, kwargs, allargs, flow, hof_res, arg_nodes, out, stack) -> Val:
        recv = self.expr(f.value, out, stack)
        if recv.own or recv.unknown:
            recv = Val([self.one(out, recv)], False, self.is_arr(recv), self.is_cont(recv), recv.tag)
        name = f.attr
        res = FRESH
        handled = False
        if recv.tag in ("xml", "xmlc") and (name in XML_PART | XML_PARTS | XML_TEXT or (recv.tag == "xml" and name in XML_ATTR)):
            part = self.elem(out, recv, view=True)
            if name in XML_PART:
                return Val(part.own, part.unknown, False, False, "xml")
            if name in XML_PARTS:
                return self.container(out, [part], tag="xmlc")
            dflt = args[1] if len(args) > 1 else kwargs.get("default", FRESH)
            return dflt.untagged() | FRESH  # text / attribute strings, or the default
        if recv.tag == "exec" and name == "submit" and e.args and not isinstance(e.args[0], ast.Starred):
            # the executor calls args[0](*args[1:], **kwargs) (now or later, on the same objects)
            syn = ast.copy_location(ast.Call(func=e.args[0], args=list(e.args[1:]), keywords=list(e.keywords)), e)
            v = self.call(syn, out, stack)
            return self.container(out, [v], tag="fut")
        if recv.tag == "exec" and name == "map" and e.args and not isinstance(e.args[0], ast.Starred):
            def el(n):
                n = n.value if isinstance(n, ast.Starred) else n
                return ast.copy_location(ast.Subscript(value=n, slice=ast.Constant(0), ctx=ast.Load()), n)
            v = self.apply_fn(e.args[0], [el(a) for a in e.args[1:]], out, stack)
            return self.container(out, [v])
        if recv.tag == "exec" and name in ("shutdown", "__enter__", "__exit__"):
            return Val(recv.own, False, False, False, "exec")
        if recv.tag == "fut" and name in ("result", "exception", "done", "cancel", "cancelled", "running"):
            return self.elem(out, recv, view=False).untagged()
        on_self = self.selfvar is not None and recv.own == {self.selfvar} and self.cls_key
        cands = []
        if on_self:
            cands = self.tr.prog.overrides(self.cls_key, name)
        if not cands:
            cands = [(k, fn) for k, fn in self.tr.prog.methods_named(name) if "property" not in decorators(fn)]
        builtin = name in INPLACE_METHODS or name in FRESH_METHODS or name in VIEW_METHODS or name in COPY_METHODS \
            or name in ELEMENT_VIEW_METHODS or name in TUPLE_VIEW_METHODS or name in ARG_WRITING_METHODS
        is_cont = self.is_cont(recv)
        is_arr = self.is_arr(recv)
        if isinstance(recv.tag, tuple) and recv.tag[0] == "cls" and not on_self:
            typed = self.tr.prog.overrides(recv.tag[1], name)
            if typed:  # a method of the receiver's class hierarchy: exactly these, whatever the name
                for key, fn in typed:
                    decs = decorators(fn)
                    if "staticmethod" in decs:
                        a1, n1 = args, arg_nodes
                    else:
                        a1 = [FRESH if "classmethod" in decs else recv] + args
                        n1 = ([None] + arg_nodes[0], arg_nodes[1])
                    res = res | self.inline(key[0], fn, a1, kwargs, out, stack, cls_key=key, def_cls=key, arg_nodes=n1)
                return res
            cands = []  # not a method of that hierarchy: an attribute holding a callable, or a builtin of a base type
        elif recv.tag is not None and not (isinstance(recv.tag, tuple) and recv.tag[0] == "cls"):
            cands = []  # a library object / a list: never one of pewlib's classes
        if cands and not (builtin and (is_arr or is_cont)):
            for key, fn in cands:
                decs = decorators(fn)
                if "staticmethod" in decs:
                    res = res | self.inline(key[0], fn, args, kwargs, out, stack, cls_key=key, arg_nodes=arg_nodes)
                elif "classmethod" in decs:
                    res = res | self.inline(key[0], fn, [FRESH] + args, kwargs, out, stack, cls_key=key,
                                            arg_nodes=([None] + arg_nodes[0], arg_nodes[1]))
                else:
                    ck = self.cls_key if on_self else key
                    res = res | self.inline(key[0], fn, [recv] + args, kwargs, out, stack, cls_key=ck, def_cls=key,
                                            arg_nodes=([None] + arg_nodes[0], arg_nodes[1]))
            handled = True
        skip_builtin = on_self and cands
        if name in ARG_WRITING_METHODS and not skip_builtin:
            for i in ARG_WRITING_METHODS[name]:
                if i < len(args):
                    self.write(out, args[i])
            for k in ("x", "out", "buffer", "b"):
                if k in kwargs:
                    self.write(out, kwargs[k])
            self.write(out, recv)  # a generator's / file's own state
            res = res | union(flow)
            handled = True
        elif name in INPLACE_METHODS and not skip_builtin:
            if not (name == "byteswap" and keyword_literal(e, "inplace") == ("absent",) and not args):
                self.write(out, recv)
            if not is_arr:
                if name in STORING_SELF:
                    self.store(out, recv, WILD, union(flow))
                if name in STORING_ELEMS:
                    el = self.elem(out, union(flow), view=True)
                    self.store(out, recv, WILD, el)
                    if name == "update":  # dict.update(pairs): the elements of the pairs
                        self.store(out, recv, WILD, self.elem(out, el, view=True))
            res = res | self.elem(out, recv, view=True) | (union(flow) if name == "setdefault" else FRESH)
            handled = True
        elif name in COPY_METHODS and not skip_builtin:
            if name == "astype" and (keyword_literal(e, "copy") != ("absent",) or len(args) >= 5):
                res = res | Val(recv.own, recv.unknown, is_arr)  # astype(..., copy=False) may return the array itself
            if is_arr:
                res = res | FRESH
            else:  # a shallow copy: a new container of the same elements (ndarray.copy of an object array included)
                res = res | self.container(out, [self.elem(out, recv, view=False)], tag=recv.tag if is_cont else None)
            handled = True
        elif name in FRESH_METHODS and not skip_builtin:
            pos = METHOD_OUT_POS.get(name)
            if pos is not None and not is_cont and len(args) > pos:
                for a in args[pos:]:
                    self.write(out, a)
                    res = res | a
            if not (is_arr or is_cont or recv.tag is not None) and name in ("min", "max", "sum", "item", "tolist", "index"):
                res = res | self.elem(out, recv, view=True)  # of a non-array: an element
            res = res | FRESH
            handled = True
        elif name in ELEMENT_VIEW_METHODS and not skip_builtin:
            res = res | self.container(out, [self.elem(out, recv, view=not is_cont)])
            handled = True
        elif name in TUPLE_VIEW_METHODS and not skip_builtin:
            tup = self.container(out, [self.elem(out, recv, view=not is_cont)])
            res = res | self.container(out, [tup])
            handled = True
        elif name in VIEW_METHODS and not skip_builtin:
            res = res | self.elem(out, recv, view=True) | union(flow)
            handled = True
        if handled:
            return res
        return self.unknown_call(ast.unparse(f), [recv] + allargs, out, e)

    def self_val(self):
        for name, v in self.vars.items():
            if v == self.selfvar:
                return self.name_val(name)
        return Val([self.selfvar])

    def stringify(self, val: Val, out, stack):
        """str(x) / repr(x) / format / f"{x}": runs the class's own __str__ / __repr__ / __format__ when x is known to be
        an instance of a pewlib class; of any other value that is not a plain array / builtin container it is a call
        of a method this translator does not see: an unknown call"""
        if isinstance(val.tag, tuple) and val.tag[0] == "cls":
            for dunder in ("__str__", "__repr__", "__format__"):
                for key, fn in self.tr.prog.overrides(val.tag[1], dunder):
                    self.inline(key[0], fn, [val], {}, out, stack, cls_key=key, def_cls=key)
            return
        if self.is_arr(val) or self.is_cont(val) or val.tag is not None or not (val.own or val.unknown):
            return
        if any(k[1] in ("__str__", "__repr__", "__format__") for k in stack if len(k) == 4):
            return  # inside a __str__ already: the parts' own __str__ are not followed further (see `trusted`)
        for dunder in ("__str__", "__repr__", "__format__"):
            for key, fn in self.tr.prog.methods_named(dunder):
                self.inline(key[0], fn, [val], {}, out, stack, cls_key=key, def_cls=key)

    def external(self, full, shown, args, kwargs, flow, hof_res, out, e):
        """a call of a function that is not pewlib's: classified by the tables, else an unknown call"""
        if shown in ("str", "repr", "format", "print") and shown == full:
            for a in args:
                self.stringify(a, out, stack=self._stack)
        cands = {full, shown}
        if cands & REFLECTION or any(c.split(".")[0] in ("gc", "ctypes") for c in cands):
            raise Unsupported(f"reflection ({shown}): the code that runs is not the code that is read")
        for c in list(cands):
            if c.startswith("numpy."):
                cands.add("np." + c[len("numpy."):])
            if c.startswith("rfn."):
                cands.add("np.lib.recfunctions." + c[len("rfn."):])
            if c.startswith("stride_tricks."):
                cands.add("np.lib." + c)
        npname = next((c for c in sorted(cands) if c.startswith("np.")), None)
        u = union(flow)
        for c in cands:
            if c in WRITE_FUNCS:
                for i in WRITE_FUNCS[c]:
                    if i < len(args):
                        self.write(out, args[i])
                if c in STORE_FUNCS:
                    tgt, srcs = STORE_FUNCS[c]
                    if tgt < len(args):
                        self.store(out, args[tgt], WILD, union([args[i] for i in srcs if i < len(args)]))
                return FRESH
        if "setattr" in cands and shown == "setattr":
            if args:
                self.write(out, args[0])
                self.store(out, args[0], WILD, union(args[2:] + list(kwargs.values())))
            return FRESH
        if "vars" in cands and shown == "vars" and not args:
            raise Unsupported("vars() without argument: the local namespace as an object")
        if "vars" in cands and shown == "vars" and len(args) == 1:
            a = args[0]
            return Val(a.own, a.unknown)  # the object's own attribute dictionary
        for c in cands:
            if c in TAGGED_FRESH_FUNCS:
                return Val(tag=TAGGED_FRESH_FUNCS[c])
        # positional / keyword outputs of NumPy functions (positions read from the installed library)
        written = []
        if npname is not None and (cands & FRESH_FUNCS or cands & VIEW_FUNCS):
            pos = out_positions(npname)
            if pos is None:
                pos = list(range(1, len(args))) if len(args) > 1 else []
                pos = [i for i in pos if args[i].own or args[i].unknown]
            for i in pos:
                if i < len(args) and (args[i].own or args[i].unknown):
                    self.write(out, args[i])
                    written.append(args[i])
        if "out" in kwargs:
            o = kwargs["out"]
            written.append(o if self.is_arr(o) else self.elem(out, o, view=True))
        if "**" in kwargs and npname is not None and accepts_out(npname):  # `**mapping` may carry `out=`
            self.write(out, kwargs["**"])
            written.append(kwargs["**"])
        for c in cands:
            kw = WRITE_IF_KEYWORD.get(c)
            if kw and keyword_literal(e, kw) not in (("absent",), ("const", False)) and args:
                self.write(out, args[0])
                written.append(args[0])
        wres = union(written)
        if cands & FRESH_FUNCS:
            view_kw = set()
            for c in cands:
                view_kw |= VIEW_IF_KEYWORD.get(c, set())
            if any(keyword_literal(e, k) != ("absent",) for k in view_kw) or \
                    ("np.array" in cands and len(args) >= 3) or ("np.diff" in cands and len(args) >= 2):
                v = self.elem(out, args[0] if args else u, view=True)
                return v | wres | Val(arr=all(self.is_arr(a) for a in args[:1]))
            if npname is not None and mentions_object_dtype(e):
                return self.container(out, flow).untagged() | wres  # an object array holds references
            return FRESH | wres
        if cands & ELEMENT_CONTAINER_FUNCS or cands & TUPLE_CONTAINER_FUNCS:
            if hof_res is not None:
                return self.container(out, [hof_res], tag=container_tag(hof_res.tag))
            items = [self.elem(out, a, view=True) for a in args]
            if "itertools.chain.from_iterable" in cands:
                items = [self.elem(out, i, view=True) for i in items]
            if cands & {"dict", "collections.OrderedDict", "collections.defaultdict"}:
                items += [self.elem(out, i, view=True) for i in items]  # dict(pairs): the elements of the pairs
            items += [v for k, v in kwargs.items() if k not in ("key", "reverse", "strict", "repeat", "start")]
            tags = {a.tag for a in args if not a.neutral()}
            tag = next(iter(tags)) if len(tags) == 1 else None
            ctag = tag if tag in ("xmlc", "fut") or (isinstance(tag, tuple) and tag[0] == "list") else container_tag(tag) \
                if tag == "xml" else None
            if cands & TUPLE_CONTAINER_FUNCS:
                tup = self.container(out, items)
                return self.container(out, [tup])
            return self.container(out, items, tag=ctag)
        if hof_res is not None and not (cands & DEEP_FUNCS):
            return self.container(out, [hof_res], tag=container_tag(hof_res.tag))
        if cands & DEEP_FUNCS:
            if all(self.is_arr(a) or a.neutral() for a in flow) and not (cands & {"getattr", "next"}):
                return Val(u.own, u.unknown, True)  # min / max / sum of plain arrays / numbers
            t = self.reach(out, flow)
            if t is None:
                return FRESH
            tv = Val([t])
            return tv | self.container(out, [tv]).untagged()
        if cands & VIEW_FUNCS:
            for c in cands:
                if c in ("np.nan_to_num",) and keyword_literal(e, "copy") != ("absent",) and args:
                    self.write(out, args[0])  # copy=False: in place
            if "np.nan_to_num" in cands and len(args) >= 2 and args:
                self.write(out, args[0])
            src = args[0] if args else u
            if not self.is_arr(src):
                src = src | self.elem(out, src, view=True)  # a list of arrays: (views of) its elements
            return Val(src.own, src.unknown, self.is_arr(src)) | wres
        return self.unknown_call(full, args + list(kwargs.values()), out, e)

    def unknown_call(self, name, vals, out, e):
        """FAIL-CLOSED: the callee may write everything reachable from its arguments (and from itself: a closure holds
        its free variables), store any of it into any other of it, and return anything"""
        self.tr.diag.append(f"unknown call {name} (line {getattr(e, 'lineno', '?')} in {self.mod})")
        vals = [v for v in vals if v.own or v.unknown]
        res = self.fresh(out)
        if vals:
            vals = vals + [Val([self.tr.gvar])]
            t1 = self.reach(out, vals)
            out.append(["write", t1])
            t2 = self.reach(out, vals)
            # everything reachable may now hold everything reachable: through one hub object (res), so that the
            # abstract heap grows by |t1| + |t2| edges, not |t1| * |t2|
            out.append(["store", res, WILD, t2])
            out.append(["store", t1, WILD, res])
            for v in vals:
                for x in v.own:
                    self.arr.discard(x)
            self.drop_field_facts(None)
            self.drop_plain_item_tags()
        return Val([res], unknown=bool(vals))

    def static_method(self, cls_key, name, args, kwargs, out, stack, e, arg_nodes=None):
        m = self.tr.prog.find_method(cls_key, name)
        if not m:
            return self.unknown_call(f"{cls_key[1]}.{name}", args + list(kwargs.values()), out, e)
        decs = decorators(m[1])
        ap, kp = arg_nodes if arg_nodes is not None else ([None] * len(args), {})
        if "classmethod" in decs:
            return self.inline(m[0][0], m[1], [FRESH] + args, kwargs, out, stack, cls_key=cls_key, def_cls=m[0],
                               arg_nodes=([None] + list(ap), kp))
        return self.inline(m[0][0], m[1], args, kwargs, out, stack, cls_key=cls_key, def_cls=m[0], arg_nodes=(ap, kp))

    def construct_any(self, cls_key, args, kwargs, out, stack, arg_nodes=None):
        """`cls(...)` inside a classmethod: the class is the receiver's, i.e. `cls_key` or any subclass of it"""
        keys = [cls_key] + [k for k in self.tr.prog.subclasses(cls_key) if k != cls_key]
        if len(keys) == 1:
            return self.construct(cls_key, args, kwargs, out, stack, arg_nodes)
        res = self.tr.new()
        out.append(["bind", res, ["fresh", self.tr.site()]])
        arr0, arrs, alts = set(self.arr), [], []
        for k in keys:
            self.arr = set(arr0)
            b = []
            v = self.construct(k, args, kwargs, b, stack, arg_nodes)
            self.bind(b, res, v)
            arrs.append(self.arr)
            alts.append(["seq", b])
        self.arr = set.intersection(*arrs)
        node = alts[-1]
        for alt in reversed(alts[:-1]):
            node = ["branch", alt, node]
        out.append(node)
        self.forget(res)
        self.set_tag(res, ("cls", cls_key))
        return Val([res], False, False, False, ("cls", cls_key))

    def construct(self, cls_key, args, kwargs, out, stack, arg_nodes=None):
        so = self.fresh(out)
        self.set_tag(so, ("cls", cls_key))
        m = self.tr.prog.find_method(cls_key, "__init__")
        selfval = Val([so], False, False, False, ("cls", cls_key))
        ap, kp = arg_nodes if arg_nodes is not None else ([None] * len(args), {})
        if m:
            self.inline(m[0][0], m[1], [selfval] + args, kwargs, out, stack, cls_key=cls_key, def_cls=m[0],
                        arg_nodes=([None] + list(ap), kp))
        else:
            bases = self.tr.prog.classes[cls_key].bases
            if args or kwargs:  # a base class that is not pewlib's (NamedTuple, dataclass, ...): keeps its arguments
                self.store(out, selfval, WILD, union(args + list(kwargs.values())))
                if bases and not all(isinstance(b, ast.Name) and b.id in ("object", "NamedTuple", "Enum") for b in bases):
                    return self.unknown_call(f"{cls_key[1]}(...)", [selfval] + args + list(kwargs.values()), out, None) | selfval
        return Val([so], False, False, False, ("cls", cls_key))

    def inline(self, mod, fn, args, kwargs, out, stack, cls_key=None, def_cls=None, closure=None, arg_nodes=None):
        key = (mod, fn.name, def_cls or cls_key, fn.lineno)
        if len(stack) >= Translator.MAX_DEPTH or key in stack:
            self.tr.diag.append(f"inline limit at {fn.name}")
            return self.unknown_call(f"{fn.name} (inline limit)", args + list(kwargs.values()), out, fn)
        if isinstance(fn, ast.FunctionDef) and unknown_decorators(fn):
            return self.unknown_call(f"{fn.name} (decorated: {unknown_decorators(fn)})", args + list(kwargs.values()), out, fn)
        n0 = self.tr.nvars
        sc = Scope(self.tr, mod, cls_key)
        own_names = assigned_names(fn) | {n for n, _ in Translator.param_names(fn)}
        if closure is not None:  # free variables of a nested function are the enclosing scope's (read when it runs)
            sc.vars = {k: v for k, v in closure.vars.items() if k not in own_names}
            sc.localfuncs = {k: v for k, v in closure.localfuncs.items() if k not in own_names}
            sc.funcvals = {k: v for k, v in closure.funcvals.items() if k not in own_names}
            sc.fn_closure = dict(closure.fn_closure)
            sc.selfvar = closure.selfvar
            sc.weak = set(closure.weak)
        sc.setup_function(fn)
        sc.fn_node = fn
        sc.def_cls = def_cls or cls_key
        sc.fn_name = closure.fn_name if closure is not None else (fn.name if cls_key is not None else None)
        sc.res = self.tr.new()
        sc.res_tags, sc.res_cont = [], True
        out.append(["bind", sc.res, ["fresh", self.tr.site()]])
        params = Translator.param_names(fn)
        a = fn.args
        positional = [x.arg for x in a.posonlyargs + a.args]
        kwonly = [x.arg for x in a.kwonlyargs]
        is_method = cls_key is not None and bool(positional) and positional[0] == "self" \
            and "staticmethod" not in decorators(fn)
        extra = []
        bound = {}
        for i, v in enumerate(args):
            if i < len(positional):
                bound[positional[i]] = v
            elif a.vararg or i < 12:
                extra.append(v)
        for k, v in kwargs.items():
            if k in positional or k in kwonly:
                bound[k] = v
            elif k != "**":
                extra.append(v)
        # function values passed by name: the parameter IS one of these functions
        if arg_nodes is not None:
            ap, kp = arg_nodes
            named = [(positional[i], nd) for i, nd in enumerate(ap) if nd is not None and i < len(positional)]
            named += [(k, nd) for k, nd in kp.items() if nd is not None and (k in positional or k in kwonly)]
            rebinds = assigned_names(fn)
            for pname, nd in named:
                if pname in rebinds:
                    continue
                fv = self.function_of(nd)
                if fv is not None:
                    sc.funcvals[pname] = fv
                    for kind, node in fv:
                        if kind == "node":
                            sc.fn_closure[id(node)] = self.fn_closure.get(id(node), self)
        pvars = {name: self.tr.new() for name, ann in params}
        # bind all parameters from the caller's values before the callee's names shadow anything
        defaults = {}
        pos_defaults = a.defaults
        for x, dflt in zip(reversed(a.posonlyargs + a.args), reversed(pos_defaults)):
            defaults[x.arg] = dflt
        for x, dflt in zip(a.kwonlyargs, a.kw_defaults):
            if dflt is not None:
                defaults[x.arg] = dflt
        for name, ann in params:
            if name in bound:
                sc.bind(out, pvars[name], bound[name])
            elif (a.vararg and name == a.vararg.arg) or (a.kwarg and name == a.kwarg.arg):
                c = self.container(out, extra + ([kwargs["**"]] if "**" in kwargs else []))
                sc.bind(out, pvars[name], c)
            elif "**" in kwargs:
                sc.bind(out, pvars[name], kwargs["**"] | self.default_val(mod, defaults.get(name), out, closure, stack))
            else:
                sc.bind(out, pvars[name], self.default_val(mod, defaults.get(name), out, closure, stack))
        for name, ann in params:
            sc.vars[name] = pvars[name]
            sc.localfuncs.pop(name, None)
            sc.annotate(pvars[name], mod, ann, is_self=False)
            sc.immutable_param[name] = ann is not None and is_immutable_annotation(ann)
        sc.stable = {n for n, _ in params} - assigned_names(fn)
        if is_method:
            sc.selfvar = sc.vars[positional[0]]
        body_ir = []
        sc.prebind_captured(fn, body_ir)
        sc.block(fn.body, body_ir, stack + [key])
        out.append(["scope", body_ir])
        # the callee has returned: its parameters, locals and temporaries (every IR variable created since the call
        # started, except the result) are out of scope; the analysis drops them (`kill`), which keeps its state small
        dead = [v for v in range(n0, self.tr.nvars) if v != sc.res and v not in self.tr.killed]
        if dead:
            out.append(["kill", dead])
            self.tr.killed.update(dead)
        # facts about the fields of objects passed as exactly one variable hold for the caller's variable too
        rb = assigned_names(fn)
        for name, ann in params:
            if name in bound and name not in rb and len(bound[name].own) == 1 and not bound[name].unknown:
                x = next(iter(bound[name].own))
                for f in list(self.tr.arr):
                    if type(f) is tuple and f[0] == "fld" and f[1] == pvars[name]:
                        self.tr.arr.add(("fld", x, f[2]))
        rtag = None
        tags = [t for t in sc.res_tags if t != "neutral"]
        if tags and all(t == tags[0] for t in tags):
            rtag = tags[0]
        if rtag is None and not sc.res_arr and fn.name != "__init__":
            rtag = annotation_tag(self.tr.prog, mod, fn.returns)
        self.forget(sc.res)
        if sc.res_arr:
            self.arr.add(sc.res)
        elif sc.res_cont and sc.res_tags:
            self.arr.add(("cont", sc.res))
        self.set_tag(sc.res, None if sc.res_arr else rtag)
        return Val([sc.res], False, sc.res_arr, sc.res_cont and bool(sc.res_tags) and not sc.res_arr, rtag)

    def default_val(self, mod, node, out, closure=None, stack=None):
        """the value of a parameter default: constants, or part of the module's state (a mutable default is shared by
        all calls); of a nested function: evaluated in the enclosing scope"""
        if node is None or isinstance(node, ast.Constant):
            return FRESH
        if closure is not None:
            return closure.expr(node, out, stack) | Val([self.tr.gvar])
        if isinstance(node, (ast.Tuple,)) and all(isinstance(x, ast.Constant) for x in node.elts):
            return FRESH
        if isinstance(node, (ast.Name, ast.Attribute)):
            d = dotted(node)
            if d and self.tr.prog.resolve_name(mod, ast.Name(id=d.split(".")[0])) is not None:
                return FRESH
            if isinstance(node, ast.Name) and self.tr.prog.global_kind(mod, node.id) == "immutable":
                return FRESH
        if isinstance(node, (ast.UnaryOp, ast.BinOp)) and all(
                isinstance(n, (ast.Constant, ast.UnaryOp, ast.BinOp, ast.operator, ast.unaryop, ast.Attribute, ast.Name, ast.Load))
                for n in ast.walk(node)):
            return FRESH
        return Val([self.tr.gvar])

    def function_of(self, node):
        """function values an argument expression certainly denotes, or None"""
        if isinstance(node, ast.Lambda):
            self.fn_closure.setdefault(id(node), self)
            return (("node", node),)
        if isinstance(node, ast.Name):
            if node.id in self.vars:
                return None
            if node.id in self.localfuncs:
                return (("node", self.localfuncs[node.id]),)
            if node.id in self.funcvals:
                return self.funcvals[node.id]
            r = self.tr.prog.resolve_name(self.mod, node)
            if r and r[0] == "func":
                return (("key", r[1]),)
        return None


def walk_no_nested_loops(stmts):
    for s in stmts:
        yield s
        for fld in ("body", "orelse", "handlers", "finalbody"):
            sub = getattr(s, fld, None)
            if sub and not isinstance(s, (ast.For, ast.While, ast.FunctionDef, ast.ClassDef)):
                yield from walk_no_nested_loops([x for x in sub if isinstance(x, ast.AST)])
        if isinstance(s, ast.ExceptHandler):
            yield from walk_no_nested_loops(s.body)


# ----------------------------------------------------------------------------- inventory
INVENTORY_MODULES = [
    "pewlib.process.calc", "pewlib.process.colocal", "pewlib.process.filters", "pewlib.process.register",
    "pewlib.process.convolve", "pewlib.process.threshold", "pewlib.calibration", "pewlib.laser", "pewlib.srr.srr",
    "pewlib.io.laser", "pewlib.io.npz", "pewlib.io.textimage", "pewlib.io.vtk", "pewlib.config", "pewlib.srr.config",
    # the remaining processing and I/O modules of the property's quantifier
    "pewlib.io.agilent", "pewlib.io.csv", "pewlib.io.thermo", "pewlib.io.imzml", "pewlib.io.perkinelmer",
    "pewlib.process.peakfinding",
]


def inventory(prog: Program, modules=None):
    """every public function and method of the inventoried modules: (qualified name, module, fn, cls_key, constructor)"""
    out = []
    for mod in (INVENTORY_MODULES if modules is None else modules):
        tree = prog.mods.get(mod)
        if tree is None:
            continue
        for node in tree.body:
            if isinstance(node, ast.FunctionDef) and not node.name.startswith("_"):
                out.append((f"{mod}.{node.name}", mod, node, None, False))
            elif isinstance(node, ast.ClassDef) and not node.name.startswith("_"):
                for n in node.body:
                    if not isinstance(n, ast.FunctionDef):
                        continue
                    decs = decorators(n)
                    if n.name == "__init__":
                        out.append((f"{mod}.{node.name}", mod, n, (mod, node.name), True))
                    elif n.name.startswith("_"):
                        continue
                    elif any(d.endswith(".setter") for d in decs):
                        out.append((f"{mod}.{node.name}.{n.name}.setter", mod, n, (mod, node.name), False))
                    else:
                        out.append((f"{mod}.{node.name}.{n.name}", mod, n, (mod, node.name), False))
    return out


def class_members(prog: Program, cls_key):
    """what can be called on an EXACT instance of the class: (producers, members).
    producers: the constructor and the public classmethods of the hierarchy (as dispatched on `cls_key`);
    members: the public methods, property getters and property setters (ordinary dispatch: the first definition in
    the MRO), as (qualified name of the definition, def_key, fn, kind)"""
    producers, members, seen = [], [], set()
    init = prog.find_method(cls_key, "__init__")
    if init is not None:
        producers.append(("init", init[0], init[1]))
    for k in prog.mro(cls_key):
        for n in prog.classes[k].body:
            if not isinstance(n, ast.FunctionDef) or n.name.startswith("_"):
                continue
            decs = decorators(n)
            setter = any(d.endswith(".setter") for d in decs)
            slot = (n.name, "setter" if setter else "get")
            if slot in seen:
                continue
            seen.add(slot)
            if "staticmethod" in decs:
                continue
            if "classmethod" in decs:
                producers.append(("classmethod", k, n))
            elif setter:
                members.append((f"{k[0]}.{k[1]}.{n.name}.setter", k, n, "setter"))
            elif "property" in decs:
                members.append((f"{k[0]}.{k[1]}.{n.name}", k, n, "property"))
            elif n.args.args and n.args.args[0].arg == "self":
                members.append((f"{k[0]}.{k[1]}.{n.name}", k, n, "method"))
    return producers, members


def histories(prog: Program, tr: "Translator", modules=None):
    """one history program per (public class of the inventoried modules, producer)"""
    out = []
    for mod in (INVENTORY_MODULES if modules is None else modules):
        tree = prog.mods.get(mod)
        if tree is None:
            continue
        for node in tree.body:
            if not (isinstance(node, ast.ClassDef) and not node.name.startswith("_")):
                continue
            key = (mod, node.name)
            producers, members = class_members(prog, key)
            for pr in producers:
                h = tr.translate_history(key, pr, members)
                h["class"] = f"{mod}.{node.name}"
                h["producer"] = h["class"] if pr[0] == "init" else f"{h['class']}.{pr[2].name}"
                h["members"] = [m[0] for m in members]
                h["member_kinds"] = [m[3] for m in members]
                out.append(h)
    return out


def translate_all(repo: Path, modules=None, src="src"):
    prog = Program(repo, INVENTORY_MODULES if modules is None else modules, src)
    tr = Translator(prog)
    tr.infer_plain_fields()
    res = []
    for qual, mod, fn, cls_key, ctor in inventory(prog, modules):
        sc_np, pnames, ir = tr.translate(mod, fn, cls_key, ctor)
        res.append({"name": qual, "np": sc_np, "params": pnames, "ir": ir, "diag": list(tr.diag),
                    "kind": "constructor" if ctor else ("method" if cls_key else "function")})
    return res


if __name__ == "__main__":
    import json
    import sys

    r = translate_all(Path(sys.argv[1] if len(sys.argv) > 1 else "/repo"))
    for f in r:
        print(f["name"], f["np"], f["params"], len(json.dumps(f["ir"])), f["diag"][:5])
