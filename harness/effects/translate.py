"""Python AST -> effect IR (C19).  Regenerates, from /repo's current source, the program that
`PewModel/Effects.lean` analyses.  See DESIGN.md 5.19.

IR (JSON): ["skip"] | ["bind", x, src] | ["write", x] | ["ret", x] | ["seq", [s...]] |
           ["branch", s, t] | ["loop", s];   src = ["param", i] | ["fresh"] | ["alias", [y...]] | ["unknown"]

A parameter and everything reachable from it (elements, attributes, dict values, views) is ONE
region.  The translation over-approximates: whatever it cannot classify becomes `unknown` plus a
write to every argument.  Calls to other pewlib functions/methods are inlined.

Besides the regions, a value may carry a TAG, a flow-sensitive fact about its library type (kept with the
`arr` facts, intersected at joins): ElementTree objects, executors / futures, instances of a pewlib
class (from constructors and trusted annotations).  Tags only select which method table applies to a
receiver (ElementTree's pure accessors, `submit`, the class hierarchy's own methods); an untagged
receiver is dispatched by name as before, and a method outside every table stays an unknown call.
Function values: lambdas and functions handed to sorted/min/max/map/filter/list.sort are applied to the
items in a loop; names that can only hold pewlib functions are called as a branch over them; any
other function-valued parameter or variable is an unknown call.
"""
from __future__ import annotations

import ast
from pathlib import Path

# ----------------------------------------------------------------------------- tables (trusted)
# NumPy / stdlib callables returning FRESH memory and writing nothing (keyed by dotted name suffix)
FRESH_FUNCS = set("""
np.array np.empty np.zeros np.ones np.full np.empty_like np.zeros_like np.ones_like np.full_like np.arange np.linspace
np.stack np.vstack np.hstack np.dstack np.concatenate np.append np.insert np.delete np.repeat np.tile np.pad np.copy
np.isnan np.isinf np.isfinite np.isin np.all np.any np.sum np.nansum np.mean np.nanmean np.median np.nanmedian np.std
np.nanstd np.var np.nanvar np.amin np.amax np.min np.max np.nanmin np.nanmax np.argmin np.argmax np.argsort np.sort
np.cumsum np.cumprod np.prod np.diff np.abs np.absolute np.sqrt np.exp np.log np.log1p np.log2 np.log10 np.power np.sign
np.round np.around np.floor np.ceil np.clip np.where np.nonzero np.flatnonzero np.count_nonzero np.unravel_index
np.ravel_multi_index np.logical_and np.logical_or np.logical_not np.logical_xor np.maximum np.minimum np.add np.subtract
np.multiply np.divide np.maximum.accumulate np.minimum.accumulate np.add.reduce np.add.reduceat np.lcm np.lcm.reduce
np.gcd np.searchsorted np.histogram np.cov np.corrcoef np.convolve np.correlate np.unique np.iscomplexobj np.isscalar
np.fft.rfft np.fft.irfft np.fft.rfftn np.fft.irfftn np.fft.fft np.fft.ifft np.fft.fftn np.fft.ifftn np.fft.fftshift
np.polynomial.polynomial.polyfit np.polyfit np.polyval np.dot np.matmul np.outer np.cross np.interp np.digitize
np.bincount np.percentile np.quantile np.nanpercentile np.genfromtxt np.loadtxt np.load np.savez np.savez_compressed
np.save np.savetxt np.fromfile np.frombuffer np.dtype np.uint64 np.uint32 np.uint8 np.int64 np.int32 np.float64
np.float32 np.bool_ np.random.permutation np.random.random np.random.normal np.random.default_rng np.allclose
np.array_equal np.shares_memory np.meshgrid np.indices np.trim_zeros np.lib.recfunctions.drop_fields
np.lib.recfunctions.append_fields np.lib.recfunctions.merge_arrays np.lib.recfunctions.unstructured_to_structured
np.lib.recfunctions.structured_to_unstructured
len int float str bool complex abs round min max sum any all isinstance issubclass hasattr callable range slice repr
print format ord chr hash id divmod pow type bytes bytearray open
ValueError TypeError KeyError IndexError IOError OSError RuntimeError NotImplementedError AttributeError StopIteration
UserWarning DeprecationWarning Exception AssertionError FileNotFoundError ZeroDivisionError
Path pathlib.Path time.time time.strptime time.mktime calendar.timegm logging.getLogger math.sqrt math.exp math.log
math.floor math.ceil math.isnan math.gamma math.erf math.pi version importlib.metadata.version copy.deepcopy
logger.warning logger.info logger.debug logger.error logger.exception warnings.warn re.compile re.match re.search
re.findall struct.pack struct.unpack sys.byteorder
int.from_bytes np.take_along_axis np.trapezoid np.trapz np.logical_or.reduce np.logical_and.reduce np.argpartition
np.nanargmax np.nanargmin np.uint16 np.int8 np.int16
""".split())
# int.from_bytes builds an int from a bytes object; take_along_axis gathers by fancy indexing (a new array);
# trapezoid / ufunc.reduce / argpartition / nanarg* return new arrays or scalars (an `out=` keyword is a write, see `call`)

# callables whose result may be a VIEW / shares elements with (some of) its arguments; write nothing
VIEW_FUNCS = set("""
np.asarray np.asanyarray np.ascontiguousarray np.atleast_1d np.atleast_2d np.atleast_3d np.reshape np.ravel np.swapaxes
np.flip np.fliplr np.flipud np.squeeze np.transpose np.moveaxis np.rollaxis np.expand_dims np.broadcast_to np.real
np.imag np.diag np.diagonal np.lib.stride_tricks.as_strided np.lib.stride_tricks.sliding_window_view
np.lib.recfunctions.rename_fields np.split np.array_split np.rot90 np.take np.nan_to_num np.require
next getattr
""".split())

# callables returning a NEW container that holds references to (the elements of) their arguments
CONTAINER_FUNCS = set("""
tuple list dict set frozenset sorted reversed enumerate zip iter copy.copy map filter dict.values dict.keys dict.items vars
""".split())

# callables that write to some of their arguments: name -> indices of written positional args
WRITE_FUNCS = {
    "np.copyto": [0], "np.put": [0], "np.place": [0], "np.putmask": [0], "np.fill_diagonal": [0],
    "np.random.shuffle": [0], "np.add.at": [0], "np.subtract.at": [0], "np.multiply.at": [0],
    "np.maximum.at": [0], "np.minimum.at": [0], "setattr": [0], "delattr": [0], "random.shuffle": [0],
}

# methods (by name) that mutate their receiver
INPLACE_METHODS = set("""append extend insert pop popitem remove clear update setdefault sort reverse fill resize put
itemset setflags setfield byteswap partition sort add discard __setitem__ __delitem__ write writelines truncate seek
""".split())
# `sort`, `fill`, ... on ndarray are in-place too; file methods write their own (fresh) file object

# in-place methods that store (references to) their arguments in the receiver
STORING_METHODS = set("append extend insert update setdefault add __setitem__".split())

# methods (by name) returning fresh values and not touching the receiver
FRESH_METHODS = set("""copy astype sum mean std var min max any all argmin argmax argsort cumsum cumprod prod round
clip conj conjugate nonzero tolist tobytes tostring item dot trace ptp searchsorted repeat flatten nansum
split rsplit strip lstrip rstrip replace join format lower upper startswith endswith find rfind index count encode
decode isdigit isalpha title capitalize zfill partition rpartition splitlines casefold
bit_length is_integer as_integer_ratio total_seconds hex
exists is_dir is_file with_suffix with_name joinpath resolve open read_text read_bytes glob iterdir mkdir stat
read readline readlines close flush tell
group groups start end span match search fullmatch
""".split())
# `match search fullmatch`: compiled-pattern methods; pure, the match object keeps only the (immutable) searched string
# NOTE: `.copy()` is assumed to be ndarray.copy (a deep, fresh copy); the dynamic snapshot run checks this

# methods (by name) returning a view / an element of the receiver
VIEW_METHODS = set("""reshape ravel view transpose swapaxes squeeze diagonal take get items keys values
__getitem__ real imag T flat
""".split())

# external constructors / parsers whose result is a FRESH object of a known library type (the tag selects the
# method rules below; nothing of the argument is written: parsing only reads its path / file argument)
TAGGED_FRESH_FUNCS = {
    "xml.etree.ElementTree.parse": "xml", "xml.etree.ElementTree.fromstring": "xml", "xml.etree.ElementTree.XML": "xml",
    "concurrent.futures.ProcessPoolExecutor": "exec", "concurrent.futures.ThreadPoolExecutor": "exec",
}
# value tags:  xml  = an ElementTree / Element (or a part of one: child, attrib dict, text)
#              xmlc = a builtin container / iterator of such (findall, iter, list(...), sorted(...)) or one of its items
#              exec = a concurrent.futures executor;  fut = a future of `submit` (or a container of futures)
LOADED_TAG = {"xml": "xml", "xmlc": "xmlc", "fut": "fut"}
CONTAINER_TAG = {"xml": "xmlc", "xmlc": "xmlc", "fut": "fut"}
#              ("cls", key) = an instance of the pewlib class `key` or of a subclass (constructed here, or a parameter /
#              inlined result annotated with that class): its methods and properties are that hierarchy's
#              ("list", t) = a builtin container whose items have tag t (annotation `list[C]`, or built here from such items)


def loaded_tag(tag):
    if isinstance(tag, tuple):
        return tag[1] if tag[0] == "list" else None
    return LOADED_TAG.get(tag)


def container_tag(tag):
    if isinstance(tag, tuple):
        return ("list", tag)
    return CONTAINER_TAG.get(tag)
# Element / ElementTree methods: all pure.  `find getroot` return a part of the receiver, `findall iter iterfind` a new
# list / iterator of parts, `findtext itertext` text (str) or the default, `get keys items` attribute strings or the default
XML_PART = {"find", "getroot"}
XML_PARTS = {"findall", "iter", "iterfind"}
XML_TEXT = {"findtext", "itertext"}
XML_ATTR = {"get", "keys", "items"}
XML_ANNOTATIONS = {"ElementTree.Element", "ElementTree.ElementTree", "Element", "ET.Element", "ET.ElementTree",
                   "xml.etree.ElementTree.Element", "xml.etree.ElementTree.ElementTree"}

# builtin higher-order callables: the function argument is applied to the ELEMENTS of the other arguments
HOF_KEY = {"sorted", "min", "max"}   # key=<function>; its results are only compared
HOF_FIRST = {"map", "filter"}        # first positional argument; map's results are the new elements
PURE_TYPES = {"str", "int", "float", "bytes", "bool", "complex"}  # `str.isdigit`, `int`, ... passed as functions

JUMPS = (ast.Continue, ast.Break)


class Val:
    """abstract value of an expression.
    own:   IR variables whose object the value may BE (or be a view/part of)
    reach: IR variables whose object the value may hold references to (elements, attributes)
    Writing through the value touches `own`; loading from it yields own+reach."""
    __slots__ = ("own", "reach", "unknown", "arr", "tag")

    def __init__(self, own=(), reach=(), unknown=False, arr=False, tag=None):
        self.own = frozenset(own)
        self.reach = frozenset(reach)
        self.unknown = unknown
        self.arr = arr  # known to be a plain ndarray / scalar / str (holds no references)
        self.tag = None if arr else tag  # library type of the value (see TAGS), None = not known

    def neutral(self):
        """a constant / None / new empty container: joins with anything without changing what that is"""
        return not self.own and not self.reach and not self.unknown and self.tag is None

    def __or__(self, o):
        if self.tag == o.tag or o.neutral():
            tag = self.tag
        elif self.neutral():
            tag = o.tag
        elif {self.tag, o.tag} <= {"xml", "xmlc"}:
            tag = "xmlc"
        else:
            tag = None
        return Val(self.own | o.own, self.reach | o.reach, self.unknown or o.unknown, self.arr and o.arr, tag)

    def all(self):
        return self.own | self.reach

    def loaded(self):
        """an element / attribute / view of this value"""
        if self.arr:
            return Val(self.own, (), self.unknown, True)
        return Val(self.own | self.reach, self.reach, self.unknown, False, loaded_tag(self.tag))

    def container(self):
        """a NEW container holding references to this value"""
        return Val((), self.own | self.reach, self.unknown, False, container_tag(self.tag))

    def untagged(self):
        return Val(self.own, self.reach, self.unknown, self.arr)


FRESH = Val(arr=True)


class Program:
    """all inventoried + helper modules, parsed"""

    def __init__(self, repo: Path, modules: list[str], src: str = "src"):
        self.repo = repo
        self.src = src      # directory under `repo` holding the packages (the regression cases live directly in theirs)
        self.mods = {}      # dotted module name -> ast.Module
        self.funcs = {}     # (module, name) -> FunctionDef
        self.classes = {}   # (module, name) -> ClassDef
        self.imports = {}   # module -> {local name: ("mod", dotted) | ("obj", module, name)}
        self.consts = {}    # (module, name) -> True for module-level names only ever bound to a dict/list/tuple/set/constant literal
        self._fields = {}
        self._ftypes = {}
        for m in modules:
            self.load(m)

    def path(self, mod: str) -> Path | None:
        p = self.repo / self.src / (mod.replace(".", "/") + ".py")
        if p.exists():
            return p
        p = self.repo / self.src / mod.replace(".", "/") / "__init__.py"
        return p if p.exists() else None

    def load(self, mod: str):
        if mod in self.mods:
            return
        p = self.path(mod)
        if p is None:
            return
        tree = ast.parse(p.read_text())
        self.mods[mod] = tree
        imp = {}
        for node in tree.body:
            if isinstance(node, ast.FunctionDef):
                self.funcs[(mod, node.name)] = node
            elif isinstance(node, ast.ClassDef):
                self.classes[(mod, node.name)] = node
            elif isinstance(node, ast.Import):
                for a in node.names:
                    imp[a.asname or a.name.split(".")[0]] = ("mod", a.name if a.asname else a.name.split(".")[0])
            elif isinstance(node, ast.ImportFrom):
                base = node.module or ""
                if node.level:
                    parts = mod.split(".")
                    if p.name != "__init__.py":
                        parts = parts[:-1]  # the package containing this module
                    parts = parts[: len(parts) - (node.level - 1)]
                    base = ".".join(parts + ([node.module] if node.module else []))
                for a in node.names:
                    full = f"{base}.{a.name}"
                    if self.path(full) is not None:
                        imp[a.asname or a.name] = ("mod", full)
                    else:
                        imp[a.asname or a.name] = ("obj", base, a.name)
        self.imports[mod] = imp
        literal = (ast.Dict, ast.List, ast.Tuple, ast.Set, ast.Constant)
        bad = {n for node in ast.walk(tree) if isinstance(node, (ast.Global, ast.Nonlocal)) for n in node.names}
        for node in tree.body:
            tgts = node.targets if isinstance(node, ast.Assign) else [node.target] if isinstance(node, (ast.AnnAssign, ast.AugAssign)) else []
            for t in tgts:
                for n in ast.walk(t):
                    if isinstance(n, ast.Name):
                        ok = isinstance(node, (ast.Assign, ast.AnnAssign)) and isinstance(t, ast.Name) \
                            and isinstance(node.value, literal) and n.id not in bad
                        self.consts[(mod, n.id)] = ok and self.consts.get((mod, n.id), True)
        for kind, *rest in list(imp.values()):
            target = rest[0]
            if target.startswith("pewlib"):
                self.load(target)

    # ---- class helpers
    def mro(self, key):
        out, todo = [], [key]
        while todo:
            k = todo.pop(0)
            if k in out or k not in self.classes:
                continue
            out.append(k)
            cls = self.classes[k]
            for b in cls.bases:
                r = self.resolve_name(k[0], b) if isinstance(b, ast.Name) else None
                if r and r[0] == "class":
                    todo.append(r[1])
        return out

    def resolve_name(self, mod, node):
        """Name -> ('func', key) | ('class', key) | ('ext', dotted) | None"""
        name = node.id
        if (mod, name) in self.funcs:
            return ("func", (mod, name))
        if (mod, name) in self.classes:
            return ("class", (mod, name))
        imp = self.imports.get(mod, {}).get(name)
        if imp:
            if imp[0] == "mod":
                return ("mod", imp[1])
            _, m, n = imp
            for _hop in range(4):  # follow re-exports through package __init__ files
                if (m, n) in self.funcs:
                    return ("func", (m, n))
                if (m, n) in self.classes:
                    return ("class", (m, n))
                nxt = self.imports.get(m, {}).get(n)
                if nxt and nxt[0] == "obj":
                    _, m, n = nxt
                else:
                    break
            return ("ext", f"{m}.{n}")
        return None

    def find_method(self, cls_key, name, after=None):
        mro = self.mro(cls_key)
        if after is not None and after in mro:
            mro = mro[mro.index(after) + 1:]
        for k in mro:
            for n in self.classes[k].body:
                if isinstance(n, ast.FunctionDef) and n.name == name:
                    return k, n
        return None

    def class_fields(self, cls_key):
        """attributes assigned as `self.X = ...` anywhere in the class hierarchy; None when `self` escapes
        (is used other than as `self.<attr>` / `super()`), in which case no field sensitivity is used"""
        if cls_key in self._fields:
            return self._fields[cls_key]
        fields, ok = set(), True
        for k in self.mro(cls_key):
            for fn in self.classes[k].body:
                if not isinstance(fn, ast.FunctionDef) or not fn.args.args or fn.args.args[0].arg != "self":
                    continue
                parents = {}
                for node in ast.walk(fn):
                    for ch in ast.iter_child_nodes(node):
                        parents[ch] = node
                for node in ast.walk(fn):
                    if isinstance(node, ast.Name) and node.id == "self":
                        par = parents.get(node)
                        if not (isinstance(par, ast.Attribute) and par.value is node):
                            ok = False
                    if isinstance(node, ast.Attribute) and isinstance(node.value, ast.Name) and node.value.id == "self" \
                            and isinstance(node.ctx, ast.Store):
                        fields.add(node.attr)
        self._fields[cls_key] = sorted(fields) if ok else None
        return self._fields[cls_key]

    def subclasses(self, cls_key):
        """cls_key and every loaded class that has it in its MRO"""
        return [k for k in self.classes if cls_key in self.mro(k)]

    def overrides(self, cls_key, name):
        """the method `name` as found from cls_key, plus the overriding definitions of its subclasses: what
        `obj.name` may be for an object that is an instance of cls_key (or of a subclass)"""
        out = []
        for k in [cls_key] + [k for k in self.subclasses(cls_key) if k != cls_key]:
            m = self.find_method(k, name)
            if m and m not in out:
                out.append(m)
        return out

    def field_type(self, cls_key, field):
        """class of `self.<field>` when the ONLY assignment to an attribute of that name in the whole program is
        `self.<field> = <parameter>` in an `__init__` of the hierarchy, the parameter being annotated with a pewlib
        class (annotations are trusted, as for arrays and containers); else None"""
        k0 = (cls_key, field)
        if k0 in self._ftypes:
            return self._ftypes[k0]
        legit, found, ok = set(), None, True
        for k in self.mro(cls_key):
            init = next((n for n in self.classes[k].body if isinstance(n, ast.FunctionDef) and n.name == "__init__"), None)
            if init is None or not init.args.args:
                continue
            rebound = {n.id for n in ast.walk(init) if isinstance(n, ast.Name) and isinstance(n.ctx, (ast.Store, ast.Del))}
            for node in ast.walk(init):
                if not (isinstance(node, ast.Assign) and len(node.targets) == 1 and isinstance(node.value, ast.Name)):
                    continue
                t, v = node.targets[0], node.value
                if not (isinstance(t, ast.Attribute) and t.attr == field and isinstance(t.value, ast.Name)
                        and t.value.id == init.args.args[0].arg and v.id not in rebound):
                    continue
                ann = next((x.annotation for x in init.args.args + init.args.kwonlyargs if x.arg == v.id), None)
                if isinstance(ann, ast.Constant) and isinstance(ann.value, str) and ann.value.isidentifier():
                    ann = ast.Name(id=ann.value)
                r = self.resolve_name(k[0], ann) if isinstance(ann, ast.Name) else None
                if r and r[0] == "class" and found in (None, r[1]):
                    found = r[1]
                    legit.add(id(t))
        for tree in self.mods.values():  # any other store to an attribute of that name, anywhere: no typing
            for node in ast.walk(tree):
                if isinstance(node, ast.Attribute) and node.attr == field and isinstance(node.ctx, (ast.Store, ast.Del)) \
                        and id(node) not in legit:
                    ok = False
                if isinstance(node, ast.Name) and node.id in ("setattr", "delattr", "__dict__"):
                    ok = False
                if isinstance(node, ast.Attribute) and node.attr in ("__dict__", "__setattr__"):
                    ok = False
        self._ftypes[k0] = found if ok else None
        return self._ftypes[k0]

    def methods_named(self, name):
        out = []
        for k, cls in self.classes.items():
            for n in cls.body:
                if isinstance(n, ast.FunctionDef) and n.name == name:
                    out.append((k, n))
        return out


def decorators(fn):
    out = set()
    for d in fn.decorator_list:
        out.add(ast.unparse(d))
    return out


def dotted(node):
    """a.b.c -> 'a.b.c' for pure attribute chains on a Name, else None"""
    parts = []
    while isinstance(node, ast.Attribute):
        parts.append(node.attr)
        node = node.value
    if isinstance(node, ast.Name):
        parts.append(node.id)
        return ".".join(reversed(parts))
    return None


class Translator:
    MAX_DEPTH = 7

    def __init__(self, prog: Program):
        self.prog = prog
        self.nvars = 0
        self.diag = []  # unknown calls etc.
        self.fields = {}  # (self own-var, attr) -> (own var, reach var)
        self.arr = set()    # facts: v (own-var v holds a plain array / scalar), ("tag", v, t) (its value has library type t)
        self.cont = set()
        self.lambda_vals = {}

    def init_fields(self, out, cls_key, selfpair, fresh):
        """field-sensitive view of `self` (only for classes whose methods never let `self` escape)"""
        names = self.prog.class_fields(cls_key) if cls_key else None
        if not names:
            return
        so, sr = selfpair
        for a in names:
            if (so, a) in self.fields:
                continue
            fo, fr = self.new(), self.new()
            self.fields[(so, a)] = (fo, fr)
            if fresh:
                out.append(["bind", fo, ["fresh"]])
                out.append(["bind", fr, ["fresh"]])
            else:
                out.append(["bind", fo, ["alias", [so, sr]]])
                out.append(["bind", fr, ["alias", [sr]]])

    def new(self):
        self.nvars += 1
        return self.nvars - 1

    # ------------------------------------------------------------------ entry
    def translate(self, mod, fn: ast.FunctionDef, cls_key=None, constructor=False):
        """returns (np, param names, IR)"""
        self.nvars = 0
        self.diag = []
        self.fields = {}
        self.arr = set()
        self.cont = set()
        self.lambda_vals = {}
        params = self.param_names(fn)
        scope = Scope(self, mod, cls_key, top=True)
        scope.funcvals = self.func_locals(mod, fn)
        rebinds = {n.id for n in ast.walk(fn) if isinstance(n, ast.Name) and isinstance(n.ctx, (ast.Store, ast.Del))}
        scope.stable = {n for n, _ in params} - rebinds
        out = []
        pnames = []
        idx = 0
        for i, (name, ann) in enumerate(params):
            vo, vr = scope.var(name)
            if constructor and i == 0:
                out.append(["bind", vo, ["fresh"]])
                out.append(["bind", vr, ["fresh"]])
                scope.selfvar = vo
                self.init_fields(out, cls_key, (vo, vr), fresh=True)
                continue
            out.append(["bind", vo, ["param", idx]])
            out.append(["bind", vr, ["param", idx]])
            if i == 0 and cls_key is not None and name == "self":
                scope.selfvar = vo
                self.init_fields(out, cls_key, (vo, vr), fresh=False)
            if ann is not None and is_array_annotation(ann):
                scope.arr.add(vo)
            if ann is not None and is_container_annotation(ann):
                scope.cont.add(vo)
            if ann is not None and is_xml_annotation(ann):
                scope.set_tag(vo, "xml")
            if annotation_tag(self.prog, mod, ann) and not (i == 0 and cls_key is not None):
                scope.set_tag(vo, annotation_tag(self.prog, mod, ann))
            pnames.append(name)
            idx += 1
        scope.block(fn.body, out, stack=[(mod, fn.name)])
        if constructor:
            so, sr = scope.vars[params[0][0]]
            out.append(["ret", so])
            out.append(["ret", sr])
        return idx, pnames, ["seq", out]

    def func_locals(self, mod, fn):
        """local names that are only ever bound by `name = <pewlib function>`: name -> set of function keys.
        A call through such a name is one of those functions (translated as a branch over them)."""
        params = {n for n, _ in self.param_names(fn)}
        vals, plain = {}, set()
        for node in ast.walk(fn):
            if isinstance(node, ast.Assign) and len(node.targets) == 1 and isinstance(node.targets[0], ast.Name):
                vals.setdefault(node.targets[0].id, []).append(node.value)
                plain.add(id(node.targets[0]))
            elif isinstance(node, ast.AnnAssign) and isinstance(node.target, ast.Name):
                if node.value is not None:
                    vals.setdefault(node.target.id, []).append(node.value)
                plain.add(id(node.target))
        stored = {n.id for n in ast.walk(fn) if isinstance(n, ast.Name) and isinstance(n.ctx, (ast.Store, ast.Del))}
        other = {n.id for n in ast.walk(fn) if isinstance(n, ast.Name) and isinstance(n.ctx, (ast.Store, ast.Del))
                 and id(n) not in plain}
        other |= {n for node in ast.walk(fn) if isinstance(node, (ast.Global, ast.Nonlocal)) for n in node.names}
        other |= {n.name for n in ast.walk(fn) if isinstance(n, (ast.FunctionDef, ast.ClassDef)) and n is not fn}
        out = {}
        for name, vs in vals.items():
            if name in params or name in other:
                continue
            keys = set()
            for v in vs:
                r = self.prog.resolve_name(mod, v) if isinstance(v, ast.Name) and v.id not in stored | params else None
                if not (r and r[0] == "func"):
                    keys = None
                    break
                keys.add(r[1])
            if keys:
                out[name] = frozenset(keys)
        return out

    @staticmethod
    def param_names(fn):
        a = fn.args
        ps = [(x.arg, ast.unparse(x.annotation) if x.annotation else None) for x in a.posonlyargs + a.args]
        if a.vararg:
            ps.append((a.vararg.arg, None))
        ps += [(x.arg, ast.unparse(x.annotation) if x.annotation else None) for x in a.kwonlyargs]
        if a.kwarg:
            ps.append((a.kwarg.arg, None))
        return ps


def is_container_annotation(ann: str) -> bool:
    """annotations of builtin containers / str: method calls on them are the builtin ones"""
    parts = [x.strip() for x in ann.split("|")]
    return all(x == "None" or x == "str" or x.split("[")[0] in ("dict", "list", "tuple", "set", "Sequence", "Mapping")
               for x in parts)


def annotation_tag(prog: Program, mod: str, ann) -> tuple | None:
    """`C` / `C | None` / "C" naming exactly one pewlib class -> ("cls", key);  `list[C]` -> ("list", ("cls", key))"""
    if ann is None:
        return None
    text = (ann if isinstance(ann, str) else ast.unparse(ann)).strip().strip("'\"")
    names = [x.strip() for x in text.split("|") if x.strip() != "None"] if "[" not in text else [text]
    if len(names) != 1:
        return None
    name = names[0]
    if name.startswith("list[") and name.endswith("]"):
        inner = annotation_tag(prog, mod, name[5:-1])
        return ("list", inner) if inner else None
    if not name.isidentifier():
        return None
    r = prog.resolve_name(mod, ast.Name(id=name))
    return ("cls", r[1]) if r and r[0] == "class" else None


def is_xml_annotation(ann: str) -> bool:
    parts = [x.strip().strip("'\"") for x in ann.split("|")]
    return all(x in XML_ANNOTATIONS or x == "None" for x in parts) and any(x in XML_ANNOTATIONS for x in parts)


def is_array_annotation(ann: str) -> bool:
    """annotations of values that hold no references: ndarray, scalars, str, Path (optionally `| None`)"""
    parts = [x.strip() for x in ann.split("|")]
    ok = {"np.ndarray", "float", "int", "str", "bool", "None", "Path", "str | Path"}
    return all(x in ok for x in parts)


class Scope:
    def __init__(self, tr: Translator, mod, cls_key, top=False):
        self.tr, self.mod, self.cls_key, self.top = tr, mod, cls_key, top
        self.vars = {}        # python name -> (own var, reach var)
        # `arr`: own-vars known to hold plain ndarrays / scalars; `cont`: builtin containers / str (see properties)
        self.res = None       # result variable pair of an inlined call
        self.res_arr = True
        self.selfvar = None   # own-var of `self`
        self.def_cls = cls_key
        self.localfuncs = {}
        self.funcvals = {}    # name -> frozenset of pewlib function keys the name certainly holds one of
        self.known = {}       # outcome of stable tests on the current path (path splitting)
        self.stable = set()   # parameter names never rebound in this function

    # ------------------------------------------------------------------ helpers
    @property
    def arr(self):
        return self.tr.arr

    @arr.setter
    def arr(self, v):
        self.tr.arr = v

    @property
    def cont(self):
        return self.tr.cont

    def tag_of(self, v):
        for f in self.tr.arr:
            if type(f) is tuple and f[1] == v:
                return f[2]
        return None

    def set_tag(self, v, tag):
        old = self.tag_of(v)
        if old is not None:
            self.tr.arr.discard(("tag", v, old))
        if tag is not None:
            self.tr.arr.add(("tag", v, tag))

    def var(self, name):
        if name not in self.vars:
            self.vars[name] = (self.tr.new(), self.tr.new())
        return self.vars[name]

    def pair_of(self, node):
        """the variable pair of a plain local name (for by-reference parameter passing)"""
        if isinstance(node, ast.Name) and node.id in self.funcvals:
            return ("fn", self.funcvals[node.id])  # a pewlib function passed on by name
        if isinstance(node, ast.Name) and node.id in self.vars:
            return self.vars[node.id]
        if isinstance(node, ast.Name) and node.id not in self.localfuncs:
            r = self.tr.prog.resolve_name(self.mod, node)
            if r and r[0] == "func":
                return ("fn", frozenset([r[1]]))
        return None

    def bind1(self, out, v, vars_, unknown):
        if unknown:
            out.append(["bind", v, ["unknown"]])
        elif vars_:
            out.append(["bind", v, ["alias", sorted(vars_)]])
        else:
            out.append(["bind", v, ["fresh"]])

    def bind(self, out, pair, val: Val):
        vo, vr = pair
        arr = self.is_arr(val)
        # both sources are evaluated before either target changes
        if vo in val.reach or vr in val.own:
            to, t_r = self.tr.new(), self.tr.new()
            self.bind1(out, to, val.own, val.unknown)
            self.bind1(out, t_r, val.reach, val.unknown)
            out.append(["bind", vo, ["alias", [to]]])
            out.append(["bind", vr, ["alias", [t_r]]])
        else:
            self.bind1(out, vo, val.own, val.unknown)
            self.bind1(out, vr, () if arr else val.reach, False if arr else val.unknown)
        if arr:
            self.arr.add(vo)
        else:
            self.arr.discard(vo)
        self.set_tag(vo, None if arr else val.tag)

    def tmp(self, out, val: Val):
        pair = (self.tr.new(), self.tr.new())
        self.bind(out, pair, val)
        return pair

    def write(self, out, val: Val, deep=False):
        """a write through `val`: its own object(s); `deep` also everything reachable (unknown callee)"""
        targets = val.all() if deep else val.own
        for v in sorted(targets):
            out.append(["write", v])
        if val.unknown:
            t = self.tr.new()
            out.append(["bind", t, ["unknown"]])
            out.append(["write", t])

    def is_arr(self, val: Val):
        if val.unknown:
            return False
        if val.arr:
            return True
        return bool(val.own) and all(v in self.arr for v in val.own) and not val.reach - val.own

    def name_val(self, name):
        vo, vr = self.vars[name]
        if vo in self.arr:
            return Val([vo], (), False, True)
        return Val([vo], [vr], False, False, self.tag_of(vo))

    # ------------------------------------------------------------------ statements
    def stable_test(self, t):
        """a test over never-rebound parameters and constants only: has the same value wherever it is repeated"""
        for n in ast.walk(t):
            if isinstance(n, ast.Name):
                if n.id not in self.stable:
                    return False
            elif not isinstance(n, (ast.Compare, ast.BoolOp, ast.UnaryOp, ast.Constant, ast.Is, ast.IsNot, ast.Eq, ast.NotEq,
                                    ast.Not, ast.And, ast.Or, ast.Load)):
                return False
        return True

    def block(self, stmts, out, stack, in_loop_with_jump=False):
        for i, s in enumerate(stmts):
            if isinstance(s, ast.If) and not in_loop_with_jump:
                key = ast.unparse(s.test)
                rest = stmts[i + 1:]
                if key not in self.known and self.stable_test(s.test) and any(
                        isinstance(n, ast.If) and ast.unparse(n.test) == key for st in rest for n in ast.walk(st)):
                    # path splitting: the continuation is translated once per outcome of the repeated test
                    self.expr(s.test, out, stack)
                    arr0 = set(self.arr)
                    a, b = [], []
                    self.known[key] = True
                    self.block(list(s.body) + list(rest), a, stack, in_loop_with_jump)
                    arr_a = self.arr
                    self.arr = set(arr0)
                    self.known[key] = False
                    self.block(list(s.orelse) + list(rest), b, stack, in_loop_with_jump)
                    del self.known[key]
                    self.arr = arr_a & self.arr
                    out.append(["branch", ["seq", a], ["seq", b]])
                    return
            if in_loop_with_jump:
                sub = []
                self.stmt(s, sub, stack, in_loop_with_jump)
                out.append(["branch", ["seq", sub], ["skip"]])
            else:
                self.stmt(s, out, stack, in_loop_with_jump)

    def stmt(self, s, out, stack, jl=False):
        if isinstance(s, (ast.Pass, ast.Break, ast.Continue, ast.Import, ast.ImportFrom, ast.Global, ast.Nonlocal)):
            return
        if isinstance(s, ast.Expr):
            self.expr(s.value, out, stack)
        elif isinstance(s, ast.Assign):
            val = self.expr(s.value, out, stack)
            for t in s.targets:
                self.assign(t, val, out, stack)
        elif isinstance(s, ast.AnnAssign):
            if s.value is not None:
                self.assign(s.target, self.expr(s.value, out, stack), out, stack)
        elif isinstance(s, ast.AugAssign):
            self.expr(s.value, out, stack)
            tv = self.expr(s.target, out, stack)
            self.write(out, tv)  # in place for arrays and lists; the binding stays
            if isinstance(s.target, (ast.Subscript, ast.Attribute)):
                self.write(out, self.expr(s.target.value, out, stack))
        elif isinstance(s, ast.Delete):
            for t in s.targets:
                if isinstance(t, (ast.Subscript, ast.Attribute)):
                    self.write(out, self.expr(t.value, out, stack))
        elif isinstance(s, ast.Return):
            val = self.expr(s.value, out, stack) if s.value is not None else FRESH
            self.ret(val, out)
        elif isinstance(s, ast.Raise):
            if s.exc is not None:
                self.expr(s.exc, out, stack)
        elif isinstance(s, ast.Assert):
            self.expr(s.test, out, stack)
        elif isinstance(s, ast.If) and ast.unparse(s.test) in self.known:
            self.block(s.body if self.known[ast.unparse(s.test)] else s.orelse, out, stack, jl)
        elif isinstance(s, ast.If):
            self.expr(s.test, out, stack)
            a, b = [], []
            arr0 = set(self.arr)
            self.block(s.body, a, stack, jl)
            arr_a = self.arr
            self.arr = set(arr0)
            self.block(s.orelse, b, stack, jl)
            self.arr = arr_a & self.arr
            out.append(["branch", ["seq", a], ["seq", b]])
        elif isinstance(s, (ast.For, ast.While)):
            has_jump = any(isinstance(n, JUMPS) for n in walk_no_nested_loops(s.body))
            arr0 = set(self.arr)
            pre = []
            it = self.expr(s.iter, pre, stack) if isinstance(s, ast.For) else None
            out.extend(pre)
            # pass 1 finds which `arr` facts survive the body, pass 2 translates under those facts only
            for final in (False, True):
                nv, diag = self.tr.nvars, list(self.tr.diag)
                body = []
                if isinstance(s, ast.For):
                    self.assign(s.target, it.loaded(), body, stack)
                else:
                    self.expr(s.test, body, stack)
                self.block(s.body, body, stack, has_jump)
                self.arr = arr0 & self.arr
                arr0 = set(self.arr)
                if not final:
                    self.tr.diag = diag
            out.append(["loop", ["seq", body]])
            self.block(s.orelse, out, stack, jl)
        elif isinstance(s, ast.With):
            for item in s.items:
                val = self.expr(item.context_expr, out, stack)
                if item.optional_vars is not None:
                    self.assign(item.optional_vars, val, out, stack)
            self.block(s.body, out, stack, jl)
        elif isinstance(s, ast.Try):
            # any prefix of the body may have run when a handler starts: every statement skippable
            arr0 = set(self.arr)
            body = []
            self.block(s.body, body, stack, True)
            self.arr = arr0 & self.arr
            out.append(["seq", body])
            for h in s.handlers:
                hb = []
                if h.name:
                    self.bind(hb, self.var(h.name), FRESH)
                self.block(h.body, hb, stack, jl)
                self.arr = arr0 & self.arr
                out.append(["branch", ["seq", hb], ["skip"]])
            self.block(s.orelse, out, stack, jl)
            self.block(s.finalbody, out, stack, jl)
        elif isinstance(s, ast.FunctionDef):
            self.localfuncs[s.name] = s  # nested helper: inlined at its call sites (closure = this scope)
        elif isinstance(s, ast.ClassDef):
            self.bind(out, self.var(s.name), FRESH)
        else:
            self.tr.diag.append(f"unhandled statement {type(s).__name__} in {stack[-1]}")
            t = self.tr.new()
            out.append(["bind", t, ["unknown"]])
            out.append(["write", t])

    def ret(self, val: Val, out):
        if self.top:
            for v in sorted(val.all()):
                out.append(["ret", v])
            if val.unknown:
                t = self.tr.new()
                out.append(["bind", t, ["unknown"]])
                out.append(["ret", t])
        else:
            ro, rr = self.res
            self.res_arr = self.res_arr and self.is_arr(val)
            self.bind1(out, ro, val.own | {ro}, val.unknown)
            self.bind1(out, rr, val.reach | {rr}, val.unknown)

    def assign(self, target, val: Val, out, stack):
        if isinstance(target, ast.Name):
            self.bind(out, self.var(target.id), val)
        elif isinstance(target, (ast.Tuple, ast.List)):
            for e in target.elts:
                if isinstance(e, ast.Starred):
                    e = e.value
                self.assign(e, val.loaded(), out, stack)
        elif isinstance(target, ast.Subscript):
            base = self.expr(target.value, out, stack)
            self.expr(target.slice, out, stack)
            self.write(out, base)
            if not self.is_arr(base):
                self.absorb(target.value, base, val, out)
        elif isinstance(target, ast.Attribute):
            base = self.expr(target.value, out, stack)
            for key, fn in self.tr.prog.methods_named(target.attr):
                if any(d.endswith(".setter") for d in decorators(fn)):
                    self.inline(key[0], fn, [base, val], {}, out, stack, cls_key=key)
            self.write(out, base)
            if target.attr not in ("dtype", "shape"):
                self.absorb(target.value, base, val, out)
            if isinstance(target.value, ast.Name) and len(base.own) == 1:
                fp = self.tr.fields.get((next(iter(base.own)), target.attr))
                if fp is not None:
                    self.bind(out, fp, val)
        elif isinstance(target, ast.Starred):
            self.assign(target.value, val.container(), out, stack)
        else:
            self.tr.diag.append(f"unhandled target {type(target).__name__}")

    def absorb(self, node, base: Val, val: Val, out):
        """a reference to `val` is stored inside the object(s) `base`: they now reach it"""
        stored = val.all()
        if not (stored or val.unknown):
            return
        root = node
        while isinstance(root, (ast.Attribute, ast.Subscript)):
            root = root.value
        reach_vars = set(base.reach)
        if isinstance(root, ast.Name) and root.id in self.vars:
            vo, vr = self.vars[root.id]
            reach_vars.add(vr)
            self.arr.discard(vo)
        elif isinstance(root, ast.Call):
            pass  # stored into a temporary: nothing else can observe it
        for v in sorted(reach_vars):
            self.bind1(out, v, stored | {v}, val.unknown)
        # the object may also be one reached from `base.own`'s variables that we do not name: writes are
        # tracked through `own`, references through the reach variables updated above

    # ------------------------------------------------------------------ expressions
    def expr(self, e, out, stack) -> Val:
        if e is None or isinstance(e, (ast.Constant, ast.JoinedStr, ast.FormattedValue)):
            if isinstance(e, ast.JoinedStr):
                for v in e.values:
                    if isinstance(v, ast.FormattedValue):
                        self.stringify(self.expr(v.value, out, stack), out, stack)
            return FRESH
        if isinstance(e, ast.Name):
            if e.id in self.vars:
                return self.name_val(e.id)
            return FRESH  # module-level names, builtins: constants
        if isinstance(e, ast.BinOp):
            l = self.expr(e.left, out, stack)
            r = self.expr(e.right, out, stack)
            listy = (ast.List, ast.Tuple, ast.ListComp)
            if isinstance(e.op, (ast.Add, ast.Mult)) and (isinstance(e.left, listy) or isinstance(e.right, listy)):
                return (l | r).container() | Val((), (l | r).reach)  # list concatenation shares elements
            return FRESH
        if isinstance(e, ast.UnaryOp):
            self.expr(e.operand, out, stack)
            return FRESH
        if isinstance(e, ast.Compare):
            self.expr(e.left, out, stack)
            for c in e.comparators:
                self.expr(c, out, stack)
            return FRESH
        if isinstance(e, ast.BoolOp):
            val = Val(arr=True)
            for v in e.values:
                val = val | self.expr(v, out, stack)
            return val
        if isinstance(e, ast.IfExp):
            self.expr(e.test, out, stack)
            return self.expr(e.body, out, stack) | self.expr(e.orelse, out, stack)
        if isinstance(e, (ast.Tuple, ast.List, ast.Set)):
            val = Val(arr=True)
            for x in e.elts:
                val = val | self.expr(x.value if isinstance(x, ast.Starred) else x, out, stack)
            return val.container()
        if isinstance(e, ast.Dict):
            val = Val(arr=True)
            for k, v in zip(e.keys, e.values):
                if k is not None:
                    self.expr(k, out, stack)
                val = val | self.expr(v, out, stack)
            return val.container()
        if isinstance(e, ast.Starred):
            return self.expr(e.value, out, stack)
        if isinstance(e, ast.Slice):
            for x in (e.lower, e.upper, e.step):
                if x is not None:
                    self.expr(x, out, stack)
            return FRESH
        if isinstance(e, ast.Subscript):
            d = dotted(e.value)
            if d in ("np.r_", "np.c_", "np.s_", "np.index_exp", "np.mgrid", "np.ogrid"):
                self.expr(e.slice, out, stack)
                return FRESH
            base = self.expr(e.value, out, stack)
            self.expr(e.slice, out, stack)
            if isinstance(e.slice, ast.Slice) and isinstance(base.tag, tuple) and base.tag[0] == "list":
                v = base.loaded()
                return Val(v.own, v.reach, v.unknown, False, base.tag)  # a slice of a list is a list of the same items
            return base.loaded()
        if isinstance(e, ast.Attribute):
            d = dotted(e)
            if d is not None and d.split(".")[0] not in self.vars:
                return FRESH  # module attribute / constant
            base = self.expr(e.value, out, stack)
            if e.attr in ("shape", "ndim", "size", "dtype", "names", "itemsize", "nbytes", "name", "suffix", "stem", "parent"):
                return FRESH
            if base.tag in ("xml", "xmlc") and e.attr in ("tag", "text", "tail"):
                return FRESH  # str (or None), like findtext
            val = base.loaded()
            if isinstance(e.value, ast.Name) and len(base.own) == 1:
                fp = self.tr.fields.get((next(iter(base.own)), e.attr))
                if fp is not None:
                    val = Val([fp[0]], () if fp[0] in self.arr else [fp[1]], False, fp[0] in self.arr, self.tag_of(fp[0]))
            cands = []
            ftype = None
            if isinstance(e.value, ast.Attribute) and isinstance(e.value.value, ast.Name) and self.selfvar is not None \
                    and self.cls_key and e.value.value.id in self.vars and self.vars[e.value.value.id][0] == self.selfvar:
                ftype = self.tr.prog.field_type(self.cls_key, e.value.attr)  # `self.<field>.<attr>` with a typed field
            if isinstance(base.tag, tuple) and base.tag[0] == "cls" and not (self.selfvar is not None and base.own == {self.selfvar}):
                ftype = base.tag[1]
            if base.tag in ("xml", "xmlc", "exec", "fut"):
                cands = []  # library objects: `tag text attrib tail` are plain attributes
            elif self.selfvar is not None and base.own == {self.selfvar} and self.cls_key:
                cands = [m for m in self.tr.prog.overrides(self.cls_key, e.attr) if "property" in decorators(m[1])]
            elif ftype is not None:
                cands = [m for m in self.tr.prog.overrides(ftype, e.attr) if "property" in decorators(m[1])]
            else:
                cands = [(k, fn) for k, fn in self.tr.prog.methods_named(e.attr) if "property" in decorators(fn)]
            for key, fn in cands:
                val = val | self.inline(key[0], fn, [base], {}, out, stack, cls_key=key)
            return val
        if isinstance(e, (ast.ListComp, ast.SetComp, ast.GeneratorExp, ast.DictComp)):
            return self.comprehension(e, out, stack)
        if isinstance(e, ast.Lambda):
            if id(e) in self.tr.lambda_vals:  # argument of a builtin higher-order call: applied there (see `apply_fn`)
                return self.tr.lambda_vals[id(e)]
            # anywhere else: whoever gets the function object may call it, any number of times, with anything
            return self.in_loop(out, lambda body: self.lambda_body(e, Val(unknown=True), body, stack))
        if isinstance(e, ast.NamedExpr):
            val = self.expr(e.value, out, stack)
            self.assign(e.target, val, out, stack)
            return val
        if isinstance(e, (ast.Yield, ast.YieldFrom)):
            val = self.expr(e.value, out, stack) if e.value is not None else FRESH
            self.ret(val, out)
            return FRESH
        if isinstance(e, ast.Await):
            return self.expr(e.value, out, stack)
        if isinstance(e, ast.Call):
            return self.call(e, out, stack)
        self.tr.diag.append(f"unhandled expression {type(e).__name__}")
        return Val(unknown=True)

    def comprehension(self, e, out, stack):
        body = []
        for g in e.generators:
            it = self.expr(g.iter, out, stack)
            self.assign(g.target, it.loaded(), body, stack)
            for c in g.ifs:
                self.expr(c, body, stack)
        acc_o, acc_r = self.tr.new(), self.tr.new()
        out.append(["bind", acc_o, ["fresh"]])
        out.append(["bind", acc_r, ["fresh"]])
        if isinstance(e, ast.DictComp):
            self.expr(e.key, body, stack)
            val = self.expr(e.value, body, stack)
        else:
            val = self.expr(e.elt, body, stack)
        self.bind1(body, acc_r, val.all() | {acc_r}, val.unknown)
        out.append(["loop", ["seq", body]])
        return Val([acc_o], [acc_r], False, False, container_tag(val.tag))

    # ------------------------------------------------------------------ function values
    def in_loop(self, out, make):
        """`make(body) -> Val` translated as the body of a loop (run any number of times), with the two passes over the
        `arr`/tag facts that `for` statements use"""
        arr0 = set(self.arr)
        for final in (False, True):
            diag = list(self.tr.diag)
            body = []
            val = make(body)
            self.arr = arr0 & self.arr
            arr0 = set(self.arr)
            if not final:
                self.tr.diag = diag
        out.append(["loop", ["seq", body]])
        return val

    def lambda_body(self, lam: ast.Lambda, argval: Val, body, stack) -> Val:
        """the lambda's expression with every parameter bound to `argval`; the value is a function object that
        reaches whatever the expression may return (free variables are the enclosing scope's, read now)"""
        saved = {}
        a = lam.args
        for x in a.posonlyargs + a.args + a.kwonlyargs + [y for y in (a.vararg, a.kwarg) if y]:
            saved[x.arg] = self.vars.get(x.arg)
            self.vars[x.arg] = self.tmp(body, argval)
        for dflt in list(a.defaults) + [k for k in a.kw_defaults if k is not None]:
            self.expr(dflt, body, stack)
        ret = self.expr(lam.body, body, stack)
        for name, old in saved.items():
            if old is None:
                del self.vars[name]
            else:
                self.vars[name] = old
        return Val((), ret.all(), ret.unknown, False)

    def pure_function_value(self, node) -> bool:
        """`str.isdigit`, `int`, `len`, ...: builtins passed as functions; they write nothing and return new values"""
        d = dotted(node)
        if d is None or d.split(".")[0] in self.vars or d.split(".")[0] in self.localfuncs:
            return False
        if self.tr.prog.resolve_name(self.mod, ast.Name(id=d.split(".")[0])) is not None:
            return False
        parts = d.split(".")
        return (len(parts) == 2 and parts[0] in PURE_TYPES) or (len(parts) == 1 and (d in PURE_TYPES or d in ("len", "abs", "repr")))

    def apply_fn(self, fnode, elem_nodes, out, stack) -> Val:
        """a builtin higher-order callable applies `fnode` to elements: translated as calls in a loop; returns what
        the applications may return"""
        if self.pure_function_value(fnode):
            return FRESH

        def make(body):
            if isinstance(fnode, ast.Lambda):
                elems = Val(arr=True)
                for n in elem_nodes:
                    elems = elems | self.expr(n, body, stack)
                v = self.lambda_body(fnode, elems, body, stack)
                self.tr.lambda_vals[id(fnode)] = v
                return Val(v.reach, v.reach, v.unknown, False)
            res = Val(arr=True)
            for n in elem_nodes:
                syn = ast.copy_location(ast.Call(func=fnode, args=[n], keywords=[]), fnode)
                res = res | self.call(syn, body, stack)
            return res
        return self.in_loop(out, make)

    def higher_order(self, e: ast.Call, out, stack):
        """(result of the applications | None, names of keywords that do not flow into the result)"""
        f = e.func

        def elem(n):
            n = n.value if isinstance(n, ast.Starred) else n
            return ast.copy_location(ast.Subscript(value=n, slice=ast.Constant(0), ctx=ast.Load()), n)
        builtin = isinstance(f, ast.Name) and f.id not in self.vars and f.id not in self.localfuncs \
            and self.tr.prog.resolve_name(self.mod, f) is None
        key = next((k.value for k in e.keywords if k.arg == "key"), None)
        if builtin and f.id in HOF_KEY and key is not None:
            pos = [a.value if isinstance(a, ast.Starred) else a for a in e.args]
            nodes = [elem(a) for a in e.args] + (pos if len(pos) > 1 else [])  # min(a, b, key=f): the arguments themselves
            self.apply_fn(key, nodes, out, stack)
            return None, {"key"}
        if isinstance(f, ast.Attribute) and f.attr == "sort" and key is not None:
            self.apply_fn(key, [elem(f.value)], out, stack)
            return None, {"key"}
        if builtin and f.id in HOF_FIRST and len(e.args) >= 2 and not isinstance(e.args[0], ast.Starred):
            res = self.apply_fn(e.args[0], [elem(a) for a in e.args[1:]], out, stack)
            return (res if f.id == "map" else None), set()
        return None, set()

    def call_one_of(self, keys, args, kwargs, out, stack, pairs) -> Val:
        """a call through a name that holds one of the pewlib functions `keys`: a branch over inlining each"""
        res = self.tmp(out, Val())
        arr0, arrs, alts, is_arr = set(self.arr), [], [], True
        for key in sorted(keys):
            self.arr = set(arr0)
            b = []
            v = self.inline(key[0], self.tr.prog.funcs[key], args, kwargs, b, stack, pairs=pairs)
            self.bind1(b, res[0], v.own, v.unknown)
            self.bind1(b, res[1], v.reach, v.unknown)
            is_arr = is_arr and self.is_arr(v)
            arrs.append(self.arr)
            alts.append(["seq", b])
        self.arr = set.intersection(*arrs)
        node = alts[-1]
        for alt in reversed(alts[:-1]):
            node = ["branch", alt, node]
        out.append(node)
        return Val([res[0]], () if is_arr else [res[1]], False, is_arr)

    # ------------------------------------------------------------------ calls
    def call(self, e: ast.Call, out, stack) -> Val:
        self._stack = stack
        hof_res, no_flow = self.higher_order(e, out, stack)
        args = []
        star_from = None
        for i, a in enumerate(e.args):
            v = self.expr(a, out, stack)
            if isinstance(a, ast.Starred):
                star_from = i if star_from is None else star_from
                v = v.loaded()
            args.append(v)
        if star_from is not None:  # positions are unknown from the first `*iterable` on: every later slot may get any of them
            tail = Val(arr=True)
            for v in args[star_from:]:
                tail = tail | v
            args = args[:star_from] + [tail] * 12
        kwargs = {}
        for k in e.keywords:
            kwargs[k.arg or "**"] = self.expr(k.value, out, stack)
        AP = ([self.pair_of(a) for a in e.args] + [None] * 12, {(k.arg or "**"): self.pair_of(k.value) for k in e.keywords})
        if "**" in kwargs:
            kwargs["**"] = kwargs["**"].loaded()
            AP[1].pop("**", None)
        allargs = args + list(kwargs.values())
        union = Val(arr=True)
        for a in args + [v for k, v in kwargs.items() if k not in no_flow]:
            union = union | a
        if hof_res is not None:
            union = hof_res  # map(f, xs): the elements of the result are what f returns, nothing else
        f = e.func
        if "out" in kwargs:  # `out=` style keyword: the named array is written
            self.write(out, kwargs["out"])

        d = dotted(f)
        if isinstance(f, ast.Name) and f.id in self.localfuncs:
            return self.inline(self.mod, self.localfuncs[f.id], args, kwargs, out, stack, cls_key=self.cls_key,
                               def_cls=self.def_cls, closure=self, pairs=AP)
        if isinstance(f, ast.Name) and f.id in self.funcvals:
            return self.call_one_of(self.funcvals[f.id], args, kwargs, out, stack, AP)
        if isinstance(f, ast.Name) and f.id == "cls" and self.cls_key:
            return self.construct(self.cls_key, args, kwargs, out, stack, pairs=AP)
        if isinstance(f, ast.Name) and f.id not in self.vars:
            r = self.tr.prog.resolve_name(self.mod, f)
            if r and r[0] == "func":
                return self.inline(r[1][0], self.tr.prog.funcs[r[1]], args, kwargs, out, stack, pairs=AP)
            if r and r[0] == "class":
                return self.construct(r[1], args, kwargs, out, stack, pairs=AP)
            name = r[1] if r and r[0] == "ext" else f.id
            return self.external(name, f.id, args, kwargs, union, out, e)
        if d is not None and d.split(".")[0] not in self.vars:
            head = d.split(".")[0]
            r = self.tr.prog.resolve_name(self.mod, ast.Name(id=head))
            if r and r[0] == "mod" and r[1].startswith("pewlib"):
                parts = d.split(".")[1:]
                mod = r[1]
                while len(parts) > 1 and self.tr.prog.path(f"{mod}.{parts[0]}") is not None:
                    mod = f"{mod}.{parts[0]}"
                    self.tr.prog.load(mod)
                    parts = parts[1:]
                if len(parts) == 1 and (mod, parts[0]) in self.tr.prog.funcs:
                    return self.inline(mod, self.tr.prog.funcs[(mod, parts[0])], args, kwargs, out, stack, pairs=AP)
                if len(parts) == 1 and (mod, parts[0]) in self.tr.prog.classes:
                    return self.construct((mod, parts[0]), args, kwargs, out, stack, pairs=AP)
                if len(parts) == 2 and (mod, parts[0]) in self.tr.prog.classes:
                    return self.static_method((mod, parts[0]), parts[1], args, kwargs, out, stack, union, e, pairs=AP)
            if r and r[0] == "class" and len(d.split(".")) == 2:
                return self.static_method(r[1], d.split(".")[1], args, kwargs, out, stack, union, e, pairs=AP)
            parts = d.split(".")
            if r is None and len(parts) == 2 and self.tr.prog.consts.get((self.mod, head)) and head not in self.localfuncs:
                # a builtin method of a module-level literal (dict / list / tuple / str constant), e.g. `TABLE.items()`
                if parts[1] in FRESH_METHODS:
                    return FRESH
                if parts[1] in VIEW_METHODS:
                    return Val(union.own, union.reach, union.unknown, False)  # constants, or a default that was passed
            full = d
            if r and r[0] == "ext":
                full = r[1] + d[len(head):]  # `from xml.etree import ElementTree` -> xml.etree.ElementTree.parse
            if r and r[0] == "mod":
                full = r[1] + d[len(head):]
                if r[1] == "numpy":
                    full = "np" + d[len(head):]
                if r[1] == "numpy.lib.recfunctions":
                    full = "np.lib.recfunctions" + d[len(head):]
            return self.external(full, d, args, kwargs, union, out, e)

        # ---- super().method(...)
        if isinstance(f, ast.Attribute) and isinstance(f.value, ast.Call) and isinstance(f.value.func, ast.Name) \
                and f.value.func.id == "super" and self.cls_key and self.selfvar is not None:
            m = self.tr.prog.find_method(self.cls_key, f.attr, after=self.def_cls)
            if m:
                return self.inline(m[0][0], m[1], [self.self_val()] + args, kwargs, out, stack,
                                   cls_key=self.cls_key, def_cls=m[0], pairs=([self.self_pair()] + AP[0], AP[1]))
            return FRESH  # object.__init__ etc.

        # ---- method call on some object
        if isinstance(f, ast.Attribute):
            recv = self.expr(f.value, out, stack)
            name = f.attr
            res = Val(arr=True)
            handled = False
            if recv.tag in ("xml", "xmlc") and (name in XML_PART | XML_PARTS | XML_TEXT or (recv.tag == "xml" and name in XML_ATTR)):
                part = recv.loaded()
                if name in XML_PART:
                    return Val(part.own, part.reach, part.unknown, False, "xml")
                if name in XML_PARTS:
                    return Val((), part.own | part.reach, part.unknown, False, "xmlc")
                dflt = args[1] if len(args) > 1 else kwargs.get("default", FRESH)
                return dflt.untagged() | FRESH  # text / attribute strings, or the default
            if recv.tag == "exec" and name == "submit" and e.args and not isinstance(e.args[0], ast.Starred):
                # the executor calls args[0](*args[1:], **kwargs) (now or later, on the same objects)
                syn = ast.copy_location(ast.Call(func=e.args[0], args=list(e.args[1:]), keywords=list(e.keywords)), e)
                v = self.call(syn, out, stack)
                return Val((), v.all(), v.unknown, False, "fut")
            if recv.tag == "fut" and name in ("result", "exception", "done", "cancel", "cancelled", "running"):
                return recv.loaded().untagged()
            on_self = self.selfvar is not None and recv.own == {self.selfvar} and self.cls_key
            cands = []
            if on_self:
                cands = self.tr.prog.overrides(self.cls_key, name)
            if not cands:
                cands = [(k, fn) for k, fn in self.tr.prog.methods_named(name) if "property" not in decorators(fn)]
            builtin = name in INPLACE_METHODS or name in FRESH_METHODS or name in VIEW_METHODS
            is_cont = bool(recv.own) and all(v in self.cont for v in recv.own) and isinstance(f.value, ast.Name)
            if isinstance(recv.tag, tuple) and recv.tag[0] == "cls" and not on_self:
                typed = self.tr.prog.overrides(recv.tag[1], name)
                if typed:  # a method of the receiver's class hierarchy: exactly these, whatever the name
                    for key, fn in typed:
                        decs = decorators(fn)
                        a1, p1 = (args, AP) if "staticmethod" in decs else \
                            ([FRESH if "classmethod" in decs else recv] + args,
                             ([None if "classmethod" in decs else self.pair_of(f.value)] + AP[0], AP[1]))
                        res = res | self.inline(key[0], fn, a1, kwargs, out, stack, cls_key=key, def_cls=key, pairs=p1)
                    return res
            elif recv.tag is not None and not isinstance(recv.tag, tuple):
                cands = []  # a library object: never one of pewlib's classes
            if cands and not (builtin and (self.is_arr(recv) or is_cont)):
                for key, fn in cands:
                    decs = decorators(fn)
                    if "staticmethod" in decs:
                        res = res | self.inline(key[0], fn, args, kwargs, out, stack, cls_key=key, pairs=AP)
                    elif "classmethod" in decs:
                        res = res | self.inline(key[0], fn, [FRESH] + args, kwargs, out, stack, cls_key=key,
                                                pairs=([None] + AP[0], AP[1]))
                    else:
                        ck = self.cls_key if on_self else key
                        res = res | self.inline(key[0], fn, [recv] + args, kwargs, out, stack, cls_key=ck, def_cls=key,
                                                pairs=([self.pair_of(f.value)] + AP[0], AP[1]))
                handled = True
            if name in INPLACE_METHODS and not (on_self and cands):
                self.write(out, recv)
                if not self.is_arr(recv) and name in STORING_METHODS:
                    self.absorb(f.value, recv, union, out)
                res = res | recv.loaded()
                handled = True
            elif name == "astype" and "copy" in kwargs:
                res = res | recv.loaded()  # astype(..., copy=False) may return the array itself
                handled = True
            elif name in FRESH_METHODS and not (on_self and cands):
                res = res | FRESH
                handled = True
            elif name in VIEW_METHODS and not (on_self and cands):
                res = res | recv.loaded() | union
                handled = True
            if handled:
                return res
            return self.unknown_call(ast.unparse(f), [recv] + allargs, out, e)
        fv = self.expr(f, out, stack)
        return self.unknown_call(ast.unparse(f), [fv] + allargs, out, e)

    def self_pair(self):
        for name, (vo, vr) in self.vars.items():
            if vo == self.selfvar:
                return (vo, vr)
        return None

    def self_val(self):
        for name, (vo, vr) in self.vars.items():
            if vo == self.selfvar:
                return Val([vo], [vr], False, False)
        return Val([self.selfvar], (), False, False)

    def stringify(self, val: Val, out, stack):
        """str(x) / repr(x) / format / f"{x}": runs the class's own __str__ / __repr__ / __format__ when x is known to be
        an instance of a pewlib class"""
        if not (isinstance(val.tag, tuple) and val.tag[0] == "cls"):
            return  # values of unknown class: not followed (see the trusted list of harness/c19.py)
        for dunder in ("__str__", "__repr__", "__format__"):
            for key, fn in self.tr.prog.overrides(val.tag[1], dunder):
                self.inline(key[0], fn, [val], {}, out, stack, cls_key=key, def_cls=key)

    def external(self, full, shown, args, kwargs, union, out, e):
        if shown in ("str", "repr", "format", "print") and shown == full:
            for a in args:
                self.stringify(a, out, stack=self._stack)
        cands = {full, shown}
        for c in list(cands):
            if c.startswith("numpy."):
                cands.add("np." + c[len("numpy."):])
            if c.startswith("rfn."):
                cands.add("np.lib.recfunctions." + c[len("rfn."):])
        for c in cands:
            if c in WRITE_FUNCS:
                for i in WRITE_FUNCS[c]:
                    if i < len(args):
                        self.write(out, args[i])
                return FRESH
        for c in cands:
            if c in TAGGED_FRESH_FUNCS:
                return Val(tag=TAGGED_FRESH_FUNCS[c])
        if cands & FRESH_FUNCS:
            return FRESH
        if cands & CONTAINER_FUNCS:
            return union.container()
        if cands & VIEW_FUNCS:
            src = union if (cands & {"next", "getattr"}) or not args else args[0]
            v = src.loaded()
            return Val(v.own, v.reach, v.unknown, bool(args) and self.is_arr(args[0]))
        return self.unknown_call(full, args + list(kwargs.values()), out, e)

    def unknown_call(self, name, vals, out, e):
        self.tr.diag.append(f"unknown call {name} (line {getattr(e, 'lineno', '?')} in {self.mod})")
        for v in vals:
            self.write(out, v, deep=True)
        return Val(unknown=True)

    def static_method(self, cls_key, name, args, kwargs, out, stack, union, e, pairs=None):
        m = self.tr.prog.find_method(cls_key, name)
        if not m:
            return self.unknown_call(f"{cls_key[1]}.{name}", args + list(kwargs.values()), out, e)
        decs = decorators(m[1])
        ap, kp = pairs if pairs is not None else ([None] * len(args), {})
        if "classmethod" in decs:
            return self.inline(m[0][0], m[1], [FRESH] + args, kwargs, out, stack, cls_key=cls_key, def_cls=m[0],
                               pairs=([None] + list(ap), kp))
        return self.inline(m[0][0], m[1], args, kwargs, out, stack, cls_key=cls_key, def_cls=m[0], pairs=(ap, kp))

    def construct(self, cls_key, args, kwargs, out, stack, pairs=None):
        so, sr = self.tmp(out, Val())
        m = self.tr.prog.find_method(cls_key, "__init__")
        selfval = Val([so], [sr], False, False)
        self.tr.init_fields(out, cls_key, (so, sr), fresh=True)
        ap, kp = pairs if pairs is not None else ([None] * len(args), {})
        if m:
            self.inline(m[0][0], m[1], [selfval] + args, kwargs, out, stack, cls_key=cls_key, def_cls=m[0],
                        pairs=([(so, sr)] + list(ap), kp))
        else:
            u = Val(arr=True)
            for a in args + list(kwargs.values()):
                u = u | a
            if u.all() or u.unknown:
                self.bind1(out, sr, u.all() | {sr}, u.unknown)
        return Val([so], [sr], False, False, ("cls", cls_key))

    def inline(self, mod, fn, args, kwargs, out, stack, cls_key=None, def_cls=None, closure=None, pairs=None):
        key = (mod, fn.name, def_cls or cls_key, fn.lineno)
        if len(stack) >= Translator.MAX_DEPTH or key in stack:
            self.tr.diag.append(f"inline limit at {fn.name}")
            for a in args + list(kwargs.values()):
                self.write(out, a, deep=True)
            return Val(unknown=True)
        sc = Scope(self.tr, mod, cls_key)
        if closure is not None:  # free variables of a nested function are the enclosing scope's
            sc.vars = dict(closure.vars)
            sc.localfuncs = dict(closure.localfuncs)
            sc.funcvals = dict(closure.funcvals)
            sc.selfvar = closure.selfvar
        for k, v in self.tr.func_locals(mod, fn).items():
            sc.funcvals[k] = v
        sc.def_cls = def_cls or cls_key
        sc.res = (self.tr.new(), self.tr.new())
        out.append(["bind", sc.res[0], ["fresh"]])
        out.append(["bind", sc.res[1], ["fresh"]])
        params = Translator.param_names(fn)
        a = fn.args
        positional = [x.arg for x in a.posonlyargs + a.args]
        kwonly = [x.arg for x in a.kwonlyargs]
        is_method = cls_key is not None and bool(positional) and positional[0] == "self" \
            and "staticmethod" not in decorators(fn)
        extra = Val(arr=True)
        bound = {}
        for i, v in enumerate(args):
            if i < len(positional):
                bound[positional[i]] = v
            elif a.vararg or i < 12:
                extra = extra | v
        for k, v in kwargs.items():
            if k in positional or k in kwonly:
                bound[k] = v
            else:
                extra = extra | v
        # by-reference passing: a plain caller variable that the callee never rebinds IS the callee's parameter
        rebinds = {n.id for n in ast.walk(fn) if isinstance(n, ast.Name) and isinstance(n.ctx, (ast.Store, ast.Del))}
        shared = {}
        if pairs is not None:
            ap, kp = pairs
            named = [(positional[i], pr) for i, pr in enumerate(ap) if pr is not None and i < len(positional)]
            named += [(k, pr) for k, pr in kp.items() if pr is not None and (k in positional or k in kwonly)]
            for pname, pr in named:
                if pname in rebinds:
                    continue
                if pr[0] == "fn":
                    sc.funcvals[pname] = pr[1]  # the parameter IS one of these pewlib functions
                else:
                    shared[pname] = pr
        pairs = {}
        for name, ann in params:
            pairs[name] = shared.get(name) or (self.tr.new(), self.tr.new())
        # bind all parameters from the caller's values before the callee's names shadow anything
        for name, ann in params:
            if name in shared:
                continue
            if name in bound:
                val = bound[name]
                val = Val(val.own, val.reach, val.unknown, self.is_arr(val), val.tag)
                sc.bind(out, pairs[name], val)
            elif (a.vararg and name == a.vararg.arg) or (a.kwarg and name == a.kwarg.arg):
                sc.bind(out, pairs[name], extra.container())
            elif "**" in kwargs:
                sc.bind(out, pairs[name], kwargs["**"])  # `**mapping`: any unbound parameter may receive any of its values
            else:
                sc.bind(out, pairs[name], FRESH)  # defaults are module-level constants
            if name not in bound or not self.is_arr(bound[name]):
                if ann is not None and is_array_annotation(ann) and name in bound and not bound[name].unknown \
                        and not bound[name].reach - bound[name].own:
                    pass
        for name, ann in params:
            sc.vars[name] = pairs[name]
            if ann is not None and is_container_annotation(ann):
                sc.cont.add(pairs[name][0])
            if ann is not None and is_xml_annotation(ann):
                sc.set_tag(pairs[name][0], "xml")
            if annotation_tag(self.tr.prog, mod, ann) and sc.tag_of(pairs[name][0]) is None:
                sc.set_tag(pairs[name][0], annotation_tag(self.tr.prog, mod, ann))
        sc.stable = {n for n, _ in params} - rebinds
        if is_method:
            sc.selfvar = sc.vars[positional[0]][0]
            self.tr.init_fields(out, def_cls or cls_key, sc.vars[positional[0]], fresh=False)
        sc.block(fn.body, out, stack + [key])
        rtag = None if sc.res_arr or fn.name == "__init__" else annotation_tag(self.tr.prog, mod, fn.returns)
        return Val([sc.res[0]], [sc.res[1]], False, sc.res_arr, rtag)


def walk_no_nested_loops(stmts):
    for s in stmts:
        yield s
        for fld in ("body", "orelse", "handlers", "finalbody"):
            sub = getattr(s, fld, None)
            if sub and not isinstance(s, (ast.For, ast.While, ast.FunctionDef, ast.ClassDef)):
                yield from walk_no_nested_loops([x for x in sub if isinstance(x, ast.AST)])
        if isinstance(s, ast.ExceptHandler):
            yield from walk_no_nested_loops(s.body)


# ----------------------------------------------------------------------------- inventory
INVENTORY_MODULES = [
    "pewlib.process.calc", "pewlib.process.colocal", "pewlib.process.filters", "pewlib.process.register",
    "pewlib.process.convolve", "pewlib.process.threshold", "pewlib.calibration", "pewlib.laser", "pewlib.srr.srr",
    "pewlib.io.laser", "pewlib.io.npz", "pewlib.io.textimage", "pewlib.io.vtk", "pewlib.config", "pewlib.srr.config",
    # the remaining processing and I/O modules of the property's quantifier
    "pewlib.io.agilent", "pewlib.io.csv", "pewlib.io.thermo", "pewlib.io.imzml", "pewlib.io.perkinelmer",
    "pewlib.process.peakfinding",
]


def inventory(prog: Program, modules=None):
    """every public function and method of the inventoried modules: (qualified name, module, fn, cls_key, constructor)"""
    out = []
    for mod in (INVENTORY_MODULES if modules is None else modules):
        tree = prog.mods.get(mod)
        if tree is None:
            continue
        for node in tree.body:
            if isinstance(node, ast.FunctionDef) and not node.name.startswith("_"):
                out.append((f"{mod}.{node.name}", mod, node, None, False))
            elif isinstance(node, ast.ClassDef) and not node.name.startswith("_"):
                for n in node.body:
                    if not isinstance(n, ast.FunctionDef):
                        continue
                    decs = decorators(n)
                    if n.name == "__init__":
                        out.append((f"{mod}.{node.name}", mod, n, (mod, node.name), True))
                    elif n.name.startswith("_"):
                        continue
                    elif any(d.endswith(".setter") for d in decs):
                        out.append((f"{mod}.{node.name}.{n.name}.setter", mod, n, (mod, node.name), False))
                    else:
                        out.append((f"{mod}.{node.name}.{n.name}", mod, n, (mod, node.name), False))
    return out


def translate_all(repo: Path, modules=None, src="src"):
    prog = Program(repo, INVENTORY_MODULES if modules is None else modules, src)
    tr = Translator(prog)
    res = []
    for qual, mod, fn, cls_key, ctor in inventory(prog, modules):
        sc_np, pnames, ir = tr.translate(mod, fn, cls_key, ctor)
        res.append({"name": qual, "np": sc_np, "params": pnames, "ir": ir, "diag": list(tr.diag),
                    "kind": "constructor" if ctor else ("method" if cls_key else "function")})
    return res


if __name__ == "__main__":
    import json
    import sys

    r = translate_all(Path(sys.argv[1] if len(sys.argv) > 1 else "/repo"))
    for f in r:
        print(f["name"], f["np"], f["params"], len(json.dumps(f["ir"])), f["diag"][:5])
