"""What the dynamic half of C19 observes: deep snapshots of arguments, and whether a result shares memory or a
mutable object with an argument.  No `gc`: a bounded recursive walk over `__dict__` / `__slots__`, sequences, sets,
mappings, object-dtype arrays and object fields of structured arrays, cycle-safe by identity."""
import enum
import inspect
import re
import types
from pathlib import PurePath
from xml.etree import ElementTree

import numpy as np

IMMUTABLE = (str, bytes, int, float, complex, bool, type(None), PurePath, np.generic, range, slice, type(Ellipsis),
             np.dtype, frozenset, enum.Enum, re.Pattern, re.Match)
OPAQUE = (types.ModuleType, types.FunctionType, types.BuiltinFunctionType, types.MethodType, type, np.ufunc)


def snap(o, depth=0):
    if depth > 6:
        return "..."
    if isinstance(o, np.ndarray):
        if o.dtype.hasobject:
            return ("ndo", str(o.dtype), o.shape, [snap(x, depth + 1) for x in o.ravel().tolist()])
        return ("nd", str(o.dtype), o.shape, o.tobytes())
    if isinstance(o, (list, tuple)):
        return (type(o).__name__, [snap(x, depth + 1) for x in o])
    if isinstance(o, (set, frozenset)):
        return (type(o).__name__, sorted(repr(snap(x, depth + 1)) for x in o))
    if isinstance(o, dict):
        return ("dict", [(snap(k, depth + 1), snap(v, depth + 1)) for k, v in o.items()])
    if isinstance(o, bytearray):
        return ("ba", bytes(o))
    if isinstance(o, (str, bytes, int, float, bool, type(None), PurePath, np.generic)):
        return ("s", repr(o))
    if isinstance(o, (ElementTree.Element, ElementTree.ElementTree)):
        root = o.getroot() if isinstance(o, ElementTree.ElementTree) else o
        return ("xml", ElementTree.tostring(root) if root is not None else b"")
    if inspect.isroutine(o) or inspect.isclass(o):
        return ("o", repr(o))
    if hasattr(o, "__dict__"):
        return (type(o).__name__, [(k, snap(v, depth + 1)) for k, v in sorted(vars(o).items())])
    return ("o", repr(o))


def children(o):
    """objects directly referenced by o (the edges the walk follows)"""
    if isinstance(o, np.ndarray):
        if o.dtype.hasobject:
            if o.dtype.names:
                out = []
                for n in o.dtype.names:
                    if o.dtype[n].hasobject:
                        out.extend(o[n].ravel().tolist())
                return out
            return o.ravel().tolist()
        return []
    if isinstance(o, (list, tuple, set, frozenset)):
        return list(o)
    if isinstance(o, dict):
        return list(o.keys()) + list(o.values())
    if isinstance(o, IMMUTABLE + OPAQUE):
        return []
    out = []
    d = getattr(o, "__dict__", None)
    if isinstance(d, dict):
        out.extend(d.values())
    for klass in type(o).__mro__:
        for s in getattr(klass, "__slots__", ()) or ():
            if isinstance(s, str) and s not in ("__dict__", "__weakref__"):
                try:
                    out.append(getattr(o, s))
                except AttributeError:
                    pass
    return out


def reachable(o, max_depth=12):
    """(arrays, mutable objects by id) reachable from o, o included"""
    arrays, objs, seen = [], {}, set()
    todo = [(o, 0)]
    while todo:
        x, dpt = todo.pop()
        if id(x) in seen or isinstance(x, IMMUTABLE + OPAQUE):
            continue
        seen.add(id(x))
        if isinstance(x, np.ndarray):
            arrays.append(x)
        elif not isinstance(x, (tuple, frozenset)):  # immutable shells: walked through, not themselves shareable state
            objs[id(x)] = x
        if dpt < max_depth:
            for c in children(x):
                todo.append((c, dpt + 1))
    return arrays, objs


def arrays_of(o):
    return reachable(o)[0]


def shares(result, arg):
    """'memory' when an array reachable from the result overlaps one reachable from the argument, 'object' when a
    mutable object (list, dict, set, bytearray, instance with state) is reachable from both, else None"""
    ra, ro = reachable(result)
    aa, ao = reachable(arg)
    for r in ra:
        for a in aa:
            if r.size and a.size and np.shares_memory(r, a):
                return "memory"
    for i in ro:
        if i in ao:
            return "object"
    # an array of the argument may also be the buffer of a non-array result and vice versa (bytearray / memoryview)
    for r in ra:
        for a in ao.values():
            if isinstance(a, (bytearray, memoryview)) and r.size and np.shares_memory(r, np.frombuffer(a, dtype=np.uint8)):
                return "memory"
    return None


def inner_snapshot(o):
    """{id: (object, content snapshot)} of every array and every mutable builtin container (list, dict, set, bytearray)
    reachable from o — the things the property protects — keyed by identity, so that REBINDING an attribute of a custom
    object to a new array is not a change of any of them, while writing INTO one of them is"""
    arrays, objs = reachable(o)
    out = {}
    for a in arrays:
        out[id(a)] = (a, snap(a))
    for x in objs.values():
        if isinstance(x, (list, dict, set, bytearray)):
            out[id(x)] = (x, snap(x, depth=5))  # its own slots; nested containers / arrays have their own entries
    return out


def inner_changed(before) -> bool:
    for obj, old in before.values():
        new = snap(obj) if isinstance(obj, np.ndarray) else snap(obj, depth=5)
        if new != old:
            return True
    return False


PLAIN = (np.ndarray, str, bytes, int, float, complex, bool, type(None), PurePath, np.generic, np.dtype, re.Pattern, re.Match,
         type, range, slice)


def is_plain(v) -> bool:
    """a value that holds no references: what the translator's `arr` fact claims"""
    if isinstance(v, np.ndarray):
        return not v.dtype.hasobject
    if isinstance(v, (tuple, frozenset)):
        return all(is_plain(x) for x in v)  # an immutable shell of plain values
    return isinstance(v, PLAIN) or hasattr(v, "read") and hasattr(v, "seek")  # an open file holds no caller data


def conforms(v, t, classes) -> bool:
    """value v is what annotation type t (translate.annotation_type) claims; `classes`: key -> the imported class"""
    if t is None:
        return True
    if t == "arr":
        return is_plain(v)
    if isinstance(t, tuple) and t[0] == "cls":
        c = classes(t[1])
        return c is None or v is None or isinstance(v, c)
    if isinstance(t, tuple) and t[0] == "list":
        def plain_type(x):
            return x == "arr" or (isinstance(x, tuple) and x[0] == "list" and plain_type(x[1]))
        if v is None or (plain_type(t) and is_plain(v)):
            return True  # a plain value where a container of plain values is claimed holds no references either
        if isinstance(v, dict):  # keys are hashable: plain values or tuples of such
            def key_ok(k):
                return is_plain(k) or (isinstance(k, (tuple, frozenset)) and all(key_ok(x) for x in k))
            return all(key_ok(k) for k in v) and all(conforms(x, t[1], classes) for x in v.values())
        if isinstance(v, (list, tuple, set, frozenset, range)) or hasattr(v, "__next__"):
            return hasattr(v, "__next__") or all(conforms(x, t[1], classes) for x in v)
        return False
    return True


# ----------------------------------------------------------------------------- identities (call histories) and result edits
def identity_snapshot(o):
    """{id(container): (container, identities of what its slots hold)} for every builtin container (list, dict, set) and
    every object array reachable from o: WHICH object sits in which slot, not only what it is worth.  A caller that
    keeps a list and later finds other (even equal) arrays in its slots has had its list modified."""
    _, objs = reachable(o)
    out = {}
    for x in objs.values():
        if isinstance(x, list):
            out[id(x)] = (x, ("list", tuple(id(i) for i in x)))
        elif isinstance(x, dict):
            out[id(x)] = (x, ("dict", tuple((k if isinstance(k, (str, int, float, bool, type(None))) else id(k), id(v))
                                             for k, v in x.items())))
        elif isinstance(x, set):
            out[id(x)] = (x, ("set", tuple(sorted(id(i) for i in x))))
    for a in reachable(o)[0]:
        if a.dtype.hasobject and not a.dtype.names:
            out[id(a)] = (a, ("ndo", tuple(id(i) for i in a.ravel().tolist())))
    return out


def identity_changed(before) -> bool:
    for obj, old in before.values():
        if isinstance(obj, list):
            new = ("list", tuple(id(i) for i in obj))
        elif isinstance(obj, dict):
            new = ("dict", tuple((k if isinstance(k, (str, int, float, bool, type(None))) else id(k), id(v)) for k, v in obj.items()))
        elif isinstance(obj, set):
            new = ("set", tuple(sorted(id(i) for i in obj)))
        else:
            new = ("ndo", tuple(id(i) for i in obj.ravel().tolist()))
        if new != old:
            return True
    return False


class _Sentinel:
    pass


def edit_and_restore(result, check):
    """`editing a result does not alter the argument it was computed from`, literally: every writable array reachable
    from the result is overwritten (all bytes inverted), every list / dict / set / bytearray reachable from it gets an
    extra item; `check()` is then called (it compares the arguments with their snapshots) and everything is put back
    exactly as it was, whatever happens.  Returns check()'s value."""
    arrays, objs = reachable(result)
    saved_arrays, saved_objs, edited = [], [], []
    try:
        for a in sorted(arrays, key=lambda z: -z.nbytes):
            if a.size == 0 or a.dtype.itemsize == 0 or a.dtype.hasobject or not a.flags.writeable:
                continue
            if any(np.shares_memory(a, e) for e in edited):
                continue  # (part of) it is overwritten already: a second inversion would put the old bytes back
            edited.append(a)
            try:
                raw = a.view(np.uint8) if a.flags.c_contiguous and a.dtype.itemsize else None
            except (ValueError, TypeError):
                raw = None
            if raw is not None:
                saved_arrays.append((raw, raw.copy()))
                np.invert(raw, out=raw)
            else:  # non-contiguous / structured with padding: element-wise through a byte copy
                old = a.copy()
                saved_arrays.append((a, old))
                flipped = np.frombuffer(bytes(255 - b for b in old.tobytes()), dtype=old.dtype).reshape(old.shape)
                a[...] = flipped
        s = _Sentinel()
        for x in objs.values():
            if isinstance(x, list):
                x.append(s)
                saved_objs.append((x, "list"))
            elif isinstance(x, dict):
                x[s] = s
                saved_objs.append((x, s))
            elif isinstance(x, set):
                x.add(s)
                saved_objs.append((x, s))
            elif isinstance(x, bytearray) and len(x):
                x[0] ^= 0xFF
                saved_objs.append((x, "ba"))
        return check()
    finally:
        for x, how in reversed(saved_objs):
            if how == "list":
                x.pop()
            elif how == "ba":
                x[0] ^= 0xFF
            elif isinstance(x, dict):
                x.pop(how, None)
            else:
                x.discard(how)
        for a, old in reversed(saved_arrays):
            a[...] = old
