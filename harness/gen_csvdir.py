"""Synthetic per-line CSV directories in the four layouts read by pewlib.io.csv.load
(Nu Instruments, Thermo iCap LDR, TOFWERK, generic) and the generator of abstract cases for C04.

An abstract case is JSON:
  {"kind": "load", "vendor": v, "auto": bool, "tz": zone, "pi": [completion order of the reader tasks],
   "entries": [ ... in LISTING order ... ]}
entry (file with a table):  {"name", "type": "file", "role": "line", "header": [raw header tokens],
                             "names": [field names genfromtxt gives], "rows": [[text tokens]]}
entry (anything else):      {"name", "type": "file"|"dir", "role": "distractor", "raw": text}
optional "primers": [{"entries": [...], "pi": [...]} | {"same": true, "shuffle": seed, "pi": [...]}, ...]  directories of
the same layout ("same": the real directory itself, listing shuffled by the seed) that are imported BEFORE the real one,
in this order, through the same option object (a history of calls; only the last result is judged).
A token is the text written into the file; its value is float(token), NaN when that fails
(empty fields, the LDR "dwell time=..." row).
"""
from __future__ import annotations

import math
import re
from pathlib import Path

VENDORS = ["nu", "ldr", "tofwerk", "generic"]
ZONES = ["UTC", "Europe/Berlin", "America/New_York", "Australia/Lord_Howe", "Asia/Kolkata"]
# further zones of the random generator: quarter-hour offsets, the extreme offsets, a southern-hemisphere DST rule,
# a zone whose DST shift is at midnight, POSIX TZ strings (fixed offset; DST rule without a tz database entry)
MORE_ZONES = ["Asia/Kathmandu", "Pacific/Chatham", "America/St_Johns", "Pacific/Kiritimati", "Etc/GMT+12", "America/Santiago",
              "Africa/Cairo", "<+0330>-3:30", "EST5EDT,M3.2.0,M11.1.0"]

# local wall-clock DST transitions: (zone, date, kind, start minute of day, length in minutes)
TRANSITIONS = [
    ("Europe/Berlin", "2021.03.28", "gap", 120, 60),
    ("Europe/Berlin", "2021.10.31", "overlap", 120, 60),
    ("America/New_York", "2021.03.14", "gap", 120, 60),
    ("America/New_York", "2021.11.07", "overlap", 60, 60),
    ("Australia/Lord_Howe", "2021.10.03", "gap", 120, 30),
    ("Australia/Lord_Howe", "2021.04.04", "overlap", 90, 30),
]

# transitions of the further zones (random generator only; the targeted sweeps use TRANSITIONS)
MORE_TRANSITIONS = [
    ("Pacific/Chatham", "2021.09.26", "gap", 165, 60),
    ("Pacific/Chatham", "2021.04.04", "overlap", 165, 60),
    ("America/Santiago", "2021.09.05", "gap", 0, 60),
    ("America/St_Johns", "2021.03.14", "gap", 120, 60),
    ("America/St_Johns", "2021.11.07", "overlap", 60, 60),
    ("Africa/Cairo", "2023.04.28", "gap", 0, 60),
    ("EST5EDT,M3.2.0,M11.1.0", "2021.03.14", "gap", 120, 60),
]

NU_HEADER = [
    "Timestamp:,2023-01-01T00:00:00.000000", "Laser line number:,{idx}", "Laser line name:,LINE_{idx}",
    "Laser image name:,LINE", "Starting X:,0.0", "Starting Y:,0.0", "Starting Z:,10.0", "Spot size:,10.0",
    "Spot spacing:,5.0", "Number of shots:,100", "Direction of ablation:,0,Left to Right",
]
LDR_HEADER = [
    "<Identifier>:11-18-2020 04:26:15 AM;", "Software:Name=Qtegra;Version=2.7.2425.65;File Version=1;",
    "Configuration:Machine=iCAP RQ;", "STD:Additional Gas Flow 1=0;CCT Entry Lens=-52;", "RF Generator:RF Plasma Lit Readback=1;",
    "Ion Optics:Pole Bias Readback=-0.950146627565982;", "Vacuum:Analyzer Vacuum Ok Readback=1;",
    "Detector:Detector Voltage (Counting) Readback=1380.2541544477;", "Cooling System:Plasma Cooling Water Flow Readback=0.63;",
    "Power Supply:Supply Voltage 500 V Readback=-537.634408602151;", "Gas Supply:Nebulizer Supply Pressure Readback=2.70;",
    "Pulse Counting:Threshold=2500000;", "",
]
ELEMENTS = ["A", "B", "31P", "153Eu", "182W", "Ca44", "[56Fe]+", "ArO+", "Na23->23", "P31_2", "Zn66", "c", "Time2", "x"]


def value_of(tok: str) -> float:
    try:
        return float(tok)
    except ValueError:
        return math.nan


# ----------------------------------------------------------------------------- writer
def file_text(vendor: str, e: dict, eol: str = "\n") -> str:
    lines = []
    if vendor == "nu":
        lines += [h.format(idx=e.get("idx", 0)) for h in NU_HEADER]
    elif vendor == "ldr":
        lines += LDR_HEADER
    lines.append(",".join(e["header"]))
    for r in e["rows"]:
        lines.append(",".join(r))
    return eol.join(lines) + eol


def write_dir(d: Path, case: dict) -> None:
    for e in case["entries"]:
        p = d / e["name"]
        if e["type"] == "dir":
            p.mkdir()
        elif e["role"] == "line":
            p.write_text(file_text(case["vendor"], e, e.get("eol", "\n")), newline="")
        else:
            p.write_text(e.get("raw", ""))


# ----------------------------------------------------------------------------- values
def data_token(rng) -> str:
    k = rng.random()
    if k < 0.45:
        return str(rng.randint(0, 5000))
    if k < 0.7:
        return repr(round(rng.uniform(-100, 3000), rng.randint(1, 12)))
    if k < 0.8:
        return repr(rng.uniform(-1, 1) * 10 ** rng.randint(-12, 12))          # exponent forms
    if k < 0.86:
        return rng.choice(["-0.5", "-12", "-3.25e-3", "1E3", "2.5e+02", "+7", "0", "0.0", "1e-300", "-1.5E-7"])
    if k < 0.9:
        return rng.choice(["nan", "", "NaN"])
    if k < 0.93:  # negative zero, 17 significant digits, subnormal / largest exponents, padded forms
        return rng.choice(["-0.0", "-0", "-0e0", "-0.000", "0.1000000000000000055511151231257827", "1.7976931348623157e308",
                           "5e-324", "2.2250738585072014e-308", "0.30000000000000004", "9007199254740993", "123456789.12345678",
                           "1.0000000000000002", "00012", "1.", ".5", "-.5e1", "1e0", "4.9406564584124654e-324"])
    return repr(rng.random())


def helper_column(rng, n, start, step):
    """decimal tokens start + j*step written with a few decimals"""
    return [repr(round(start + j * step, 6)) for j in range(n)]


# ----------------------------------------------------------------------------- names
def indices(rng, n):
    """line numbers whose numeric order differs from the lexicographic one"""
    pool = [9, 10, 11, 100, 1, 2, 19, 20, 99, 101, 1000, 8, 12, 0]
    if rng.random() < 0.7:
        base = [9, 10, 11, 100]
        rng.shuffle(pool)
        idx = (base + [p for p in pool if p not in base])[:n] if n >= 2 else [rng.choice(base)]
        idx += rng.sample(range(102, 999), n - len(idx))
    elif rng.random() < 0.75:
        idx = rng.sample(range(0, 1200), n)
    else:  # five and more digits (beyond \d{1,4}, int32, the exact range of float64), large gaps
        big = [10000, 9999, 99999, 100000, 12345, 123456, 2147483647, 2147483648, 4294967296, 9007199254740993,
               9007199254740992, 18446744073709551616, 99999999999999999999, 100000000000000000000, 7, 10, 0]
        idx = rng.sample(big, min(n, len(big)))
        idx += rng.sample(range(20000, 90000), n - len(idx))
        if n >= 2 and rng.random() < 0.6:  # neighbours that a float64 / int64 key cannot tell apart
            x = rng.choice([2 ** 53, 2 ** 63 - 1, 2 ** 64, 10 ** 17, 10 ** 20, 2 ** 53 + 2])
            if x not in idx[2:] and x + 1 not in idx[2:]:
                idx[0], idx[1] = x + 1, x
    return idx


def case_mix(rng, s: str) -> str:
    k = rng.random()
    if k < 0.75:
        return s
    if k < 0.85:
        return s.upper()
    return "".join(c.upper() if rng.random() < 0.5 else c for c in s)


def stamp(date: str, sec: int) -> str:
    return f"{date}-{sec // 3600:02d}h{sec // 60 % 60:02d}m{sec % 60:02d}s"


def tofwerk_stamps(rng, n, tz):
    """distinct stamps; with a matching transition: some inside the gap/overlap and in the hour after it"""
    out = []

    def add(s):
        if s not in out:
            out.append(s)

    trans = [t for t in TRANSITIONS + MORE_TRANSITIONS if t[0] == tz]
    if (trans and rng.random() < 0.85) or (not trans and rng.random() < 0.3):
        zone, date, kind, start, length = rng.choice(trans or TRANSITIONS + MORE_TRANSITIONS)
        a = start * 60 + rng.randrange(1, length * 60)
        add(stamp(date, a))
        if n >= 2:  # later on the wall clock, but earlier than a + shift
            add(stamp(date, rng.randrange(max(a + 1, (start + length) * 60), a + length * 60)))
        while len(out) < n:
            add(stamp(date, rng.randrange(max(0, (start - 90) * 60), (start + length + 90) * 60)))
        return out, ["dst-" + kind]
    if n >= 2 and rng.random() < 0.3:
        # year / month / leap-day ends, 2100 (no leap year), the end of 32-bit time, before the epoch
        for s in rng.choice([[("2020.12.31", 86399), ("2021.01.01", 0)], [("2020.02.29", 43200), ("2020.03.01", 1)],
                             [("2021.09.30", 86399), ("2021.10.01", 0)], [("2021.12.31", 86375), ("2022.01.01", 40)],
                             [("2024.02.28", 86399), ("2024.02.29", 0)], [("2100.02.28", 86399), ("2100.03.01", 0)],
                             [("2038.01.19", 11647), ("2038.01.19", 11648)], [("1969.12.31", 86399), ("1970.01.01", 0)],
                             [("2021.01.31", 3600), ("2021.02.01", 60)], [("1999.12.31", 86399), ("2000.01.01", 0)]]):
            add(stamp(*s))
        f_year = ["date-rollover"]
    else:
        f_year = []
    style = rng.random()
    while len(out) < n:
        if style < 0.5:  # one day, seconds to hours apart
            add(stamp("2021.01.01", rng.randrange(86400)))
        else:  # across days, months, years
            y, m, dd = rng.choice([2019, 2020, 2021, 2024]), rng.randint(1, 12), rng.randint(1, 28)
            add(stamp(f"{y:04d}.{m:02d}.{dd:02d}", rng.randrange(86400)))
    return out, ["plain-stamps"] + f_year


def pad_style(rng, feats):
    """index -> digits: plain, one zero-padded width for the directory, or a width chosen per file ("009" next to "10")"""
    k = rng.random()
    if k < 0.55:
        return str
    if k < 0.75:
        feats.append("zero-padded")
        return lambda i: f"{i:04d}"
    feats.append("mixed-padding")
    return lambda i: "0" * rng.choice([0, 0, 1, 2, 3]) + str(i)


SAMPLES = ["test_icap", "s", "sample1", "x2y", "", "run_ldr", "A_B", "s0", "r7_3", "s1", "s2", "S10", "b", "_", "9", "a_ldr_1"]


def ldr_samples(rng, n, feats):
    """the sample name of each of the n files: one sample, or (n >= 2) the lines of two samples in one directory"""
    if n >= 2 and rng.random() < 0.3:
        a, b = rng.sample(SAMPLES, 2)
        while a.lower() == b.lower():
            a, b = rng.sample(SAMPLES, 2)
        feats.append("two-samples")
        own = [a, b] + [rng.choice([a, b]) for _ in range(n - 2)]
        rng.shuffle(own)
    else:
        own = [rng.choice(SAMPLES)] * n
    if any(ch.isdigit() for s in own for ch in s):
        feats.append("prefix-digits")
    if rng.random() < 0.15 and any(s.lower() != s.upper() for s in own):  # one sample written in several letter cases
        own = [case_mix(rng, s) if rng.random() < 0.6 else s for s in own]
        feats.append("sample-case-mix")
    return own


_VENDOR_LIKE = re.compile(r"line_\d+\.csv|\w*_ldr_\d+\.csv|\w+?([0-9.]+-\d\dh\d\dm\d\ds).*\.csv", re.IGNORECASE)


def line_names(rng, vendor, n, tz):
    feats = []
    if vendor in ("nu", "ldr"):
        idx = indices(rng, n)
        fmt = pad_style(rng, feats)
        digits = [fmt(i) for i in idx]
        if sorted(range(n), key=lambda k: idx[k]) != sorted(range(n), key=lambda k: digits[k]):
            feats.append("lex!=num")
        if any(i >= 10000 for i in idx):
            feats.append("index>=5digits")
        if vendor == "nu":
            names = [case_mix(rng, "line_") + d + case_mix(rng, ".csv") for d in digits]
        else:
            own = ldr_samples(rng, n, feats)
            if "two-samples" in feats and rng.random() < 0.5:  # the same indices in both samples
                by = {}
                for k, s in enumerate(own):
                    by.setdefault(s.lower(), []).append(k)
                pool = indices(rng, n)
                for ks in by.values():
                    for k, i in zip(ks, pool):
                        idx[k], digits[k] = i, fmt(i)
            names = [s + case_mix(rng, "_ldr_") + d + case_mix(rng, ".csv") for s, d in zip(own, digits)]
            if len({nm.lower() for nm in names}) < n:  # never two files that differ in letter case only
                names = [s + "_ldr_" + d + ".csv" for s, d in zip(own, digits)]
        return names, idx, feats
    if vendor == "tofwerk":
        stamps, f = tofwerk_stamps(rng, n, tz)
        k = rng.random()
        if k < 0.03:  # month / day written with one digit: still a stamp time.strptime reads
            def short(st):
                y, m, rest = st.split(".", 2)
                d, t = rest.split("-", 1)
                return f"{y}.{int(m) if rng.random() < 0.7 else m}.{int(d) if rng.random() < 0.7 else d}-{t}"
            short_stamps = [short(st) for st in stamps]
            if len(set(short_stamps)) == n and short_stamps != stamps:
                stamps, f = short_stamps, f + ["short-date-fields"]
        elif k < 0.05:  # a stamp time.strptime rejects (the import raises), or a leap second (accepted, outside the property)
            bad = rng.choice(["2021.02.30-10h10m10s", "2021.13.01-10h10m10s", "2021.00.10-10h10m10s", "2021.04.31-00h00m00s",
                              "2021.01.01-24h00m00s", "2021.01.01-10h60m00s", "2021.01.01-10h10m62s", "021.01.01-10h10m10s",
                              "2021.01-10h10m10s", "2021.001.01-10h10m10s", "2021.01.01.-10h10m10s", "0000.01.01-10h10m10s",
                              "2021.06.30-23h59m60s", "2021.06.30-23h59m61s"])
            if bad not in stamps:
                stamps = list(stamps)
                stamps[rng.randrange(n)] = bad
                f = f + ["leap-second-stamp" if bad.endswith(("60s", "61s")) and "h59m" in bad else "invalid-stamp"]
        prefix = rng.choice(["IMG", "run1", "a", "IMG_x", "T0F"])
        suffix = rng.choice(["_AS", "", "_x.y", "_AS.csv"])
        return [f"{prefix}_{s}{suffix}" + case_mix(rng, ".csv") for s in stamps], stamps, f
    # generic: plain name order (code points): digits < upper < lower, "10" < "9"
    pool = ["1.csv", "2.csv", "10.csv", "9.csv", "11.csv", "100.csv", "a.csv", "B.csv", "b.csv", "Z.csv", "_x.csv",
            "scan 1.csv", "scan 10.csv", "scan 2.csv", "data.CSV", "data.csv.bak", "ab.csv", "a.b.csv", "A.csv", "0.csv"]
    if rng.random() < 0.5:
        names = rng.sample(pool, n)
    else:
        # one stem and continuations of it: the order of the NAMES ("scan-2.csv" < "scan.csv": '-' < '.') is not the order
        # of the stems ("scan" < "scan-2"), nor of the lower-cased names, nor of the names without their extension
        st = rng.choice(["scan", "img1", "1", "a", "Line", "x_y", "run 3", "d.e"])
        conts = ["", "-2", " (2)", ".5", "_1", "0", "1", "-10", "+", ",b", "A", "a", "~", "!", "#1", ".csv", "..", " ", "-", "$", "&c", "(", "=", "@2", "[1]", "^", "{", "\u00e9"[:0] + "z"]
        exts = [".csv"] * 4 + [".CSV", ".Csv", ".csv.bak", ".csv.CSV"]
        names = []
        for c in rng.sample(conts, min(n, len(conts))):
            names.append(st + c + rng.choice(exts))
        while len(names) < n:
            nm = rng.choice(pool)
            if nm not in names:
                names.append(nm)
        if len({nm.lower() for nm in names}) < n or any(_VENDOR_LIKE.match(nm) for nm in names):
            names = rng.sample(pool, n)  # (a generic directory with a name a vendor pattern accepts is that vendor's for auto-detection)
        else:
            feats.append("generic-continuations")
    if sorted(names) != sorted(names, key=lambda s: (len(s), s)):
        feats.append("lex!=num")
    if sorted(names) != sorted(names, key=lambda s: s.rsplit(".", 1)[0]):
        feats.append("name-order!=stem-order")
    if sorted(names) != sorted(names, key=lambda s: (s.lower(), s)):
        feats.append("name-order!=caseless-order")
    return names, names, feats


# distractor names per vendor; each list holds only names the vendor's pattern does not accept
DISTRACT = {
    "nu": ["notes.txt", "line_x.csv", "xline_1.csv", "line_.csv", "line_12.txt", "line_3csv", "dummy.csv", "line-4.csv",
           " line_5.csv", "line_6 .csv", "s_ldr_1.csv", "IMG_2021.01.01-10h10m10s_AS.csv", "1.csv"],
    "ldr": ["notes.txt", "s_ldr_x.csv", "s-ldr_1.csv", "s_ldr_.csv", "s ldr_2.csv", "s_ldr_3.txt", "dummy.csv", "a b_ldr_1.csv",
            "s_ldr1.csv", "ldr_4.csv", "IMG_2021.01.01-10h10m10s_AS.csv", "1.csv"],
    "tofwerk": ["notes.txt", "dummy.csv", "-2021.01.01-10h10m10s.csv", "IMG_2021.01.01-10h10m.csv", "IMG_2021.01.01-1h10m10s.csv",
                "IMG_2021.01.01_10h10m10s.csv", "IMG_-10h10m10s.csv", "IMG_2021.01.01-10h10m10s.txt", "a b_2021.01.01-10h10m10s.csv",
                "1.csv"],
    "generic": ["notes.txt", "data.cs", "csv", "a.cvs", "readme", "x.tsv", "b.c.sv"],
}
HIDDEN = {
    "nu": [".line_3.csv", ".hidden", ".line_1.csv.swp"],
    "ldr": [".s_ldr_3.csv", ".hidden", ".DS_Store"],
    "tofwerk": [".IMG_2021.01.01-10h10m10s_AS.csv", ".hidden"],
    "generic": [".hidden.csv", ".0.csv", ".DS_Store"],
}
GARBAGE = ["dummy\n", "", "this,is,not\na,line\n", "\x00\x01\x02", "A,B\nx,y\n1,2\n"]


def distractors(rng, vendor, auto, taken):
    out, feats = [], []
    k = rng.choice([0, 0, 1, 2, 3, 5])
    for name in rng.sample(DISTRACT[vendor], min(k, len(DISTRACT[vendor]))):
        if name in taken:
            continue
        # some of these match a LATER vendor's pattern only: auto-detection must still pick this vendor
        out.append({"name": name, "type": "file", "role": "distractor", "raw": rng.choice(GARBAGE)})
        feats.append("distractor")
    if rng.random() < 0.35:
        name = rng.choice(HIDDEN[vendor])
        out.append({"name": name, "type": "file", "role": "distractor", "raw": rng.choice(GARBAGE)})
        feats.append("hidden")
    if rng.random() < 0.25:  # a directory whose name matches the pattern
        name = {"nu": "line_5000.csv", "ldr": "dir_ldr_5000.csv", "tofwerk": "DIR_2021.06.01-10h10m10s.csv", "generic": "zz.csv"}[vendor]
        if name not in taken:
            out.append({"name": name, "type": "dir", "role": "distractor"})
            feats.append("dir-entry")
    return out, feats


# ----------------------------------------------------------------------------- tables
def make_tables(rng, vendor, n, elements=None, nancols=None, nanhelper=None):
    """n tables with a common header; rows of unequal length; vendor helper columns.
    Primer directories fix `elements`, the set `nancols` of element positions that are empty in every line and
    optionally one helper column `nanhelper` that is empty in every line."""
    if elements is None:
        k = rng.choice([1, 1, 2, 2, 3, 4])
        elements = rng.sample(ELEMENTS, k)
    else:
        k = len(elements)
    feats = [f"k{k}" if k <= 2 else "k>=3"]
    helpers = {"nu": ["Cycle_time_(ms)", "x_[um]", "y_[um]"], "ldr": ["Time"], "tofwerk": ["t_elapsed_Buf"], "generic": []}[vendor]
    hk = rng.random()
    if vendor == "nu" and hk < 0.12:
        helpers = ["Cycle_time_(ms)"]
        feats.append("partial-helpers")
    elif helpers and hk < 0.2:
        helpers = []
        feats.append("no-helpers")
    equal = rng.random() < 0.3
    base = rng.choice([2, 2, 3, 5, 8, 12])
    lengths = [base if equal else rng.randint(2, base + 4) for _ in range(n)]
    if len(set(lengths)) > 1:
        feats.append("unequal-lengths")
    step = rng.choice([0.1, 0.2, 0.25, 1.0049, 0.5, 10.0, 10.5, 0.00025, 0.01005, 2.0])
    dx, dy = rng.choice([5.0, 10.0, -5.0, 2.5, 0.125]), rng.choice([10.0, 5.0, -20.0, 0.35])
    raw_helper = {"Cycle_time_(ms)": "Cycle time (ms)", "x_[um]": "x [um]", "y_[um]": "y [um]"}
    # all-NaN sample position / element column (LDR drops them; elsewhere they stay)
    nanpos = rng.randrange(min(lengths)) if rng.random() < 0.2 else None
    nancol = rng.randrange(k) if (k >= 2 and rng.random() < 0.15) else None
    # a position that is NaN in every field of ONE line only must stay (n >= 2)
    nanone = (rng.randrange(n), rng.randrange(min(lengths))) if (n >= 2 and rng.random() < 0.2) else None
    if nanone is not None:
        feats.append("nan-position-in-one-line")
    if nanpos is not None:
        feats.append("all-nan-position")
    nanset = {nancol} if nancol is not None else set()
    if nancols is not None:
        nanset = set(nancols)
    if nanset:
        feats.append("all-nan-element")
    tables = []
    for li in range(n):
        L = lengths[li]
        cols, header, names = [], [], []
        hcols = {}
        if "Cycle_time_(ms)" in helpers:
            hcols["Cycle_time_(ms)"] = helper_column(rng, L, 2000.0 + 1000 * li, step)
        if "x_[um]" in helpers:
            hcols["x_[um]"] = helper_column(rng, L, 0.0, dx)
            hcols["y_[um]"] = helper_column(rng, L, li * dy, 0.0)
        if "Time" in helpers:
            hcols["Time"] = helper_column(rng, L, 0.2, step)
        if "t_elapsed_Buf" in helpers:
            hcols["t_elapsed_Buf"] = helper_column(rng, L, 0.1 + li * L * step, step)
        ecols = [[data_token(rng) for _ in range(L)] for _ in range(k)]
        for c in sorted(nanset):
            ecols[c] = [rng.choice(["", "nan"]) for _ in range(L)]
        if nanhelper in hcols:
            hcols[nanhelper] = [rng.choice(["", "nan"]) for _ in range(L)]
        if vendor == "tofwerk":  # helper column last, element names quoted
            for e, c in zip(elements, ecols):
                header.append(f"'{e}'"), names.append(e), cols.append(c)
            for h in helpers:
                header.append(h), names.append(h), cols.append(hcols[h])
        else:
            for h in helpers:
                header.append(raw_helper.get(h, h)), names.append(h), cols.append(hcols[h])
            for e, c in zip(elements, ecols):
                header.append(e), names.append(e), cols.append(c)
        rows = [[c[j] for c in cols] for j in range(L)]
        if len(cols) == 1:  # an empty line would be skipped by genfromtxt
            rows = [[t or "nan" for t in r] for r in rows]
        if nanpos is not None:
            rows[nanpos] = ["nan" if (rng.random() < 0.5 or len(cols) == 1) else "" for _ in cols]
        if nanone is not None and nanone[0] == li:
            rows[nanone[1]] = ["nan" if (rng.random() < 0.5 or len(cols) == 1) else "" for _ in cols]
        if vendor == "ldr":  # the dwell-time row and the empty trailing column of the Qtegra layout
            rows.insert(0, [""] + [f"dwell time=0.{rng.randint(1, 9)};xcal factor={rng.randint(1, 99999)}.5" for _ in cols[1:]])
            header.append(""), names.append("f0")
            rows = [r + [""] for r in rows]
        tables.append({"header": header, "names": names, "rows": rows})
    return tables, feats


def make_primer(rng, case, same=False):
    """a directory of the layout of `case` to be imported before it: regularly with element columns that are empty in
    every line, with a different (overlapping) element set / order, other helper columns, another line count"""
    vendor = case["vendor"]
    real = [e for e in case["entries"] if e["role"] == "line"]
    if same:  # the real directory itself, listed (shuffle seed) and completed (pi) in another order
        pi = list(range(len(real)))
        rng.shuffle(pi)
        return {"same": True, "shuffle": rng.randrange(1 << 30), "pi": pi}, ["primer-same-dir"]
    helpers = {"Cycle_time_(ms)", "x_[um]", "y_[um]", "Time", "t_elapsed_Buf", "f0"}
    relem = [nm for nm in (real[0]["names"] if real else []) if nm not in helpers]
    feats = []
    k = rng.random()
    if k < 0.4 or not relem:
        elements = list(relem) or rng.sample(ELEMENTS, 2)
    elif k < 0.8:  # overlapping set: some dropped, some added, order changed
        elements = [e for e in relem if rng.random() < 0.7] or [rng.choice(relem)]
        extra = [e for e in ELEMENTS if e not in relem]
        elements += rng.sample(extra, rng.choice([0, 1, 2]))
        rng.shuffle(elements)
    else:
        elements = rng.sample(ELEMENTS, rng.choice([1, 2, 3, 4]))
    if sorted(elements) != sorted(relem):
        feats.append("primer-other-elements")
    nancols = []
    if rng.random() < 0.6:
        nancols = rng.sample(range(len(elements)), rng.randint(1, len(elements)))
        feats.append("primer-all-nan-element")
        if any(elements[c] in relem for c in nancols):
            feats.append("primer-all-nan-element-of-real")
    nanhelper = None
    if rng.random() < 0.15:
        nanhelper = rng.choice({"nu": ["Cycle_time_(ms)", "x_[um]", "y_[um]"], "ldr": ["Time"], "tofwerk": ["t_elapsed_Buf"],
                                "generic": [None]}[vendor])
        if nanhelper:
            feats.append("primer-all-nan-helper")
    n = rng.choice([1, 1, 2, 3, 4])
    if n != len(real):
        feats.append("primer-other-line-count")
    names, _, _ = line_names(rng, vendor, n, case["tz"])
    tables, _ = make_tables(rng, vendor, n, elements=elements, nancols=nancols, nanhelper=nanhelper)
    entries = [{"name": nm, "type": "file", "role": "line", "eol": "\n", **t} for nm, t in zip(names, tables)]
    if rng.random() < 0.3:
        ds, _ = distractors(rng, vendor, False, set(names))
        entries += ds
    rng.shuffle(entries)
    pi = list(range(n))
    rng.shuffle(pi)
    return {"entries": entries, "pi": pi}, feats


def add_history(rng, case):
    """imports that precede the real one on the same option object: one primer, the real directory itself, or two"""
    k = rng.random()
    if k < 0.15:
        plan = [True]
    elif k < 0.7:
        plan = [False]
    elif k < 0.85:
        plan = [False, False]
    else:
        plan = [False, True] if rng.random() < 0.5 else [True, False]
    primers, feats = [], []
    for same in plan:
        p, f = make_primer(rng, case, same)
        primers.append(p)
        feats += f
    if len(primers) == 2:
        feats.append("two-primers")
    case["primers"] = primers
    case["gen_features"] = sorted(set(case["gen_features"] + feats))
    return case


HISTORY_RATE = 0.4  # of the cases with an explicit option object


def generate(rng, tier):
    vendor = rng.choice(VENDORS + ["tofwerk"])
    n = rng.choice([1, 2, 2, 3, 4, 4, 5, 6, 8])
    if rng.random() < 0.03:
        n = rng.choice([12, 16])
    tz = rng.choice(ZONES + (["Europe/Berlin", "America/New_York", "Australia/Lord_Howe"] if vendor == "tofwerk" else []))
    if rng.random() < 0.25:
        tz = rng.choice(MORE_ZONES)
    auto = rng.random() < 0.4
    names, _, f1 = line_names(rng, vendor, n, tz)
    tables, f2 = make_tables(rng, vendor, n)
    entries = []
    for i, (nm, t) in enumerate(zip(names, tables)):
        entries.append({"name": nm, "type": "file", "role": "line", "eol": rng.choice(["\n", "\n", "\r\n"]), **t})
    ds, f3 = distractors(rng, vendor, auto, set(names))
    entries += ds
    rng.shuffle(entries)  # listing order
    pi = list(range(n))
    rng.shuffle(pi)
    case = {"kind": "load", "vendor": vendor, "auto": auto, "tz": tz, "pi": pi, "entries": entries,
            "gen_features": sorted(set(f1 + f2 + f3))}
    if n >= 12:
        case["gen_features"].append("n>=12")
    k = rng.random()
    if k < 0.12:
        case["path_as"] = rng.choice(["str", "str/"])
    if rng.random() < 0.12:
        case["dirname"] = rng.choice(["run 1", "scan.csv", ".hidden", "line_5.csv", "s_ldr_7.csv", "IMG_2021.01.01-10h10m10s.csv",
                                      "2021.03.28", "a.b", "UPPER", "x" * 40])
    # drawn after everything else: the single-call case is the one the generator gave before histories existed
    if not auto and rng.random() < HISTORY_RATE:
        add_history(rng, case)
    return case


# ----------------------------------------------------------------------------- histories, every import judged
# {"kind": "history", "tz": zone, "steps": [step, ...]}; a step is one call of pewlib.io.csv.load:
#   "slot":  "lines" | "b"      the directory PATH the call imports (two paths; "lines" is the path every case of the worker uses)
#   "dir":   {"vendor", "entries"}  optional: the directory at that path is emptied and written anew before the call
#                                   (absent: the directory is left as the previous step left it)
#   "mtime": "natural" | "kept"   kept: the modification times of the directory and of every file in it are set to one fixed
#                                   instant after writing (a result remembered per (path, mtime) looks still valid)
#   "call":  "auto"               load(path, full=True)                      - option_for_path / module-level defaults
#            "detected"           load(path, option=option_for_path(path), full=True)
#            "shared"             load(path, option=o, full=True), o the history's one instance of the vendor's option class
#            "fresh"              load(path, option=<new instance>, full=True)
#            "auto-nofull"        load(path)   - not an observation point of the property: result ignored, never judged
#   "pi":    completion order of the reader tasks
#   "edits": what the caller does with the objects the call returned before the next call:
#            "image" (every field of the returned array overwritten in place), "params" (the returned dict emptied and
#            refilled), "own-option" (attributes of the caller's own option instance of this call changed; the instance is
#            never passed again), "library-option" (attributes of the object option_for_path(path) returns changed)
# Every call except "auto-nofull" is judged against the Lean specification of the directory as it is on disk at that call.
HELPERS = {"nu": ["Cycle_time_(ms)", "x_[um]", "y_[um]"], "ldr": ["Time"], "tofwerk": ["t_elapsed_Buf"], "generic": []}
_BAD_STAMP = {"invalid-stamp", "leap-second-stamp", "short-date-fields"}


def make_dir(rng, vendor, tz, n=None, names=None, elements=None, nancols=None, with_distractors=True):
    """one directory of the layout (in-domain stamps only): ({"vendor", "entries"}, features)"""
    n = len(names) if names is not None else (n or rng.choice([1, 2, 2, 3, 4]))
    feats = []
    if names is None:
        names, _, feats = line_names(rng, vendor, n, tz)
        while _BAD_STAMP & set(feats):
            names, _, feats = line_names(rng, vendor, n, tz)
    if vendor == "ldr" and elements is not None and nancols and len(set(nancols)) >= len(elements):
        # LDR drops columns that are empty everywhere: at least one element keeps its data (an image without any element
        # is outside the property)
        if len(elements) == 1:
            elements = list(elements) + [next(e for e in ELEMENTS if e not in elements)]
        nancols = sorted(set(nancols))[:len(elements) - 1]
    tables, f2 = make_tables(rng, vendor, n, elements=elements, nancols=nancols)
    entries = [{"name": nm, "type": "file", "role": "line", "eol": "\n", **t} for nm, t in zip(names, tables)]
    if with_distractors and rng.random() < 0.4:
        ds, f3 = distractors(rng, vendor, True, set(names))
        entries += ds
        feats = feats + f3
    rng.shuffle(entries)
    return {"vendor": vendor, "entries": entries}, feats + f2


def dir_elements(d):
    lines = [e for e in d["entries"] if e["role"] == "line"]
    hs = set(HELPERS[d["vendor"]]) | {"f0"}
    return [nm for nm in (lines[0]["names"] if lines else []) if nm not in hs]


def derive_dir(rng, prev, tz):
    """the directory written over `prev` (same path): same names / other header, same names / other values, other line
    count, or another vendor's layout"""
    vendor = prev["vendor"]
    pnames = [e["name"] for e in prev["entries"] if e["role"] == "line"]
    pel = dir_elements(prev)
    k = rng.random()

    def overlapping():
        el = [e for e in pel if rng.random() < 0.7] or pel[:1]
        el = el + rng.sample([e for e in ELEMENTS if e not in pel], rng.choice([0, 1, 2]))
        rng.shuffle(el)
        return el or rng.sample(ELEMENTS, 2)

    def nan_some(el):
        return rng.sample(range(len(el)), rng.randint(1, len(el))) if rng.random() < 0.35 else []

    if k < 0.3 and pnames:  # the same file names, another header (elements dropped / added / reordered)
        el = overlapping()
        if sorted(el) == sorted(pel) and len(el) > 1:
            el = el[1:] + el[:1]
        d, f = make_dir(rng, vendor, tz, names=list(pnames), elements=el, nancols=nan_some(el))
        return d, f, ["hist:same-names-other-header"]
    if k < 0.45 and pnames:  # the same file names and header, other values and line lengths
        d, f = make_dir(rng, vendor, tz, names=list(pnames), elements=list(pel) or None, nancols=[])
        return d, f, ["hist:same-names-other-values"]
    if k < 0.65:  # the same layout, other files (line count, names), overlapping elements
        n = rng.choice([x for x in (1, 2, 3, 4, 5) if x != len(pnames)])
        el = overlapping() if pel else None
        d, f = make_dir(rng, vendor, tz, n=n, elements=el, nancols=nan_some(el) if el else None)
        return d, f, ["hist:other-line-count"]
    v2 = rng.choice([v for v in VENDORS if v != vendor])
    el = overlapping() if (pel and rng.random() < 0.5) else None
    d, f = make_dir(rng, v2, tz, elements=el, nancols=nan_some(el) if el else None)
    return d, f, ["hist:other-vendor"]


def gen_history(rng, tier):
    tz = rng.choice(ZONES)
    nsteps = rng.choice([2, 2, 3, 3, 4])
    theme = rng.choice(["auto", "auto", "mixed", "mixed", "explicit"])
    content, steps, feats = {}, [], set()
    first_vendor = rng.choice(VENDORS + ["ldr"])
    for i in range(nsteps):
        slot = "lines" if (i == 0 or rng.random() < 0.75) else "b"
        step = {"slot": slot}
        prev = content.get(slot)
        if prev is not None and rng.random() < 0.2:
            feats.add("hist:unchanged-reimport")
        else:
            if prev is not None:
                d, f, hf = derive_dir(rng, prev, tz)
                hf = [h.replace("hist:", "hist:same-path:") for h in hf]
            elif content:  # a second path: related to what was imported from the first one
                d, f, hf = derive_dir(rng, rng.choice(list(content.values())), tz)
                hf = [h.replace("hist:", "hist:other-path:") for h in hf]
            else:
                nan = None
                d, f = make_dir(rng, first_vendor, tz)
                el = dir_elements(d)
                if rng.random() < 0.4 and el:  # an element column empty in every line of the FIRST directory
                    d, f = make_dir(rng, first_vendor, tz, elements=el, nancols=rng.sample(range(len(el)), rng.randint(1, len(el))))
                hf = []
            step["dir"] = d
            step["mtime"] = "kept" if rng.random() < 0.5 else "natural"
            content[slot] = d
            feats.update(hf)
            feats.update(x for x in f if x in ("all-nan-element", "index>=5digits", "generic-continuations"))
            if step["mtime"] == "kept" and prev is not None:
                feats.add("hist:rewritten-mtime-kept")
        cur = content[slot]
        n = sum(e["role"] == "line" for e in cur["entries"])
        k = rng.random()
        if theme == "auto":
            call = "auto" if k < 0.8 else "detected" if k < 0.93 else "auto-nofull"
        elif theme == "explicit":
            call = "shared" if k < 0.7 else "fresh"
        else:
            call = rng.choice(["auto", "auto", "detected", "shared", "shared", "fresh", "auto-nofull"])
        if call == "auto-nofull" and i == nsteps - 1:
            call = "auto"
        step["call"] = call
        pi = list(range(n))
        rng.shuffle(pi)
        step["pi"] = pi
        edits = []
        if i < nsteps - 1 and call != "auto-nofull":
            if rng.random() < 0.3:
                edits.append("image")
            if rng.random() < 0.25:
                edits.append("params")
            if rng.random() < 0.3:
                edits.append("own-option" if call in ("shared", "fresh") else "library-option")
        step["edits"] = edits
        steps.append(step)
    return {"kind": "history", "tz": tz, "steps": steps, "gen_features": sorted(feats)}


def targeted_histories():
    """deterministic histories: every class of state that could be left between two calls, for every layout"""
    import random

    def step(slot, d, call, mtime="kept", edits=(), seed=0):
        n = sum(e["role"] == "line" for e in d["entries"]) if d else 0
        st = {"slot": slot, "call": call, "pi": list(reversed(range(n))), "edits": list(edits)}
        if d is not None:
            st["dir"], st["mtime"] = d, mtime
        return st

    def hist(steps, feats):
        for st, prev in zip(steps, [None] + steps):  # "pi" of a step without "dir": the directory of the step before
            if "dir" not in st and prev is not None:
                st["pi"] = list(prev["pi"])
        return {"kind": "history", "tz": "UTC", "steps": steps, "gen_features": sorted(feats)}

    for v1 in VENDORS:
        rng = random.Random(f"C04-th-{v1}")
        d1, _ = make_dir(rng, v1, "UTC", n=3)
        el = dir_elements(d1)
        names = [e["name"] for e in d1["entries"] if e["role"] == "line"]
        # the same path rewritten in every other layout, module-level defaults only (no option passed)
        for v2 in VENDORS:
            if v2 != v1:
                d2, _ = make_dir(rng, v2, "UTC", n=2, elements=el[:1] + ["Zn66"])
                for mt in ("kept", "natural"):
                    yield hist([step("lines", d1, "auto", mt), step("lines", d2, "auto", mt)],
                               ["hist:same-path:other-vendor", "targeted-history"])
        # the same file names: another header; the same header with other values and lengths; one line more
        el2 = (el[1:] + ["Ca44"]) if len(el) > 1 else ["Ca44"] + el
        d3, _ = make_dir(rng, v1, "UTC", names=list(names), elements=el2, nancols=[])
        d4, _ = make_dir(rng, v1, "UTC", names=list(names), elements=list(el), nancols=[])
        d5, _ = make_dir(rng, v1, "UTC", n=4, elements=list(el), nancols=[])
        for call in ("auto", "shared", "detected"):
            yield hist([step("lines", d1, call), step("lines", d3, call), step("lines", d4, call), step("lines", d5, call)],
                       ["hist:same-path:same-names-other-header", "hist:same-path:same-names-other-values",
                        "hist:same-path:other-line-count", "targeted-history"])
        # the directory left as it is, the caller edits what the first call returned
        yield hist([step("lines", d1, "auto", edits=["image", "params"]), step("lines", None, "auto"),
                    step("lines", None, "shared", edits=["image", "params"]), step("lines", None, "shared")],
                   ["hist:unchanged-reimport", "targeted-history"])
        # the caller edits its own option instance, later calls use other instances / none
        yield hist([step("lines", d1, "fresh", edits=["own-option"]), step("lines", None, "fresh"), step("b", d3, "auto"),
                    step("b", None, "shared", edits=["own-option"]), step("lines", None, "shared")],
                   ["targeted-history"])
        # the caller edits the object option_for_path returned (recorded only when a later call sees it)
        yield hist([step("lines", d1, "detected", edits=["library-option"]), step("lines", None, "auto"), step("b", d3, "detected")],
                   ["targeted-history"])
        # an element column empty in every line, then the same element with data (and the other way round)
        if el:
            el6 = list(el) if len(el) >= 2 else list(el) + [next(e for e in ELEMENTS if e not in el)]
            d6, _ = make_dir(rng, v1, "UTC", n=2, elements=el6, nancols=list(range(len(el6) - 1)))
            d7, _ = make_dir(rng, v1, "UTC", n=2, elements=el6, nancols=[])
            for call in ("auto", "shared", "detected", "fresh"):
                yield hist([step("lines", d6, call), step("b", d7, call), step("lines", None, call)],
                           ["hist:nan-element-then-data", "targeted-history"])
