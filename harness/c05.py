"""C05 — imzML mass-window extraction: pewlib.io.imzml.ImzML.extract_masses / extract_tic / mass_range /
binned_masses on synthetic imzML/ibd pairs against PewModel/Imzml.lean (mechanism: searchsorted ->
sentinel -> reduceat -> [::2] -> zeroing; specification: windowSum per pixel)."""
import json
import math
import sys
from fractions import Fraction

import numpy as np

from harness import core, gen_imzml
from harness.core import Prop, outcome

KNOWN_BINS = "C05-binned-masses-empty-bins"
F = Fraction


def fr(v):
    """float -> canonical exact string; NaN -> None"""
    v = float(v)
    if math.isnan(v):
        return None
    if math.isinf(v):
        return "inf" if v > 0 else "-inf"
    return str(F(v))


def qs(j):
    q = core.unrat(j)
    return None if q is None else str(q)


def f32_bracket(e):
    """exact rational e -> (largest float32 < e, smallest float32 > e) as Fractions; None when e is itself a
    float32 value (or out of the float32 range)"""
    with np.errstate(over="ignore"):
        c = np.float32(float(e))
    if not np.isfinite(c):
        return None
    fc = F(float(c))
    if fc == e:
        return None
    if fc < e:
        lo, hi = c, np.nextafter(c, np.float32(np.inf))
    else:
        lo, hi = np.nextafter(c, np.float32(-np.inf)), c
    if not (np.isfinite(lo) and np.isfinite(hi)):
        return None
    return F(float(lo)), F(float(hi))


def canon_pixels(arr):
    """(Y, X, N) or (Y, X) array -> rows of pixels; an all-NaN pixel is None"""
    arr = np.asarray(arr)
    rows = []
    for r in range(arr.shape[0]):
        row = []
        for c in range(arr.shape[1]):
            px = arr[r, c]
            if px.ndim == 0:
                row.append(fr(px))
            else:
                vals = [fr(v) for v in px]
                row.append(None if len(vals) > 0 and all(v is None for v in vals) else vals)
        rows.append(row)
    return rows


def drv_table(tab, vec):
    return [[None if px is None else ([qs(v) for v in px] if vec else qs(px)) for px in row] for row in tab]


def call(f):
    try:
        return f()
    except Exception as e:  # the quantified inputs never raise
        return {"raises": type(e).__name__, "msg": str(e)[:160]}


def tables_close(a, b, tol_of):
    """same shape, same NaN pattern, values within tol_of(r, c) (0 -> exact)"""
    if isinstance(a, dict) or isinstance(b, dict):
        return False
    if len(a) != len(b):
        return False
    for r, (ra, rb) in enumerate(zip(a, b)):
        if len(ra) != len(rb):
            return False
        for c, (pa, pb) in enumerate(zip(ra, rb)):
            if (pa is None) != (pb is None):
                return False
            if pa is None:
                continue
            va, vb = (pa, pb) if isinstance(pa, list) else ([pa], [pb])
            if not isinstance(pb, list) and isinstance(pa, list):
                return False
            if len(va) != len(vb):
                return False
            tol = tol_of(r, c)
            for x, y in zip(va, vb):
                if x is None or y is None:
                    if x is not y:
                        return False
                elif x != y and abs(F(x) - F(y)) > tol:
                    return False
    return True


class C05(Prop):
    id = "C05"
    anchored = ["src/pewlib/io/imzml.py"]
    cases = {"quick": 1500, "thorough": 20000}
    rule = ("synthetic imzML/ibd pairs: images 1x1..4x4, random subsets of pixels (also none), per-pixel or shared m/z axes of "
            "1..8 strictly increasing dyadic values, f32/f64 arrays, TIC stored/absent, image size present/absent; 1..5 target "
            "masses with ppm or absolute widths whose edges are exactly representable, spectra drawn from a grid plus (absolute widths) "
            "the window edges themselves (peaks exactly on the lower/upper edge; with ppm widths a peak within 1e-9 of an edge is "
            "undetermined); windows empty / below / above / touching first or last "
            "peak / many peaks / overlapping / unsorted; a 'real' stream with non-dyadic values and a summation tolerance; "
            "a 32-bit-edge class (20% of the exact stream): decimal masses 100..1000 with absolute widths 0.05..3.3 or 10..5000 ppm, "
            "mostly f32 m/z, integer intensities, peaks on float32(e) and its float32 neighbours for the edges e = m -/+ w/2 that are "
            "not float32 values (peak just below/above the lower/upper edge, one float32 step >= 6e-8 relative away); "
            "bins with dyadic widths incl. spectra with a peak in every bin. non-trivial = at least one of the named window "
            "classes or a sparse/size-absent image; distinct by canonical case hash")
    trusted = ["np.searchsorted on a sorted array returns #{p | a[p] < v}; np.add.reduceat, np.append, np.frombuffer, np.arange as documented",
               "exact stream: m/z k/2^14 < 256 and integer intensities < 2^11 so float32/float64 sums and the float window edges "
               "of absolute widths are exact; 32-bit-edge class: m/z < 1024 stored as float32, integer intensities < 2^11, sums exact; "
               "ppm widths, the real stream and every absolute width whose float64 edges m -/+ w/2 are not exact: cases with a peak "
               "within 1e-9 relative of a window edge are undetermined; real stream: sums compared with tolerance 8*n*eps*total",
               "xml.etree.ElementTree parses the synthetic document as written; float(text) of the stored TIC"]
    assumptions = ["positions are 1-based and inside the stated image size; spectra are non-empty with strictly increasing m/z",
                   "mass_range is checked as a bound (low <= every m/z <= high); bin edges returned by binned_masses are accepted when they "
                   "step by the requested width and cover the recorded range, the per-bin sums are then checked against those edges"]

    # ------------------------------------------------------------------ generation
    def gen_tic(self, rng, total):
        k = rng.randint(0, 6)
        v = rng.choice([total, total + 0.5, 7.25, 0.0, 1536.0])
        if k == 0:
            return None
        if k == 1:
            return "%d" % int(v)
        if k == 2:
            return "%.6f" % v
        if k == 3:
            return "%.6e" % v
        if k == 4:
            return "%g" % (v + 0.25)
        return repr(float(v))

    def generate(self, rng, tier):
        real = rng.random() < 0.15
        if not real and rng.random() < 0.2:
            return self.generate_f32edge(rng)
        X, Y = rng.choice([(1, 1), (1, 1), (1, 2), (2, 1), (2, 2), (3, 2), (2, 3), (1, 4), (4, 1), (3, 3), (4, 4)])
        cells = [(x, y) for y in range(1, Y + 1) for x in range(1, X + 1)]
        mode = rng.random()
        if mode < 0.25:
            pos = list(cells)
        elif mode < 0.3:
            pos = []
        else:
            pos = [p for p in cells if rng.random() < 0.6] or [rng.choice(cells)]
        rng.shuffle(pos)
        size = [X, Y]
        if pos and rng.random() < 0.3:
            size = None
        mzdt, itdt = rng.choice(["f4", "f8"]), rng.choice(["f4", "f8"])
        # width and masses first, so that spectra can put peaks exactly on the edges
        if real:
            width = {"kind": rng.choice(["ppm", "mz"]), "value": 0.0}
            width["value"] = rng.choice([10.0, 25.0, 5000.0, 1e5]) if width["kind"] == "ppm" else rng.choice([0.1, 0.33, 1.7, 40.0])
            masses = [round(rng.uniform(95.0, 165.0), rng.choice([1, 3, 6])) for _ in range(rng.randint(1, 5))]
        else:
            if rng.random() < 0.5:
                width = {"kind": "ppm", "value": 1e6 / 2 ** rng.randint(2, 9)}
            else:
                width = {"kind": "mz", "value": rng.choice([0.0, 0.125, 0.25, 0.5, 1.0, 2.0, 8.0, 64.0, 128.0])}
            masses = [rng.randint(96 * 16, 160 * 16) / 16 for _ in range(rng.randint(1, 5))]
            if rng.random() < 0.25 and len(masses) > 1:
                masses[1] = masses[0] + rng.choice([0.0, 0.0625, 0.25])  # overlapping / identical windows
        edges = []
        for m in masses:
            h = F(m) * F(width["value"]) / 10 ** 6 / 2 if width["kind"] == "ppm" else F(width["value"]) / 2
            edges += [F(m) - h, F(m) + h]
        nshared = rng.random() < 0.25

        def axis():
            n = rng.choice([1, 1, 2, 2, 3, 4, 5, 6, 8])
            if real:
                vals = {float(np.float32(rng.uniform(95.0, 165.0))) for _ in range(n)}
            else:
                vals = set()
                while len(vals) < n:
                    r = rng.random()
                    if r < 0.45 and edges and width["kind"] == "mz":
                        e = rng.choice(edges)
                        if 0 < e < 256:
                            vals.add(float(e))
                            continue
                    if r < 0.6 and masses:
                        vals.add(float(rng.choice(masses)))
                        continue
                    vals.add(rng.randint(94 * 64, 162 * 64) / 64)
            return sorted(vals)

        shared_axis = axis()
        spectra = []
        for (x, y) in pos:
            mz = list(shared_axis) if nshared else axis()
            if real:
                it = [float(np.float32(rng.uniform(0.5, 5000.0))) for _ in mz]
            else:
                it = [float(rng.choice([0, 1, 2, 3, 5, 8, 100, 1000, 2047, rng.randint(0, 2047)])) for _ in mz]
            spectra.append({"x": x, "y": y, "mz": mz, "it": it, "tic": self.gen_tic(rng, sum(it))})
        # a dominant peak below every window (m/z < 30 < 96 - 128/2): the window sums stay small exact integers,
        # but any implementation that lets peaks OUTSIDE the window take part in float32 arithmetic
        # (running totals, subtraction of prefix sums) rounds them away.  The summed TIC / binning would be
        # inexact in float32 for such spectra, so the TIC is stored and binning is skipped.
        dominant = (not real) and itdt == "f4" and bool(spectra) and not nshared and rng.random() < 0.5
        if dominant:
            for sp in spectra:
                if rng.random() < 0.7:
                    big = float(2 ** rng.choice([25, 27, 30]))
                    sp["mz"] = [rng.randint(1 * 64, 29 * 64) / 64] + sp["mz"]
                    sp["it"] = [big] + sp["it"]
                    sp["tic"] = float(rng.choice([0.0, 7.25, 1536.0]))
        binw = None
        if spectra and not real and not dominant and rng.random() < 0.55:
            binw = rng.choice([0.25, 0.5, 1.0, 1.0, 2.0, 4.0, 16.0])
            if rng.random() < 0.6 and not nshared:
                self.densify(rng, spectra, binw)
        if rng.random() < 0.3:
            rng.shuffle(masses)
        return {"kind": "real" if real else "exact", "size": size, "mzdt": mzdt, "itdt": itdt, "shared": nshared,
                "ifirst": rng.random() < 0.3, "pad": rng.randint(0, 10 ** 6) if rng.random() < 0.5 else None,
                "spectra": spectra, "masses": masses, "scalar": len(masses) == 1 and rng.random() < 0.5,
                "width": width, "binw": binw, "style": rng.randint(0, gen_imzml.NSTYLES - 1)}

    def generate_f32edge(self, rng):
        """exact-intensity stream, 32-bit m/z next to window edges that are NOT float32 values: decimal target masses
        and widths (absolute and ppm), peaks on float32(e) and on its float32 neighbours for the edges e = m -/+ w/2.
        The stored peaks are at least ~6e-8 relative away from the edge (one float32 step), far outside the 1e-9
        guard that covers the float64 rounding of the edge expression itself."""
        X, Y = rng.choice([(1, 1), (1, 1), (1, 2), (2, 1), (2, 2), (3, 2), (2, 3), (3, 3)])
        cells = [(x, y) for y in range(1, Y + 1) for x in range(1, X + 1)]
        pos = list(cells) if rng.random() < 0.3 else ([p for p in cells if rng.random() < 0.6] or [rng.choice(cells)])
        rng.shuffle(pos)
        size = None if rng.random() < 0.3 else [X, Y]
        mzdt = "f4" if rng.random() < 0.85 else "f8"
        itdt = rng.choice(["f4", "f8"])
        if rng.random() < 0.5:
            width = {"kind": "mz", "value": rng.choice([0.2, 0.2, 0.33, 0.1, 0.05, 0.7, 1.7, 3.3])}
        else:
            width = {"kind": "ppm", "value": rng.choice([10.0, 25.0, 50.0, 100.0, 500.0, 5000.0])}

        def half(m):
            return m * width["value"] / 1e6 / 2.0 if width["kind"] == "ppm" else width["value"] / 2.0

        masses = []
        for _ in range(rng.randint(1, 5)):
            if rng.random() < 0.3:
                masses.append(rng.choice([499.9, 500.1, 500.3, 120.7, 250.15, 999.9]))
            else:
                masses.append(round(rng.uniform(100.0, 1000.0), rng.choice([1, 1, 2, 3])))
        if len(masses) > 1 and rng.random() < 0.25:
            # adjacent windows (upper edge of one next to the lower edge of the other) / identical windows
            masses[1] = rng.choice([masses[0], round(masses[0] + 2 * half(masses[0]), 6)])
        f32, inf = np.float32, np.float32(np.inf)
        cands = []
        for m in masses:
            for e in (m - half(m), m + half(m)):
                c = f32(e)
                near = [c, np.nextafter(c, -inf), np.nextafter(c, inf)]
                # an edge that (nearly) is a float32 value: a peak on it would fall inside the guard, keep its neighbours only
                cands.append([float(v) for v in near if abs(float(v) - e) > 1e-8 * abs(e)])
                if rng.random() < 0.2:
                    cands.append([float(np.nextafter(near[1], -inf)), float(np.nextafter(near[2], inf))])
        nshared = rng.random() < 0.2

        def axis():
            n = rng.choice([1, 1, 2, 2, 3, 4, 5, 6, 8])
            vals = set()
            while len(vals) < n:
                r = rng.random()
                if r < 0.7:
                    vals.add(rng.choice(rng.choice(cands)))
                elif r < 0.8:
                    vals.add(float(f32(rng.choice(masses))))
                else:
                    vals.add(rng.randint(100 * 64, 1000 * 64) / 64)
            return sorted(vals)

        shared_axis = axis()
        spectra = []
        for (x, y) in pos:
            mz = list(shared_axis) if nshared else axis()
            it = [float(rng.choice([1, 2, 3, 5, 8, 100, 1000, 2047, rng.randint(0, 2047)])) for _ in mz]
            spectra.append({"x": x, "y": y, "mz": mz, "it": it, "tic": self.gen_tic(rng, sum(it))})
        if rng.random() < 0.3:
            rng.shuffle(masses)
        return {"kind": "exact", "size": size, "mzdt": mzdt, "itdt": itdt, "shared": nshared,
                "ifirst": rng.random() < 0.3, "pad": rng.randint(0, 10 ** 6) if rng.random() < 0.5 else None,
                "spectra": spectra, "masses": masses, "scalar": len(masses) == 1 and rng.random() < 0.5,
                "width": width, "binw": None, "style": rng.randint(0, gen_imzml.NSTYLES - 1)}

    def densify(self, rng, spectra, w):
        """rewrite some spectra so that every bin of arange(min, max + w, w) holds one of their peaks and
        the last bin holds the global maximum (the class for which binned_masses is proved correct)"""
        K = rng.choice([1, 2, 2, 3, 4, 6])
        lo = rng.randint(96 * 4, 150 * 4) / 4
        hi = lo + (K - 1) * w
        chosen = {i for i in range(len(spectra)) if rng.random() < 0.7} or {0}
        for i, s in enumerate(spectra):
            if i in chosen:
                mz = []
                for k in range(K - 1):
                    base = lo + k * w
                    offs = sorted({0.0 if (k == 0 and (i == 0 or rng.random() < 0.5)) else rng.randint(0, 15) * w / 16
                                   for _ in range(rng.choice([1, 1, 2]))})
                    mz += [base + o for o in offs]
                mz.append(hi)
                if rng.random() < 0.15 and K > 2:  # leave one bin empty after all
                    del mz[1]
            else:
                n = rng.randint(1, 4)
                mz = sorted({lo + rng.randint(0, max(0, int((hi - lo) * 16))) / 16 for _ in range(n)})
            s["mz"] = mz
            s["it"] = [float(rng.choice([1, 2, 4, 8, 16, rng.randint(0, 2047)])) for _ in mz]
        # guarantee the global extremes
        spectra[0]["mz"] = sorted(set(spectra[0]["mz"]) | {lo, hi})
        spectra[0]["it"] = [float(2 ** (j % 10)) for j in range(len(spectra[0]["mz"]))]

    def targeted(self, tier):
        base = {"kind": "exact", "size": [1, 1], "mzdt": "f8", "itdt": "f4", "shared": False, "ifirst": False, "pad": None,
                "scalar": False, "binw": None, "style": 0}
        sp = {"x": 1, "y": 1, "mz": [100.0, 200.0, 300.0, 400.0], "it": [1.0, 2.0, 4.0, 8.0], "tic": None}
        # the documented failing input of the repaired defect: empty window, last peak, above the spectrum
        yield {**base, "spectra": [sp], "masses": [250.0, 400.0, 500.0, 50.0, 100.0], "width": {"kind": "mz", "value": 2.0}}
        # peaks exactly on the lower (included) and upper (excluded) edge
        yield {**base, "spectra": [sp], "masses": [101.0, 99.0, 399.0, 401.0], "width": {"kind": "mz", "value": 2.0}}
        yield {**base, "spectra": [{**sp, "mz": [100.0], "it": [7.0]}], "masses": [100.0], "scalar": True,
               "width": {"kind": "ppm", "value": 1e6 / 64}}
        # sparse 2x3 image without a stated size, unsorted overlapping windows, bins
        yield {**base, "size": None, "mzdt": "f4", "itdt": "f8",
               "spectra": [{**sp, "x": 2, "y": 3, "tic": "15.000000"}, {**sp, "x": 1, "y": 2, "mz": [150.0, 250.0], "it": [3.0, 5.0]}],
               "masses": [300.0, 150.0, 200.0], "width": {"kind": "mz", "value": 128.0}, "binw": 64.0}
        # dense bins: every bin holds a peak, the last bin holds the last peak
        yield {**base, "spectra": [{**sp, "mz": [100.0, 100.5, 101.25, 102.0]}], "masses": [101.0],
               "width": {"kind": "mz", "value": 1.0}, "binw": 1.0}
        yield {**base, "spectra": [{**sp, "mz": [100.0], "it": [9.0]}], "masses": [101.0],
               "width": {"kind": "mz", "value": 1.0}, "binw": 0.5}
        # 32-bit m/z, window edges that are not float32 values, peaks on the float32 neighbours of each edge
        f32, inf = np.float32, np.float32(np.inf)
        for m, width in ((500.0, {"kind": "mz", "value": 0.2}), (500.2, {"kind": "mz", "value": 0.2}),
                         (120.7, {"kind": "mz", "value": 0.33}), (500.0, {"kind": "ppm", "value": 100.0}),
                         (731.3, {"kind": "ppm", "value": 25.0})):
            h = m * width["value"] / 1e6 / 2.0 if width["kind"] == "ppm" else width["value"] / 2.0
            mz = sorted({float(v) for e in (m - h, m + h) for c in [f32(e)]
                         for v in (np.nextafter(c, -inf), c, np.nextafter(c, inf))} | {float(f32(m))})
            yield {**base, "mzdt": "f4", "spectra": [{**sp, "mz": mz, "it": [float(2 ** j) for j in range(len(mz))]}],
                   "masses": [m], "width": width}
        # no spectrum at all
        yield {**base, "size": [2, 1], "spectra": [], "masses": [101.0], "width": {"kind": "mz", "value": 1.0}}

    # ------------------------------------------------------------------ evaluation
    def evaluate(self, case, ctx):
        from pewlib.io.imzml import ImzML
        import random

        d = ctx.tmpdir()
        specs = case["spectra"]
        prng = random.Random(case["pad"]) if case["pad"] is not None else None
        ibd, metas = gen_imzml.layout_ibd(specs, case["mzdt"], case["itdt"], shared=case["shared"], rng=prng,
                                          intensity_first=case["ifirst"])
        doc = gen_imzml.simple_doc([(s["x"], s["y"]) for s in specs], [s["tic"] for s in specs], metas,
                                   size=case["size"], mzdt=case["mzdt"], itdt=case["itdt"], style=case["style"])
        path = gen_imzml.write_pair(d, doc, ibd)
        masses, width = case["masses"], case["width"]
        kw = {"mass_width_ppm": width["value"]} if width["kind"] == "ppm" else {"mass_width_mz": width["value"]}
        target = masses[0] if case["scalar"] else (np.array(masses) if case["style"] % 2 else list(masses))

        impl = {}
        try:
            imz = ImzML.from_file(path)
        except Exception as e:
            imz = None
            impl = {"raises": type(e).__name__, "msg": str(e)[:160]}
        impl_bins = None
        if imz is not None:
            r = call(lambda: imz.extract_masses(target, **kw))
            impl["extract"] = r if isinstance(r, dict) else canon_pixels(r)
            r = call(imz.extract_tic)
            impl["tic"] = r if isinstance(r, dict) else canon_pixels(r)
            if specs:
                r = call(imz.mass_range)
                impl["range"] = r if isinstance(r, dict) else [fr(r[0]), fr(r[1])]
                if case["binw"] is not None:
                    r = call(lambda: imz.binned_masses(case["binw"]))
                    if isinstance(r, dict):
                        impl["binned"] = r
                    else:
                        b = np.asarray(r[0], dtype=float)
                        if b.ndim == 1 and np.all(np.isfinite(b)):
                            impl_bins = [F(float(v)) for v in b]
                        impl["binned"] = {"bins": [fr(v) for v in b.ravel()], "data": canon_pixels(r[1])}

        # the same case, abstractly, for the model (values exactly as stored in the file)
        def stored(vals, dt):
            return [core.rat(F(float(v))) for v in np.asarray(vals, dtype=gen_imzml.NP_DTYPE[dt])]

        dspecs = [{"x": s["x"], "y": s["y"], "tic": None if s["tic"] is None else core.rat(F(float(s["tic"]))),
                   "mz": stored(s["mz"], case["mzdt"]), "it": stored(s["it"], case["itdt"])} for s in specs]
        rep = ctx.driver.call("c05.image", size=case["size"], spectra=dspecs, masses=[core.rat(F(m)) for m in masses],
                              width={"kind": width["kind"], "value": core.rat(F(width["value"]))})
        model = {"extract": drv_table(rep["extract_model"], True), "tic": drv_table(rep["tic_model"], False)}
        spec = {"extract": drv_table(rep["extract_spec"], True), "tic": drv_table(rep["tic_spec"], False)}
        if specs:
            model["range"] = [qs(v) for v in rep["range_model"]]
            spec["range"] = [qs(v) for v in rep["range_spec"]]
        brep = None
        if specs and case["binw"] is not None:
            brep = ctx.driver.call("c05.bins", size=case["size"], spectra=dspecs, w=core.rat(F(case["binw"])),
                                   impl_bins=None if impl_bins is None else [core.rat(v) for v in impl_bins])
            model["binned"] = {"bins": [qs(v) for v in brep["bins_model"]], "data": drv_table(brep["model"], True)}
            spec["binned"] = {"edges_step_by_w_and_cover_range": True, "returned_edges_do": bool(brep["cover"]),
                              "data": drv_table(brep["spec"], True)}

        # tolerances: exact stream 0; real stream 8*n*eps*total of the pixel
        totals = {}
        for s in specs:
            eps = 2.0 ** -23 if case["itdt"] == "f4" else 2.0 ** -52
            totals[(s["y"] - 1, s["x"] - 1)] = F(8 * max(1, len(s["it"])) * eps * sum(s["it"])) if case["kind"] == "real" else F(0)
        tol = lambda r, c: totals.get((r, c), F(0))
        # the summed TIC of a pixel whose exact total is not representable in the intensity type is rounding-determined
        # for ANY implementation (a dominant peak next to small ones): tolerance for the TIC table only
        tic_totals = dict(totals)
        for s in specs:
            lim = 2 ** 24 if case["itdt"] == "f4" else 2 ** 53
            if s["tic"] is None and sum(s["it"]) >= lim:
                eps = 2.0 ** -23 if case["itdt"] == "f4" else 2.0 ** -52
                tic_totals[(s["y"] - 1, s["x"] - 1)] = F(8 * max(1, len(s["it"])) * eps * sum(s["it"]))
        tol_tic = lambda r, c: tic_totals.get((r, c), F(0))
        parts_spec, parts_model = {}, {}
        if imz is None:
            parts_spec["parse"] = parts_model["parse"] = False
        else:
            for k in ("extract", "tic"):
                parts_spec[k] = tables_close(impl[k], spec[k], tol if k == "extract" else tol_tic)
                parts_model[k] = tables_close(impl[k], model[k], tol if k == "extract" else tol_tic)
            if specs:
                ir = impl["range"]
                ok = isinstance(ir, list) and None not in ir
                parts_spec["range"] = ok and self.le(ir[0], spec["range"][0]) and self.le(spec["range"][1], ir[1])
                parts_model["range"] = ir == model["range"]
            if brep is not None:
                ib = impl["binned"]
                parts_spec["binned"] = "data" in ib and bool(brep["cover"]) and tables_close(ib["data"], spec["binned"]["data"], tol)
                parts_model["binned"] = "data" in ib and ib["bins"] == model["binned"]["bins"] \
                    and self.binned_matches_model(ib["data"], model["binned"]["data"], spec["binned"]["data"], brep["dense"], tol)

        # undetermined: a peak within 1e-9 relative of a window edge whose float value depends on how the code
        # rounds (real stream; every ppm width: m*ppm/1e6/2 and e.g. m*(ppm*5e-7) are both right but round differently)
        undet = False
        edges = [core.unrat(e) for e in rep["edges"]]
        guard = case["kind"] == "real" or width["kind"] == "ppm"
        if not guard:
            # absolute width: the float64 expressions m - w/2, m + w/2 are exact for the dyadic classes; where they
            # round (decimal masses / widths) the same guard applies, whatever stream the case came from
            h = float(width["value"]) / 2.0
            fl = [F(v) for m in masses for v in (float(m) - h, float(m) + h)]
            guard = fl != edges
        if guard:
            for s in dspecs:
                for m in s["mz"]:
                    q = core.unrat(m)
                    if any(abs(q - e) <= F(1, 10 ** 9) * abs(e) for e in edges):
                        undet = True

        note = {"fail": sorted(k for k, v in parts_spec.items() if not v)}
        if brep is not None and imz is not None and "data" in impl.get("binned", {}) and not parts_spec.get("binned", True):
            # which disagreeing pixels lie in the class of the known finding (a bin without a peak / bins above the last peak)
            bad_dense = 0
            idata, sdata = impl["binned"]["data"], spec["binned"]["data"]
            same_shape = len(idata) == len(sdata) and all(len(a) == len(b) for a, b in zip(idata, sdata))
            if same_shape:
                for r, row in enumerate(idata):
                    for c, px in enumerate(row):
                        if not tables_close([[px]], [[sdata[r][c]]], lambda *_: tol(r, c)) and brep["dense"][r][c] is not False:
                            bad_dense += 1
            note["binned"] = {"cover": bool(brep["cover"]), "same_shape": same_shape, "bad_dense_pixels": bad_dense,
                              "matches_defect_model": ib["bins"] == model["binned"]["bins"]
                              and tables_close(ib["data"], model["binned"]["data"], tol)}
        feats = self.features(case, rep, brep, dspecs)
        return outcome(impl, model, spec, spec_ok=all(parts_spec.values()), model_ok=all(parts_model.values()),
                       undetermined=undet, hyp=bool(rep["hyp"]), features=feats, note=json.dumps(note, sort_keys=True))

    @staticmethod
    def binned_matches_model(idata, mdata, sdata, dense, tol):
        """correspondence for binned_masses: every pixel equals the mechanism model (the documented, unrepaired
        behaviour); on pixels outside the proved class (a bin without a peak) the specified value is accepted too,
        so that a correct repair of the known finding is not reported as a broken tie"""
        if len(idata) != len(mdata) or any(len(a) != len(b) for a, b in zip(idata, mdata)):
            return False
        for r, row in enumerate(idata):
            for c, px in enumerate(row):
                t = lambda *_: tol(r, c)
                if tables_close([[px]], [[mdata[r][c]]], t):
                    continue
                if dense[r][c] is False and tables_close([[px]], [[sdata[r][c]]], t):
                    continue
                return False
        return True

    @staticmethod
    def le(a, b):
        inf = {"inf": 1, "-inf": -1}
        if a in inf or b in inf:
            return inf.get(a, 0) <= inf.get(b, 0) if (a in inf and b in inf) else (a == "-inf" or b == "inf")
        return F(a) <= F(b)

    def features(self, case, rep, brep, dspecs):
        f = set()
        specs = case["spectra"]
        edges = [core.unrat(e) for e in rep["edges"]]
        wins = list(zip(edges[::2], edges[1::2]))
        X, Y = rep["size"]
        f.add(f"img:{'1x1' if (X, Y) == (1, 1) else 'line' if 1 in (X, Y) else 'grid'}")
        if len(specs) < X * Y:
            f.add("sparse-pixels")
        if not specs:
            f.add("no-spectra")
        if case["size"] is None:
            f.add("size-absent")
        if case["shared"] and len(specs) > 1:
            f.add("shared-axis")
        f.add(f"mz:{case['mzdt']}")
        f.add(f"it:{case['itdt']}")
        f.add(f"width:{case['width']['kind']}")
        f.add(f"stream:{case['kind']}")
        if any(s["tic"] is None for s in specs):
            f.add("tic-absent")
        if any(s["tic"] is not None for s in specs):
            f.add("tic-stored")
        if case["scalar"]:
            f.add("scalar-target")
        los = [w[0] for w in wins]
        if los != sorted(los):
            f.add("windows-unsorted")
        if any(a[0] < b[1] and b[0] < a[1] for i, a in enumerate(wins) for b in wins[i + 1:]):
            f.add("windows-overlap")
        nontriv = set()
        # 32-bit m/z next to a window edge that is not a float32 value: the stored neighbours of the edge
        brackets = []
        if case["mzdt"] == "f4":
            brackets = [(f32_bracket(lo), f32_bracket(hi)) for lo, hi in wins]
            if any(b is not None for pair in brackets for b in pair):
                f.add("f32-unrepresentable-edge")
        for s in dspecs:
            mz = [core.unrat(m) for m in s["mz"]]
            mzset = set(mz)
            for pair in brackets:
                for name, b in zip(("lower", "upper"), pair):
                    if b is not None:
                        if b[0] in mzset:
                            nontriv.add(f"f32-peak-just-below-{name}-edge")
                        if b[1] in mzset:
                            nontriv.add(f"f32-peak-just-above-{name}-edge")
            f.add("n1" if len(mz) == 1 else "n2" if len(mz) == 2 else "n>2")
            for lo, hi in wins:
                inside = [m for m in mz if lo <= m < hi]
                if lo in mz:
                    nontriv.add("peak-on-lower-edge")
                if hi in mz:
                    nontriv.add("peak-on-upper-edge")
                if not inside:
                    if hi <= mz[0]:
                        nontriv.add("window-below")
                    elif lo > mz[-1]:
                        nontriv.add("window-above")
                    else:
                        nontriv.add("window-empty-inside")
                else:
                    if len(inside) > 1:
                        nontriv.add("window-many-peaks")
                    if inside[0] == mz[0]:
                        nontriv.add("window-has-first-peak")
                    if inside[-1] == mz[-1]:
                        nontriv.add("window-has-last-peak")
        if brep is not None:
            flat = [d for row in brep["dense"] for d in row if d is not None]
            if any(flat):
                nontriv.add("bins-dense-pixel")
            if not all(flat):
                nontriv.add("bins-pixel-with-empty-bin")
            f.add("bins:%d" % min(len(brep["bins_model"]), 5))
        if {"sparse-pixels", "size-absent", "no-spectra"} & f:
            nontriv.add("placement")
        return (f | nontriv) if nontriv else []

    # ------------------------------------------------------------------ known finding
    def known(self, case, out):
        try:
            note = json.loads(out.get("note") or "{}")
        except ValueError:
            return None
        if note.get("fail") != ["binned"]:
            return None  # anything else that fails is a violation
        b = note.get("binned")
        if not b or not b["cover"] or not b["same_shape"]:
            return None
        if b["bad_dense_pixels"] != 0:
            return None  # a pixel whose every bin holds a peak must be right
        if not b["matches_defect_model"]:
            return None  # not the documented behaviour (neighbouring peak / repeated last intensity)
        return KNOWN_BINS

    # ------------------------------------------------------------------ shrinking
    def shrink(self, case):
        sp = case["spectra"]
        for i in range(len(sp)):
            if len(sp) > 1:
                yield {**case, "spectra": sp[:i] + sp[i + 1:], "shared": False}
        if len(case["masses"]) > 1:
            for i in range(len(case["masses"])):
                yield {**case, "masses": case["masses"][:i] + case["masses"][i + 1:], "scalar": False}
        for i, s in enumerate(sp):
            for j in range(len(s["mz"])):
                if len(s["mz"]) > 1:
                    t = {**s, "mz": s["mz"][:j] + s["mz"][j + 1:], "it": s["it"][:j] + s["it"][j + 1:]}
                    yield {**case, "spectra": sp[:i] + [t] + sp[i + 1:], "shared": False}
            if s["tic"] is not None:
                yield {**case, "spectra": sp[:i] + [{**s, "tic": None}] + sp[i + 1:]}
        if case["binw"] is not None:
            yield {**case, "binw": None}
        if case["pad"] is not None:
            yield {**case, "pad": None}
        if case["ifirst"]:
            yield {**case, "ifirst": False}


PROP = C05()

if __name__ == "__main__":
    sys.exit(core.main(PROP, "harness.c05"))
