"""C05 — imzML mass-window extraction: pewlib.io.imzml.ImzML.extract_masses / extract_tic / mass_range /
binned_masses on synthetic imzML/ibd pairs against PewModel/Imzml.lean (mechanism: get_binary_data on the
bytes of the .ibd -> dict of spectra -> searchsorted -> sentinel -> reduceat -> [::2] -> zeroing -> placement by
NumPy subscripts; specification: windowSum per pixel at [y-1][x-1]).  The driver gets the bytes of the .ibd file
the harness wrote plus the offsets / lengths it wrote into the imzML and decodes the arrays itself."""
import bisect
import json
import math
import sys
from fractions import Fraction

import numpy as np

from harness import core, gen_imzml
from harness.core import Prop, outcome

KNOWN_BINS = "C05-binned-masses-empty-bins"
F = Fraction


def fr(v):
    """float -> canonical exact string; NaN -> None"""
    v = float(v)
    if math.isnan(v):
        return None
    if math.isinf(v):
        return "inf" if v > 0 else "-inf"
    return str(F(v))


def qs(j):
    q = core.unrat(j)
    return None if q is None else str(q)


def f32_bracket(e):
    """exact rational e -> (largest float32 < e, smallest float32 > e) as Fractions; None when e is itself a
    float32 value (or out of the float32 range)"""
    with np.errstate(over="ignore"):
        c = np.float32(float(e))
    if not np.isfinite(c):
        return None
    fc = F(float(c))
    if fc == e:
        return None
    if fc < e:
        lo, hi = c, np.nextafter(c, np.float32(np.inf))
    else:
        lo, hi = np.nextafter(c, np.float32(-np.inf)), c
    if not (np.isfinite(lo) and np.isfinite(hi)):
        return None
    return F(float(lo)), F(float(hi))


def canon_pixels(arr):
    """(Y, X, N) or (Y, X) array -> rows of pixels; an all-NaN pixel is None"""
    arr = np.asarray(arr)
    rows = []
    for r in range(arr.shape[0]):
        row = []
        for c in range(arr.shape[1]):
            px = arr[r, c]
            if px.ndim == 0:
                row.append(fr(px))
            else:
                vals = [fr(v) for v in px]
                row.append(None if len(vals) > 0 and all(v is None for v in vals) else vals)
        rows.append(row)
    return rows


def drv_table(tab, vec):
    return [[None if px is None else ([qs(v) for v in px] if vec else qs(px)) for px in row] for row in tab]


def call(f):
    try:
        return f()
    except Exception as e:  # the quantified inputs never raise
        return {"raises": type(e).__name__, "msg": str(e)[:160]}


def tables_close(a, b, tol_of):
    """same shape, same NaN pattern, values within tol_of(r, c) (0 -> exact)"""
    if isinstance(a, dict) or isinstance(b, dict):
        return False
    if len(a) != len(b):
        return False
    for r, (ra, rb) in enumerate(zip(a, b)):
        if len(ra) != len(rb):
            return False
        for c, (pa, pb) in enumerate(zip(ra, rb)):
            if (pa is None) != (pb is None):
                return False
            if pa is None:
                continue
            va, vb = (pa, pb) if isinstance(pa, list) else ([pa], [pb])
            if not isinstance(pb, list) and isinstance(pa, list):
                return False
            if len(va) != len(vb):
                return False
            tol = tol_of(r, c)
            if tol is None:  # only the NaN pattern of this pixel is compared
                continue
            tols = tol if isinstance(tol, list) else [tol] * len(va)
            if len(tols) != len(va):
                return False
            for x, y, t in zip(va, vb, tols):
                if t is None:  # an undetermined element: not compared
                    continue
                if x is None or y is None:
                    if x is not y:
                        return False
                elif x != y and abs(F(x) - F(y)) > t:
                    return False
    return True


def both_raise(impl_part, model_part):
    """the model says the call raises and the implementation raised (the exception class is not compared)"""
    return isinstance(model_part, dict) and model_part.get("raises") is True and isinstance(impl_part, dict) and "raises" in impl_part


def same_pattern(a, b):
    """same shape and the same NaN pixels"""
    if isinstance(a, dict) or isinstance(b, dict) or len(a) != len(b):
        return False
    return all(len(ra) == len(rb) and all((pa is None) == (pb is None) for pa, pb in zip(ra, rb)) for ra, rb in zip(a, b))


INT_MT = ("pyint", "np-i8", "list-int", "tuple-int", "i4", "i8")
F4_MT = ("np-f4", "f4")
SCALAR_MT = ("pyfloat", "pyint", "np-f8", "np-f4", "np-i8", "0d-f8")
SEQ_MT = ("list", "list-int", "list-mixed", "tuple", "tuple-int", "f8", "f8-strided", "f4", "i4", "i8")
WTYPES = ("float", "int", "np-f8", "np-f4")


def reshare(share, removed):
    """the links between spectra sharing external arrays after spectrum `removed` has been dropped"""
    if not share:
        return None
    out = {}
    for k, v in share.items():
        k = int(k)
        if k == removed:
            continue
        w = {a: (b - 1 if b > removed else b) for a, b in v.items() if b != removed}
        if w:
            out[str(k - 1 if k > removed else k)] = w
    return out or None


def exact_of(x):
    """the exact value of a number as it is passed to pewlib"""
    return F(int(x)) if isinstance(x, (int, np.integer)) else F(float(x))


def build_target(masses, mt):
    """the object handed to extract_masses as `target_masses` for the argument type `mt`, and the exact values of its
    elements: an int type passes int(m), a float32 type the float32 nearest to m - the target masses of the call ARE
    these values, and they are what the model is given"""
    if mt in SCALAR_MT:
        m = masses[0]
        obj = {"pyfloat": lambda: float(m), "pyint": lambda: int(m), "np-f8": lambda: np.float64(m),
               "np-f4": lambda: np.float32(m), "np-i8": lambda: np.int64(int(m)), "0d-f8": lambda: np.array(float(m))}[mt]()
        return obj, [exact_of(obj if mt != "0d-f8" else obj[()])]
    if mt in ("list-int", "tuple-int"):
        seq = [int(m) for m in masses]
        return (seq if mt == "list-int" else tuple(seq)), [F(v) for v in seq]
    if mt == "list-mixed":
        seq = [int(masses[0])] + [float(m) for m in masses[1:]]
        return seq, [exact_of(v) for v in seq]
    if mt == "tuple":
        seq = tuple(float(m) for m in masses)
        return seq, [F(v) for v in seq]
    if mt in ("f8", "f4", "i4", "i8"):
        if mt[0] == "i":
            arr = np.array([int(m) for m in masses], dtype={"i4": np.int32, "i8": np.int64}[mt])
        else:
            arr = np.array([float(m) for m in masses], dtype={"f8": np.float64, "f4": np.float32}[mt])
        return arr, [exact_of(v) for v in arr]
    if mt == "f8-strided":  # a view with a stride of two elements
        arr = np.repeat(np.array([float(m) for m in masses], dtype=np.float64), 2)[::2]
        return arr, [exact_of(v) for v in arr]
    seq = [float(m) for m in masses]  # "list"
    return seq, [F(v) for v in seq]


def build_width(value, wt):
    obj = {"float": lambda: float(value), "int": lambda: int(value), "np-f8": lambda: np.float64(value),
           "np-f4": lambda: np.float32(value)}.get(wt, lambda: float(value))()
    return obj, exact_of(obj)


def f32_exact(q):
    with np.errstate(over="ignore"):
        v = np.float32(float(q))
    return bool(np.isfinite(v)) and F(float(v)) == q


def edge_guard(real, wkind, mvals, wval, mt, wt, edges):
    """None when the float window edges the code computes ARE the exact edges m -/+ w/2; else the relative distance
    within which a peak next to an edge makes the element undetermined (1e-9 for float64 arithmetic, 1e-6 when the
    targets or the width are float32, which makes NumPy compute the edges in float32)"""
    f4 = mt in F4_MT or wt == "np-f4"
    rel = F(1, 10 ** 6) if f4 else F(1, 10 ** 9)
    if real or wkind == "ppm":
        # m*ppm/1e6/2 and e.g. m*(ppm*5e-7) are both right but round differently
        return rel
    if f4:
        return None if all(f32_exact(x) for x in [wval / 2] + list(edges) + list(mvals)) else rel
    h = float(wval) / 2.0
    fl = [F(v) for m in mvals for v in (float(m) - h, float(m) + h)]
    return None if fl == list(edges) else rel


class C05(Prop):
    id = "C05"
    anchored = ["src/pewlib/io/imzml.py"]
    cases = {"quick": 1200, "thorough": 20000}
    rule = ("synthetic imzML/ibd pairs: images 1x1..4x4, random subsets of pixels (also none), per-pixel or shared m/z axes of "
            "1..8 strictly increasing dyadic values, f32/f64 arrays, TIC stored/absent, image size present/absent; 1..5 target "
            "masses with ppm or absolute widths whose edges are exactly representable, spectra drawn from a grid plus (absolute widths) "
            "the window edges themselves (peaks exactly on the lower/upper edge; with ppm widths a peak within 1e-9 of an edge is "
            "undetermined); windows empty / below / above / touching first or last "
            "peak / many peaks / overlapping / unsorted; a 'real' stream with non-dyadic values and a summation tolerance; "
            "a 32-bit-edge class (20% of the exact stream): decimal masses 100..1000 with absolute widths 0.05..3.3 or 10..5000 ppm, "
            "mostly f32 m/z, integer intensities, peaks on float32(e) and its float32 neighbours for the edges e = m -/+ w/2 that are "
            "not float32 values (peak just below/above the lower/upper edge, one float32 step >= 6e-8 relative away); "
            "bins with dyadic widths incl. spectra with a peak in every bin. "
            "70% of the cases carry 1-3 direct calls of Spectrum.get_binary_data on the written .ibd (the arrays the imzML points to and "
            "random offsets / lengths, element types u1..u8 / f4 / f8, both byte orders, reads ending after or starting beyond the file, "
            "lengths that are no whole number of elements). 8% of the cases are moved OUTSIDE the quantifier (position 0, negative, "
            "beyond the size, recorded twice, two positions on one pixel, smaller / empty / negative size, nothing at all): "
            "implementation vs model only, the specification is not evaluated. "
            "EXTENSION ROUND (drawn after the main case from a stream of their own): EVERY case is imported through BOTH parsers of "
            "ImzML.from_file (ElementTree, the default of the public API, and use_fast_parse=True) and every observation of either object "
            "is judged against the same Lean model and specification; all calls of a case are made on ONE object per parser (history): "
            "the four observation points, in 40% of the cases in a shuffled order, and in 55% one or two further calls - extractions "
            "with other targets / widths / argument types (nominal integer masses next to recorded peaks, targets on peaks, chains of "
            "adjacent windows m, m+w, .. with a recorded peak exactly on a shared edge, 100-400 unsorted targets with duplicates, the "
            "main targets repeated, one window holding every peak), the same extraction again, extract_tic / mass_range again, "
            "load(path | object, ibd, targets[, ppm]). Argument types: targets as Python float / int, numpy float64 / float32 / int64 "
            "scalar, 0-d array, list / tuple of floats or ints, mixed list, float64 / float32 / int32 / int64 ndarray, strided view; "
            "width as float / int / numpy.float64 / numpy.float32, by keyword or positionally (the model is given the exact values "
            "of what is passed). 45% of the eligible exact cases get 1-2 peaks per spectrum that dominate the window contents by more "
            "than 2^53 (2^54..2^70, 1e17..1e30; float64 intensities also 2^200, 1e100..1e300) below, above, between the windows and "
            "exactly on an (excluded) upper edge, window contents staying small integers (tolerance 0). 30% of the files with >= 2 "
            "spectra get a forced pattern of stored / absent TIC along the file (stored-then-absent, absent-then-stored, "
            "alternating, first / last only). Pixel coverage: first / last pixel removed, a single recorded pixel, 1xN / Nx1 / "
            "grids up to 40 long, 12x12, 100-400 long images with 1-6 recorded pixels. 15% of the dyadic cases are rescaled by "
            "2^-6..2^8 (masses 1.5..41000). 4%: spectra of 40-3000 peaks. The .ibd under another name in another directory passed "
            "as external_binary, str instead of Path arguments, direct reads through one open BufferedReader. 2%: a spectrum "
            "without peaks (outside the quantifier, implementation vs model). "
            "non-trivial = at least one of the named window classes, a sparse/size-absent image or an off: class; distinct by canonical case hash")
    trusted = ["np.searchsorted on a sorted array returns #{p | a[p] < v}; np.add.reduceat, np.append, np.arange as documented; "
               "np.frombuffer / file seek+read and IEEE-754 decoding are MODELLED (getBinaryData, ieeeVal) and compared element by element "
               "(bit patterns and exact values) with what get_binary_data returns on the written file",
               "exact stream: m/z k/2^14 < 256 and integer intensities < 2^11 so float32/float64 sums and the float window edges "
               "of absolute widths are exact; 32-bit-edge class: m/z < 1024 stored as float32, integer intensities < 2^11, sums exact; "
               "ppm widths, the real stream and every absolute width whose float64 edges m -/+ w/2 are not exact: an output ELEMENT "
               "(pixel, window) whose spectrum has a peak within 1e-9 relative of an edge of that window is undetermined and not "
               "compared (1e-6 when targets or width are float32, which makes NumPy compute the edges in float32); everything else of "
               "the case is compared; real stream: sums compared with tolerance 8*n*eps*total",
               "exact stream: a window sum (a summed TIC, a bin) is compared with tolerance 0 whenever every order of float summation "
               "gives the exact sum (a single value, or integers with sum of absolute values < 2^24 / 2^53); a window that itself "
               "holds a dominant peak next to small ones is rounding-determined for any implementation: 8*n*eps*sum|it|",
               "the fast parser is given documents in the line layout it is written for (harness/gen_imzml.simple_doc); a document "
               "without any <spectrum> makes it raise KeyError (DESIGN 9.5, C17): recorded as a feature, the XML parser is judged alone",
               "xml.etree.ElementTree parses the synthetic document as written (position, size, offset, encoded length, element type); "
               "float(text) of the stored TIC (the harness hands the model the parsed value)"]
    assumptions = ["the specification is evaluated only where the quantifier holds: every position recorded once, 1-based and inside the "
                   "image; spectra non-empty with strictly increasing m/z and as many intensities (decided by the driver, `hyp`); outside it "
                   "the implementation is compared with the mechanism model only (raising vs not raising, shape, NaN pattern, values; the "
                   "exception class and the value of a pixel two positions share are not compared)",
                   "target_masses may be anything numpy.atleast_1d turns into a 1-d numeric array (the annotation says ndarray | float; "
                   "lists, tuples, Python ints and integer arrays are what callers pass for nominal masses); the target masses of a call "
                   "are the exact values of the elements passed (a float32 array passes float32 values)",
                   "the Outcome flag `undetermined` is no longer set: undetermined elements are skipped one by one and counted by the "
                   "feature `undetermined-element:...`, so that the rest of such a case (TIC, range, bins, other windows) is still judged",
                   "mass_range is checked as a bound (low <= every m/z <= high); bin edges returned by binned_masses are accepted when they "
                   "step by the requested width and cover the recorded range, the per-bin sums are then checked against those edges"]

    # Outside the property's quantifier (position 0 / negative / beyond the size / recorded twice, empty or negative
    # sizes, reads that end after the file or are no whole number of elements) the property says nothing; there the
    # implementation is compared with the MODEL only.  True: such a disagreement reaches the verdict ("VIOLATION ...
    # no-failing-input-found": the model no longer describes the code).  False: it is only counted as the feature
    # "off:DIFFERS-from-model" in the evidence.
    OFF_DOMAIN_VERDICT = True

    # ------------------------------------------------------------------ generation
    def gen_tic(self, rng, total):
        k = rng.randint(0, 6)
        v = rng.choice([total, total + 0.5, 7.25, 0.0, 1536.0])
        if k == 0:
            return None
        if k == 1:
            return "%d" % int(v)
        if k == 2:
            return "%.6f" % v
        if k == 3:
            return "%.6e" % v
        if k == 4:
            return "%g" % (v + 0.25)
        return repr(float(v))

    def generate(self, rng, tier):
        import random

        case = self.generate_main(rng, tier)
        # everything below draws AFTER the main case, so the main stream is what it was
        if case["spectra"] and rng.random() < 0.7:
            case["reads"] = self.gen_reads(rng, case)
        offd = False
        if rng.random() < 0.08:
            before = json.dumps(case, sort_keys=True)
            self.off_domain(rng, case)
            offd = json.dumps(case, sort_keys=True) != before
        # the classes of the extension round have their own stream
        self.extend(random.Random(rng.getrandbits(64)), case, offd)
        return case

    # ------------------------------------------------------------------ classes of the extension round
    DOM_ANY = [2.0 ** 54, 2.0 ** 57, 2.0 ** 60, 2.0 ** 70, 1e17, 1e19, 1e25, 1e30]   # float32 and float64 values
    DOM_F8 = [2.0 ** 200, 1e100, 1e200, 1e300]                                     # float64 only

    @staticmethod
    def exact_windows(masses, width):
        out = []
        for m in masses:
            h = F(m) * F(width["value"]) / 10 ** 6 / 2 if width["kind"] == "ppm" else F(width["value"]) / 2
            out.append((F(m) - h, F(m) + h))
        return out

    def extend(self, rng, case, offd):
        sp = case["spectra"]
        exact = case["kind"] == "exact"
        grid = 2 ** 14
        dyadic = exact and all((F(v) * grid).denominator == 1 for v in case["masses"]) \
            and (case["width"]["kind"] == "ppm" or (F(case["width"]["value"]) * grid).denominator == 1) \
            and all((F(m) * grid).denominator == 1 for s in sp for m in s["mz"])
        changed = False
        # 0. long spectra (tens to thousands of peaks on the grid, the peaks of the case kept): thresholds on the
        # length of a spectrum; integer intensities whose total stays below 2^24
        if dyadic and sp and not case["shared"] and rng.random() < 0.04:
            for s in rng.sample(sp, min(len(sp), rng.choice([1, 1, 2]))):
                if max(s["it"], default=0) >= 2 ** 20:
                    continue
                n = rng.choice([40, 200, 200, 1000, 3000])
                mz = sorted(set(s["mz"]) | {k / 64 for k in rng.sample(range(94 * 64, 162 * 64), n)})
                s["mz"] = mz
                s["it"] = [float(rng.choice([0, 1, 2, 3, 5, 8, 100, 255])) for _ in mz]
                if s["tic"] is not None and rng.random() < 0.5:
                    s["tic"] = None
            changed = True
        # 1. every length rescaled by a power of two (exact): small and large masses, ppm widths at both ends
        if dyadic and rng.random() < 0.15:
            k = 2.0 ** rng.choice([-6, -4, -2, 3, 6, 8])
            case["masses"] = [m * k for m in case["masses"]]
            if case["width"]["kind"] == "mz":
                case["width"] = {"kind": "mz", "value": case["width"]["value"] * k}
            for s in sp:
                s["mz"] = [m * k for m in s["mz"]]
            if case["binw"] is not None:
                case["binw"] = case["binw"] * k
            changed = True
        # 2. pixel coverage: first / last pixel missing, a single recorded pixel, long images
        if sp and not offd:
            r = rng.random()
            X = case["size"][0] if case["size"] is not None else max(s["x"] for s in sp)
            Y = case["size"][1] if case["size"] is not None else max(s["y"] for s in sp)
            if r < 0.04 and len(sp) > 1:
                sp[:] = [s for s in sp if (s["x"], s["y"]) != (1, 1)] or sp[:1]
                changed = True
            elif r < 0.08 and len(sp) > 1:
                sp[:] = [s for s in sp if (s["x"], s["y"]) != (X, Y)] or sp[:1]
                changed = True
            elif r < 0.11 and len(sp) > 1:
                sp[:] = [rng.choice(sp)]
                changed = True
            elif r < 0.15:
                # 1xN, Nx1 and larger grids: the spectra of the case repeated over more positions
                X, Y = rng.choice([(rng.randint(5, 40), 1), (1, rng.randint(5, 40)), (rng.randint(5, 7), rng.randint(2, 6)),
                                   (rng.randint(2, 6), rng.randint(5, 7)), (12, 12), (rng.randint(100, 400), 1),
                                   (1, rng.randint(100, 400)), (rng.randint(50, 120), rng.randint(2, 3))])
                cells = [(x, y) for y in range(1, Y + 1) for x in range(1, X + 1)]
                if X * Y > 100:  # positions with several digits, a handful of recorded pixels (also the corners)
                    pos = rng.sample(cells, rng.randint(1, 6)) + [c for c in ((1, 1), (X, Y), (X, 1)) if rng.random() < 0.3]
                    pos = list(dict.fromkeys(pos))
                else:
                    keep = rng.choice([1.0, 0.8, 0.5])
                    pos = [p for p in cells if rng.random() < keep] or [rng.choice(cells)]
                rng.shuffle(pos)
                old = [dict(s) for s in sp]
                sp[:] = [{**rng.choice(old), "x": x, "y": y} for (x, y) in pos]
                for s in sp:
                    s["mz"], s["it"] = list(s["mz"]), list(s["it"])
                if case["size"] is not None:
                    case["size"] = [X, Y]
                changed = True
        # 3. peaks that dominate the content of the windows by more than the precision of float64 (and so of float32),
        # below, above and between the windows; the windows keep small exactly summable contents, so their sums stay
        # compared with tolerance 0.  The full sums of such spectra are rounding-determined: the TIC is mostly stored
        # (an absent one gets the rounding tolerance in `evaluate`), binning is not requested.
        if dyadic and sp and not case["shared"] and case["binw"] is None and rng.random() < 0.45:
            wins = self.exact_windows(case["masses"], case["width"])
            lo_all, hi_all = min(w[0] for w in wins), max(w[1] for w in wins)
            for s in sp:
                if rng.random() < 0.25:
                    continue
                cur = {F(m) for m in s["mz"]}
                top = max([hi_all] + list(cur))
                bot = min([lo_all] + list(cur))
                for _ in range(rng.choice([1, 1, 2])):
                    where = rng.choice(["below", "below", "above", "between", "on-upper-edge"])
                    if where == "below":
                        q = bot - F(rng.randint(1, 64), 4) if rng.random() < 0.5 else lo_all - F(rng.randint(1, 64), 64)
                    elif where == "above":
                        q = top + F(rng.randint(1, 64), 4) if rng.random() < 0.5 else hi_all + F(rng.randint(0, 64), 64)
                    elif where == "on-upper-edge" and case["width"]["kind"] == "mz":
                        q = rng.choice(wins)[1]   # the upper edge is outside the half-open window
                    else:
                        q = lo_all + (hi_all - lo_all) * F(rng.randint(0, 256), 256)
                    if q <= 0 or q in cur or any(a <= q < b for a, b in wins) or (q * grid * 64).denominator != 1:
                        continue
                    big = rng.choice(self.DOM_ANY + (self.DOM_F8 if case["itdt"] == "f8" else []))
                    mz = sorted(cur | {q})
                    i = mz.index(q)
                    s["mz"] = [float(m) for m in mz]
                    s["it"] = s["it"][:i] + [big] + s["it"][i:]
                    cur.add(q)
                    if rng.random() < 0.7:
                        s["tic"] = rng.choice(["0", "7.25", "1536.0", "1e+17"])
                    changed = True
        # 3b. OUTSIDE the quantifier (spectra of 1..n peaks): a recorded spectrum without any peak (zero-length arrays);
        # implementation vs model only: zeros in the mass image, 0 in the TIC image, mass_range / binned_masses raise
        if sp and not offd and not case["shared"] and rng.random() < 0.02:
            t = rng.choice(sp)
            t["mz"], t["it"] = [], []
            if rng.random() < 0.5:
                t["tic"] = None
            changed = True
        # 3c. spectra SHARING external arrays: several spectra point at the same m/z offset (stored once) with equal
        # lengths (the continuous-mode layout) or with different lengths (each pixel records a leading part of the axis),
        # also shared intensity arrays, in every file order, mostly consecutive in the file; an array is identified by
        # offset AND length (read_shared_offset).  Extra targets on the peaks beyond the shorter lengths.
        if len(sp) >= 2 and not offd and not case["shared"] and rng.random() < 0.14:
            self.share_arrays(rng, case)
            changed = True
        # 4. stored / absent TIC along the file, in every order
        if len(sp) >= 2 and rng.random() < 0.3:
            n = len(sp)
            pat = rng.choice(["SA", "AS", "alt-S", "alt-A", "last-A", "first-A", "first-S", "random"])
            if pat == "SA":
                k = rng.randint(1, n - 1)
                pres = [i < k for i in range(n)]
            elif pat == "AS":
                k = rng.randint(1, n - 1)
                pres = [i >= k for i in range(n)]
            elif pat in ("alt-S", "alt-A"):
                pres = [(i % 2 == 0) == (pat == "alt-S") for i in range(n)]
            elif pat == "last-A":
                pres = [i < n - 1 for i in range(n)]
            elif pat == "first-A":
                pres = [i > 0 for i in range(n)]
            elif pat == "first-S":
                pres = [i == 0 for i in range(n)]
            else:
                pres = [rng.random() < 0.5 for _ in range(n)]
            for s, p in zip(sp, pres):
                if not p:
                    s["tic"] = None
                elif s["tic"] is None:
                    v = rng.choice([0.0, 7.25, 1536.0, float(rng.randint(1, 10 ** 6)), sum(s["it"]) + 0.5])
                    s["tic"] = rng.choice(["%.6f", "%.6e", "%r", "%g"]) % v
        if changed and case.get("reads"):
            case["reads"] = self.gen_reads(rng, case) if case["spectra"] else []
        # 5. how the public entry points are called: str or Path, the external binary named explicitly (also when it lies
        # elsewhere under another name), direct reads through one open handle
        case["api"] = {"str": rng.random() < 0.3, "ibd-arg": rng.random() < 0.15, "ibd-elsewhere": rng.random() < 0.15,
                       "read-handle": rng.random() < 0.3}
        # argument types of the main extraction
        case["targ"] = self.pick_targ(rng, case["masses"], case["width"], scalar=case["scalar"])
        # 6. history on the one object: further extractions (other targets / widths / types), load(), repeats; order
        if rng.random() < 0.55:
            case["extra"] = [self.gen_extra(rng, case) for _ in range(rng.choice([1, 1, 2]))]
        x = case.pop("_share_extra", None)
        if x is not None and rng.random() < 0.7:
            case["extra"] = (case.get("extra") or [])[:1] + [x]
        if rng.random() < 0.4:
            case["order"] = rng.randint(0, 10 ** 6)

    def share_arrays(self, rng, case):
        sp = case["spectra"]
        exact = case["kind"] == "exact"
        b = max(range(len(sp)), key=lambda i: (len(sp[i]["mz"]), rng.random())) if rng.random() < 0.7 else rng.randrange(len(sp))
        base = sp[b]
        if not base["mz"]:  # a spectrum without peaks (outside the quantifier) is no axis to share
            return
        if len(base["mz"]) < 3 and exact and max(base["it"], default=0) < 2 ** 20:
            # a longer stored axis, so that leading parts of several lengths exist
            step = 2.0 ** (math.floor(math.log2(max(base["mz"]))) - 12)   # dyadic, exact in float32 too
            grid = sorted(set(base["mz"]) | {m + rng.randint(1, 256) * step for m in base["mz"] for _ in range(3)})
            base["mz"] = grid
            base["it"] = [float(rng.choice([1, 2, 3, 5, 8, 100, 1000, rng.randint(0, 2047)])) for _ in grid]
        nb = len(base["mz"])
        others = [i for i in range(len(sp)) if i != b]
        group = rng.sample(others, rng.randint(1, min(len(others), 4)))
        links = {}
        for i in group:
            what = rng.choice(["mz", "mz", "mz", "both", "it"])
            k = nb if rng.random() < 0.35 else rng.randint(1, nb)
            t = sp[i]
            if what in ("mz", "both"):
                t["mz"] = list(base["mz"][:k])
                if what == "both":
                    t["it"] = list(base["it"][:k])
                elif exact:
                    t["it"] = [float(rng.choice([1, 2, 3, 5, 8, 100, 1000, rng.randint(0, 2047)])) for _ in range(k)]
                else:
                    t["it"] = [float(np.float32(rng.uniform(0.5, 5000.0))) for _ in range(k)]
                links[str(i)] = {"mz": b, "it": b} if what == "both" else {"mz": b}
            else:  # the intensities alone: the leading part of the base's, on the spectrum's own (shortened) axis
                k = min(len(t["mz"]), nb)
                t["mz"], t["it"] = list(t["mz"][:k]), list(base["it"][:k])
                links[str(i)] = {"it": b}
        # file order: the group next to its base, the base first, last or in between (consecutive in the dict)
        if rng.random() < 0.8:
            members = [sp[i] for i in group]
            rng.shuffle(members)
            at = rng.randint(0, len(members))
            block = members[:at] + [base] + members[at:]
            rest = [t for j, t in enumerate(sp) if j != b and j not in group]
            cut = rng.randint(0, len(rest))
            new = rest[:cut] + block + rest[cut:]
            ident = {id(t): j for j, t in enumerate(new)}
            links = {str(ident[id(sp[int(i)])]): {w: ident[id(base)] for w in v} for i, v in links.items()}
            sp[:] = new
        case["share"] = links
        # targets on the peaks of the stored axis, the last ones first (beyond the shorter leading parts)
        tail = list(base["mz"][max(0, nb - 3):]) + rng.sample(base["mz"], min(nb, 2))
        w = {"kind": "mz", "value": rng.choice([0.0078125, 0.125, 1.0])} if exact and rng.random() < 0.7 else dict(case["width"])
        x = {"op": "extract", "masses": [m for m in tail if m > 0] or list(case["masses"]), "width": w}
        x["targ"] = self.pick_targ(rng, x["masses"], w)
        case["_share_extra"] = x

    def pick_targ(self, rng, masses, width, scalar=None):
        integral = all(float(m).is_integer() and 0 < abs(m) < 2 ** 31 for m in masses)
        if scalar is None:
            scalar = len(masses) == 1 and rng.random() < 0.5
        if scalar and len(masses) == 1:
            pool = ["pyfloat", "pyfloat", "np-f8", "0d-f8", "np-f4"]
            ipool = ["pyint", "pyint", "np-i8"]
        else:
            pool = ["list", "list", "f8", "f8", "tuple", "f8-strided", "f4"]
            ipool = ["list-int", "list-int", "i8", "i4", "tuple-int", "list-mixed"]
        mt = rng.choice(ipool) if integral and rng.random() < 0.7 else rng.choice(pool)
        w = width["value"]
        wint = float(w).is_integer() and 0 < w < 2 ** 31
        r = rng.random()
        wt = ("int" if wint else "float") if r < 0.5 else "np-f8" if r < 0.6 else "np-f4" if r < 0.65 else "float"
        if mt == "i4" and wt == "int" and width["kind"] == "ppm" and max(abs(m) for m in masses) * w >= 2 ** 31:
            wt = "float"   # int32 * int: NumPy wraps around (noted in notes/EC05.md; a 25 % window at m/z > 8000)
        return {"mt": mt, "wt": wt, "pos": rng.random() < 0.2}

    def gen_extra(self, rng, case):
        sp = case["spectra"]
        exact = case["kind"] == "exact"
        peaks = sorted({m for s in sp for m in s["mz"]})
        r = rng.random()
        if r < 0.1:
            return {"op": "again"}
        if r < 0.16:
            return {"op": rng.choice(["tic", "range"])}

        def width_for(masses):
            if exact:
                if rng.random() < 0.6:
                    return {"kind": "mz", "value": rng.choice([0.0, 0.03125, 0.125, 0.5, 1.0, 1.0, 2.0, 4.0, 64.0])}
                return {"kind": "ppm", "value": rng.choice([15625.0, 62500.0, 250000.0, 1e6 / 2 ** rng.randint(2, 9)])}
            if rng.random() < 0.5:
                return {"kind": "mz", "value": rng.choice([0.1, 0.33, 1.0, 1.7, 40.0])}
            return {"kind": "ppm", "value": rng.choice([10.0, 25.0, 5000.0, 1e5])}

        k = rng.random()
        base = case["masses"]
        if k < 0.3 and peaks:
            # nominal (integer) masses next to recorded peaks, mostly with integer-typed arguments
            cand = sorted({float(round(p)) for p in peaks if round(p) >= 1})
            masses = rng.sample(cand, min(len(cand), rng.randint(1, 4))) if cand else list(base)
            width = width_for(masses)
            if width["kind"] == "mz" and rng.random() < 0.7:
                width["value"] = rng.choice([1.0, 1.0, 2.0, 0.5, 3.0])
        elif k < 0.45 and peaks:
            # targets ON recorded peaks
            masses = rng.sample(peaks, min(len(peaks), rng.randint(1, 4)))
            width = width_for(masses)
        elif k < 0.65 and peaks:
            # adjacent windows [e - w, e), [e, e + w), ... with a recorded peak exactly on a shared edge e
            width = {"kind": "mz", "value": rng.choice([0.125, 0.5, 1.0, 2.0, 8.0]) if exact else rng.choice([0.5, 1.0, 1.7])}
            w, e = width["value"], rng.choice(peaks)
            n, j = rng.randint(2, 6), rng.randint(0, 4)
            masses = [e - w / 2 + (i - j) * w for i in range(n)]
            masses = [m for m in masses if m > 0] or [e + w / 2]
            if rng.random() < 0.4:
                rng.shuffle(masses)
        elif k < 0.73:
            # hundreds of targets: unsorted, with duplicates, windows overlapping
            lo, hi = (min(peaks), max(peaks)) if peaks else (96.0, 160.0)
            n = rng.randint(100, 400)
            step = max((hi - lo), 1.0) / 64
            masses = [lo + rng.randint(-8, 72) * step for _ in range(n)]
            masses = [m for m in masses if m > 0] or [lo]
            width = width_for(masses)
            if width["kind"] == "mz":
                width["value"] = rng.choice([step, 2 * step, step / 2])
        elif k < 0.83:
            # the targets of the main extraction repeated and reversed: duplicates
            masses = list(base) + list(reversed(base))
            width = width_for(masses)
        elif k < 0.9 and peaks:
            # one window that holds every recorded peak
            lo, hi = min(peaks), max(peaks)
            masses = [(lo + hi) / 2]
            width = {"kind": "mz", "value": 2 * (hi - lo) + rng.choice([2.0, 0.25])}
        else:
            masses = list(base)
            width = width_for(masses)
        if rng.random() < 0.12:
            x = {"op": "load", "how": rng.choice(["path", "object"]), "masses": masses,
                 "ppm": rng.choice([None, 15625.0, 62500.0, 250000.0] if exact else [None, 10.0, 5000.0])}
            x["targ"] = self.pick_targ(rng, masses, {"kind": "ppm", "value": x["ppm"] or 10.0})
            return x
        return {"op": "extract", "masses": masses, "width": width, "targ": self.pick_targ(rng, masses, width)}

    DTYPES = ["u1", "u2", "u4", "u8", "f4", "f8"]

    def gen_reads(self, rng, case):
        """offsets / lengths / dtypes for direct calls of Spectrum.get_binary_data on the .ibd of the case"""
        import random
        prng = random.Random(case["pad"]) if case["pad"] is not None else None
        ibd, metas = gen_imzml.layout_ibd(case["spectra"], case["mzdt"], case["itdt"], shared=case["shared"], rng=prng,
                                          intensity_first=case["ifirst"], links=case.get("share"))
        L = len(ibd)
        out = []
        for _ in range(rng.choice([1, 1, 2, 3])):
            k = rng.random()
            dt = rng.choice(self.DTYPES)
            if k < 0.35:  # one of the arrays the imzML points to, with its own or another element type
                m = rng.choice(metas)
                which = rng.choice(["mz", "it"])
                off, ln = m[which][0], m[which][1]
                if rng.random() < 0.6:
                    dt = case["mzdt"] if which == "mz" else case["itdt"]
            elif k < 0.6:  # anywhere inside the file
                off = rng.randint(0, L)
                ln = rng.randint(0, L - off)
                if rng.random() < 0.5:
                    ln -= ln % int(dt[1:])
            elif k < 0.85:  # across the end of the file: read() returns fewer bytes
                off = rng.randint(max(0, L - 12), L)
                ln = (L - off) + rng.randint(1, 16)
            else:  # at or beyond the end: nothing to read
                off = L + rng.randint(0, 8)
                ln = rng.choice([0, 4, 8, 7])
            past = "empty-read" if ln == 0 else "beyond-end" if off >= L else "across-end" if off + ln > L else None
            out.append({"off": off, "len": ln, "dt": dt, "order": "big" if rng.random() < 0.2 else "little", "past": past})
        return out

    def off_domain(self, rng, case):
        """positions / sizes outside the property's quantifier (impl vs model only): position 0 (NumPy subscript -1:
        last row / column), negative positions, positions beyond the stated size (IndexError), a position recorded
        twice (dict: last value, first place), two positions on one pixel, empty and negative sizes, nothing at all"""
        sp = case["spectra"]
        kinds = ["size-small", "size-zero", "size-neg"] if case["size"] is not None else []
        if sp:
            kinds += ["zero-x", "zero-y", "zero-x", "negative", "negative", "beyond", "nothing"]
        if len(sp) >= 2:
            kinds += ["dup", "dup", "alias", "alias"]
        if not kinds:
            return
        k = rng.choice(kinds)
        X = case["size"][0] if case["size"] is not None else max(s["x"] for s in sp)
        Y = case["size"][1] if case["size"] is not None else max(s["y"] for s in sp)
        if k in ("dup", "alias"):
            # two distinct spectra are needed to see which one is kept: never a shared description
            case["shared"] = case["shared"] and all(s["mz"] == sp[0]["mz"] for s in sp)
        if k == "zero-x":
            rng.choice(sp)["x"] = 0
        elif k == "zero-y":
            rng.choice(sp)["y"] = 0
        elif k == "negative":
            t = rng.choice(sp)
            if rng.random() < 0.5:
                t["x"] = -rng.randint(1, X + 1)
            else:
                t["y"] = -rng.randint(1, Y + 1)
        elif k == "beyond":
            t = rng.choice(sp)
            if rng.random() < 0.5:
                t["x"] = X + rng.randint(1, 2)
            else:
                t["y"] = Y + rng.randint(1, 2)
        elif k == "dup":
            i, j = rng.sample(range(len(sp)), 2)
            sp[j]["x"], sp[j]["y"] = sp[i]["x"], sp[i]["y"]
        elif k == "alias":
            i, j = rng.sample(range(len(sp)), 2)
            if rng.random() < 0.5:
                sp[i]["x"], sp[j]["x"], sp[j]["y"] = 0, X, sp[i]["y"]
            else:
                sp[i]["y"], sp[j]["y"], sp[j]["x"] = 0, Y, sp[i]["x"]
            if len(sp) >= 3 and rng.random() < 0.6:  # and the first position once more: the dict keeps its place
                l = next(n for n in range(len(sp)) if n not in (i, j))
                sp[l]["x"], sp[l]["y"] = sp[min(i, j)]["x"], sp[min(i, j)]["y"]
        elif k == "size-small":
            case["size"] = [max(0, X - rng.randint(0, 1)), max(0, Y - rng.randint(0, 1))]
            if case["size"] == [X, Y]:
                case["size"] = [max(0, X - 1), Y]
        elif k == "size-zero":
            case["size"] = rng.choice([[0, Y], [X, 0], [0, 0]])
        elif k == "size-neg":
            case["size"] = rng.choice([[-1, Y], [X, -2]])
        elif k == "nothing":
            case["spectra"], case["size"], case["binw"], case["reads"] = [], None, case["binw"], []

    def generate_main(self, rng, tier):
        real = rng.random() < 0.15
        if not real and rng.random() < 0.2:
            return self.generate_f32edge(rng)
        X, Y = rng.choice([(1, 1), (1, 1), (1, 2), (2, 1), (2, 2), (3, 2), (2, 3), (1, 4), (4, 1), (3, 3), (4, 4)])
        cells = [(x, y) for y in range(1, Y + 1) for x in range(1, X + 1)]
        mode = rng.random()
        if mode < 0.25:
            pos = list(cells)
        elif mode < 0.3:
            pos = []
        else:
            pos = [p for p in cells if rng.random() < 0.6] or [rng.choice(cells)]
        rng.shuffle(pos)
        size = [X, Y]
        if pos and rng.random() < 0.3:
            size = None
        mzdt, itdt = rng.choice(["f4", "f8"]), rng.choice(["f4", "f8"])
        # width and masses first, so that spectra can put peaks exactly on the edges
        if real:
            width = {"kind": rng.choice(["ppm", "mz"]), "value": 0.0}
            width["value"] = rng.choice([10.0, 25.0, 5000.0, 1e5]) if width["kind"] == "ppm" else rng.choice([0.1, 0.33, 1.7, 40.0])
            masses = [round(rng.uniform(95.0, 165.0), rng.choice([1, 3, 6])) for _ in range(rng.randint(1, 5))]
        else:
            if rng.random() < 0.5:
                width = {"kind": "ppm", "value": 1e6 / 2 ** rng.randint(2, 9)}
            else:
                width = {"kind": "mz", "value": rng.choice([0.0, 0.125, 0.25, 0.5, 1.0, 2.0, 8.0, 64.0, 128.0])}
            masses = [rng.randint(96 * 16, 160 * 16) / 16 for _ in range(rng.randint(1, 5))]
            if rng.random() < 0.25 and len(masses) > 1:
                masses[1] = masses[0] + rng.choice([0.0, 0.0625, 0.25])  # overlapping / identical windows
        edges = []
        for m in masses:
            h = F(m) * F(width["value"]) / 10 ** 6 / 2 if width["kind"] == "ppm" else F(width["value"]) / 2
            edges += [F(m) - h, F(m) + h]
        nshared = rng.random() < 0.25

        def axis():
            n = rng.choice([1, 1, 2, 2, 3, 4, 5, 6, 8])
            if real:
                vals = {float(np.float32(rng.uniform(95.0, 165.0))) for _ in range(n)}
            else:
                vals = set()
                while len(vals) < n:
                    r = rng.random()
                    if r < 0.45 and edges and width["kind"] == "mz":
                        e = rng.choice(edges)
                        if 0 < e < 256:
                            vals.add(float(e))
                            continue
                    if r < 0.6 and masses:
                        vals.add(float(rng.choice(masses)))
                        continue
                    vals.add(rng.randint(94 * 64, 162 * 64) / 64)
            return sorted(vals)

        shared_axis = axis()
        spectra = []
        for (x, y) in pos:
            mz = list(shared_axis) if nshared else axis()
            if real:
                it = [float(np.float32(rng.uniform(0.5, 5000.0))) for _ in mz]
            else:
                it = [float(rng.choice([0, 1, 2, 3, 5, 8, 100, 1000, 2047, rng.randint(0, 2047)])) for _ in mz]
            spectra.append({"x": x, "y": y, "mz": mz, "it": it, "tic": self.gen_tic(rng, sum(it))})
        # a dominant peak below every window (m/z < 30 < 96 - 128/2): the window sums stay small exact integers,
        # but any implementation that lets peaks OUTSIDE the window take part in float32 arithmetic
        # (running totals, subtraction of prefix sums) rounds them away.  The summed TIC / binning would be
        # inexact in float32 for such spectra, so the TIC is stored and binning is skipped.
        dominant = (not real) and itdt == "f4" and bool(spectra) and not nshared and rng.random() < 0.5
        if dominant:
            for sp in spectra:
                if rng.random() < 0.7:
                    big = float(2 ** rng.choice([25, 27, 30]))
                    sp["mz"] = [rng.randint(1 * 64, 29 * 64) / 64] + sp["mz"]
                    sp["it"] = [big] + sp["it"]
                    sp["tic"] = float(rng.choice([0.0, 7.25, 1536.0]))
        binw = None
        if spectra and not real and not dominant and rng.random() < 0.55:
            binw = rng.choice([0.25, 0.5, 1.0, 1.0, 2.0, 4.0, 16.0])
            if rng.random() < 0.6 and not nshared:
                self.densify(rng, spectra, binw)
        if rng.random() < 0.3:
            rng.shuffle(masses)
        return {"kind": "real" if real else "exact", "size": size, "mzdt": mzdt, "itdt": itdt, "shared": nshared,
                "ifirst": rng.random() < 0.3, "pad": rng.randint(0, 10 ** 6) if rng.random() < 0.5 else None,
                "spectra": spectra, "masses": masses, "scalar": len(masses) == 1 and rng.random() < 0.5,
                "width": width, "binw": binw, "style": rng.randint(0, gen_imzml.NSTYLES - 1)}

    def generate_f32edge(self, rng):
        """exact-intensity stream, 32-bit m/z next to window edges that are NOT float32 values: decimal target masses
        and widths (absolute and ppm), peaks on float32(e) and on its float32 neighbours for the edges e = m -/+ w/2.
        The stored peaks are at least ~6e-8 relative away from the edge (one float32 step), far outside the 1e-9
        guard that covers the float64 rounding of the edge expression itself."""
        X, Y = rng.choice([(1, 1), (1, 1), (1, 2), (2, 1), (2, 2), (3, 2), (2, 3), (3, 3)])
        cells = [(x, y) for y in range(1, Y + 1) for x in range(1, X + 1)]
        pos = list(cells) if rng.random() < 0.3 else ([p for p in cells if rng.random() < 0.6] or [rng.choice(cells)])
        rng.shuffle(pos)
        size = None if rng.random() < 0.3 else [X, Y]
        mzdt = "f4" if rng.random() < 0.85 else "f8"
        itdt = rng.choice(["f4", "f8"])
        if rng.random() < 0.5:
            width = {"kind": "mz", "value": rng.choice([0.2, 0.2, 0.33, 0.1, 0.05, 0.7, 1.7, 3.3])}
        else:
            width = {"kind": "ppm", "value": rng.choice([10.0, 25.0, 50.0, 100.0, 500.0, 5000.0])}

        def half(m):
            return m * width["value"] / 1e6 / 2.0 if width["kind"] == "ppm" else width["value"] / 2.0

        masses = []
        for _ in range(rng.randint(1, 5)):
            if rng.random() < 0.3:
                masses.append(rng.choice([499.9, 500.1, 500.3, 120.7, 250.15, 999.9]))
            else:
                masses.append(round(rng.uniform(100.0, 1000.0), rng.choice([1, 1, 2, 3])))
        if len(masses) > 1 and rng.random() < 0.25:
            # adjacent windows (upper edge of one next to the lower edge of the other) / identical windows
            masses[1] = rng.choice([masses[0], round(masses[0] + 2 * half(masses[0]), 6)])
        f32, inf = np.float32, np.float32(np.inf)
        cands = []
        for m in masses:
            for e in (m - half(m), m + half(m)):
                c = f32(e)
                near = [c, np.nextafter(c, -inf), np.nextafter(c, inf)]
                # an edge that (nearly) is a float32 value: a peak on it would fall inside the guard, keep its neighbours only
                cands.append([float(v) for v in near if abs(float(v) - e) > 1e-8 * abs(e)])
                if rng.random() < 0.2:
                    cands.append([float(np.nextafter(near[1], -inf)), float(np.nextafter(near[2], inf))])
        nshared = rng.random() < 0.2

        def axis():
            n = rng.choice([1, 1, 2, 2, 3, 4, 5, 6, 8])
            vals = set()
            while len(vals) < n:
                r = rng.random()
                if r < 0.7:
                    vals.add(rng.choice(rng.choice(cands)))
                elif r < 0.8:
                    vals.add(float(f32(rng.choice(masses))))
                else:
                    vals.add(rng.randint(100 * 64, 1000 * 64) / 64)
            return sorted(vals)

        shared_axis = axis()
        spectra = []
        for (x, y) in pos:
            mz = list(shared_axis) if nshared else axis()
            it = [float(rng.choice([1, 2, 3, 5, 8, 100, 1000, 2047, rng.randint(0, 2047)])) for _ in mz]
            spectra.append({"x": x, "y": y, "mz": mz, "it": it, "tic": self.gen_tic(rng, sum(it))})
        if rng.random() < 0.3:
            rng.shuffle(masses)
        return {"kind": "exact", "size": size, "mzdt": mzdt, "itdt": itdt, "shared": nshared,
                "ifirst": rng.random() < 0.3, "pad": rng.randint(0, 10 ** 6) if rng.random() < 0.5 else None,
                "spectra": spectra, "masses": masses, "scalar": len(masses) == 1 and rng.random() < 0.5,
                "width": width, "binw": None, "style": rng.randint(0, gen_imzml.NSTYLES - 1)}

    def densify(self, rng, spectra, w):
        """rewrite some spectra so that every bin of arange(min, max + w, w) holds one of their peaks and
        the last bin holds the global maximum (the class for which binned_masses is proved correct)"""
        K = rng.choice([1, 2, 2, 3, 4, 6])
        lo = rng.randint(96 * 4, 150 * 4) / 4
        hi = lo + (K - 1) * w
        chosen = {i for i in range(len(spectra)) if rng.random() < 0.7} or {0}
        for i, s in enumerate(spectra):
            if i in chosen:
                mz = []
                for k in range(K - 1):
                    base = lo + k * w
                    offs = sorted({0.0 if (k == 0 and (i == 0 or rng.random() < 0.5)) else rng.randint(0, 15) * w / 16
                                   for _ in range(rng.choice([1, 1, 2]))})
                    mz += [base + o for o in offs]
                mz.append(hi)
                if rng.random() < 0.15 and K > 2:  # leave one bin empty after all
                    del mz[1]
            else:
                n = rng.randint(1, 4)
                mz = sorted({lo + rng.randint(0, max(0, int((hi - lo) * 16))) / 16 for _ in range(n)})
            s["mz"] = mz
            s["it"] = [float(rng.choice([1, 2, 4, 8, 16, rng.randint(0, 2047)])) for _ in mz]
        # guarantee the global extremes
        spectra[0]["mz"] = sorted(set(spectra[0]["mz"]) | {lo, hi})
        spectra[0]["it"] = [float(2 ** (j % 10)) for j in range(len(spectra[0]["mz"]))]

    def targeted(self, tier):
        base = {"kind": "exact", "size": [1, 1], "mzdt": "f8", "itdt": "f4", "shared": False, "ifirst": False, "pad": None,
                "scalar": False, "binw": None, "style": 0}
        sp = {"x": 1, "y": 1, "mz": [100.0, 200.0, 300.0, 400.0], "it": [1.0, 2.0, 4.0, 8.0], "tic": None}
        # the documented failing input of the repaired defect: empty window, last peak, above the spectrum
        yield {**base, "spectra": [sp], "masses": [250.0, 400.0, 500.0, 50.0, 100.0], "width": {"kind": "mz", "value": 2.0}}
        # peaks exactly on the lower (included) and upper (excluded) edge
        yield {**base, "spectra": [sp], "masses": [101.0, 99.0, 399.0, 401.0], "width": {"kind": "mz", "value": 2.0}}
        yield {**base, "spectra": [{**sp, "mz": [100.0], "it": [7.0]}], "masses": [100.0], "scalar": True,
               "width": {"kind": "ppm", "value": 1e6 / 64}}
        # sparse 2x3 image without a stated size, unsorted overlapping windows, bins
        yield {**base, "size": None, "mzdt": "f4", "itdt": "f8",
               "spectra": [{**sp, "x": 2, "y": 3, "tic": "15.000000"}, {**sp, "x": 1, "y": 2, "mz": [150.0, 250.0], "it": [3.0, 5.0]}],
               "masses": [300.0, 150.0, 200.0], "width": {"kind": "mz", "value": 128.0}, "binw": 64.0}
        # dense bins: every bin holds a peak, the last bin holds the last peak
        yield {**base, "spectra": [{**sp, "mz": [100.0, 100.5, 101.25, 102.0]}], "masses": [101.0],
               "width": {"kind": "mz", "value": 1.0}, "binw": 1.0}
        yield {**base, "spectra": [{**sp, "mz": [100.0], "it": [9.0]}], "masses": [101.0],
               "width": {"kind": "mz", "value": 1.0}, "binw": 0.5}
        # 32-bit m/z, window edges that are not float32 values, peaks on the float32 neighbours of each edge
        f32, inf = np.float32, np.float32(np.inf)
        for m, width in ((500.0, {"kind": "mz", "value": 0.2}), (500.2, {"kind": "mz", "value": 0.2}),
                         (120.7, {"kind": "mz", "value": 0.33}), (500.0, {"kind": "ppm", "value": 100.0}),
                         (731.3, {"kind": "ppm", "value": 25.0})):
            h = m * width["value"] / 1e6 / 2.0 if width["kind"] == "ppm" else width["value"] / 2.0
            mz = sorted({float(v) for e in (m - h, m + h) for c in [f32(e)]
                         for v in (np.nextafter(c, -inf), c, np.nextafter(c, inf))} | {float(f32(m))})
            yield {**base, "mzdt": "f4", "spectra": [{**sp, "mz": mz, "it": [float(2 ** j) for j in range(len(mz))]}],
                   "masses": [m], "width": width}
        # no spectrum at all
        yield {**base, "size": [2, 1], "spectra": [], "masses": [101.0], "width": {"kind": "mz", "value": 1.0}}
        # ---- extension round
        # peaks that dominate the windows' contents by more than 2^53 (2^24): below, between and above the windows
        w2 = {"kind": "mz", "value": 2.0}
        for itdt in ("f8", "f4"):
            yield {**base, "itdt": itdt, "spectra": [{**sp, "mz": [50.0, 100.0, 101.0], "it": [1e17, 1.0, 2.0], "tic": "3"}],
                   "masses": [100.5], "width": w2}
            yield {**base, "itdt": itdt, "mzdt": "f4", "size": [2, 1],
                   "spectra": [{**sp, "mz": [50.0, 100.0, 150.0, 200.0, 250.0], "it": [1e17, 1.0, 2.0 ** 60, 2.0, 1e30], "tic": None},
                               {**sp, "x": 2, "mz": [100.0, 101.0, 102.0], "it": [6.0, 2.0 ** 70, 10.0], "tic": "16"}],
                   "masses": [200.0, 100.0, 102.0], "width": w2}
        yield {**base, "itdt": "f8", "spectra": [{**sp, "mz": [99.0, 100.0, 300.0], "it": [1e300, 5.0, 1e200], "tic": None}],
               "masses": [100.0, 99.0], "width": w2}
        # stored and absent TIC along the file, both orders and alternating (both parsers read every file)
        four = [{**sp, "x": x, "y": y, "it": [float(k), 2.0, 4.0, 8.0]} for k, (x, y) in enumerate([(1, 1), (2, 1), (1, 2), (2, 2)])]
        for tics in (["12.5", None, None, None], [None, "12.5", "1e+03", "7"], ["1", None, "2.5", None], [None, "3", None, "4.000000e+00"],
                     ["1", "2", "3", None]):
            yield {**base, "size": [2, 2], "spectra": [{**t, "tic": v} for t, v in zip(four, tics)], "masses": [100.0], "width": w2}
        # integer-typed targets / widths (nominal masses), every way of writing them
        for mt, wt, wv in (("list-int", "float", 1.0), ("pyint", "float", 1.0), ("i4", "int", 2), ("i8", "float", 1.0),
                           ("tuple-int", "int", 3), ("np-i8", "np-f8", 1.0), ("list-mixed", "float", 1.0), ("f4", "np-f4", 1.0),
                           ("f8-strided", "int", 1), ("0d-f8", "float", 1.0), ("np-f4", "float", 0.5), ("tuple", "np-f8", 1.0)):
            ms = [300.0] if mt in SCALAR_MT else [300.0, 100.0, 401.0]
            yield {**base, "spectra": [sp], "masses": ms, "scalar": mt in SCALAR_MT, "width": {"kind": "mz", "value": wv},
                   "targ": {"mt": mt, "wt": wt}}
            yield {**base, "spectra": [sp], "masses": ms, "scalar": mt in SCALAR_MT, "width": {"kind": "ppm", "value": 15625.0},
                   "targ": {"mt": mt, "wt": "int" if wt == "int" else wt}}
        # adjacent half-open windows: a peak on the shared edge belongs to the upper window only
        tri = {**sp, "mz": [99.0, 100.0, 101.0, 101.5], "it": [1.0, 2.0, 4.0, 8.0]}
        yield {**base, "spectra": [tri], "masses": [99.5, 100.5, 101.5, 98.5], "width": {"kind": "mz", "value": 1.0}}
        # hundreds of targets, unsorted with duplicates
        yield {**base, "spectra": [tri, {**tri, "x": 2, "it": [16.0, 32.0, 64.0, 128.0]}], "size": [2, 1],
               "masses": [98.0 + ((7 * k) % 64) / 8 for k in range(256)], "width": {"kind": "mz", "value": 0.25}}
        # histories on one object: two extractions with other targets / widths / types, load(), a repeated call, reordered
        hist = [{"op": "extract", "masses": [100.0, 101.0], "width": {"kind": "mz", "value": 1.0}, "targ": {"mt": "list-int", "wt": "int"}},
                {"op": "again"}, {"op": "load", "how": "object", "masses": [100.0], "ppm": None, "targ": {"mt": "pyfloat", "wt": "float"}},
                {"op": "load", "how": "path", "masses": [100.0, 101.5], "ppm": 15625.0, "targ": {"mt": "f8", "wt": "float"}},
                {"op": "tic"}, {"op": "range"}]
        for order in (None, 1, 2, 3):
            yield {**base, "spectra": [tri, {**tri, "x": 2, "tic": "7.5"}], "size": [2, 1], "masses": [99.5], "binw": 0.5,
                   "width": {"kind": "ppm", "value": 15625.0}, "extra": hist, "order": order}
        # spectra sharing external arrays: one stored axis of 8 points, pixels recording leading parts of it
        ax = [100.0 + k for k in range(8)]
        for lens in ([1, 3, 5, 8, 8], [8, 8, 5, 3, 1], [3, 8, 1, 8, 5], [8, 8, 8, 8, 8]):
            b = lens.index(8)
            sps = [{**sp, "x": k + 1, "mz": ax[:n], "it": [float(2 ** (k + j)) for j in range(n)], "tic": None} for k, n in enumerate(lens)]
            yield {**base, "size": [5, 1], "spectra": sps, "masses": [104.0, 100.0, 107.0, 102.0], "width": {"kind": "mz", "value": 1.0},
                   "share": {str(k): {"mz": b} for k in range(5) if k != b}}
        sps = [{**sp, "x": 1, "mz": ax[:4], "it": [1.0, 2.0, 4.0, 8.0]}, {**sp, "x": 2, "mz": ax[:2], "it": [1.0, 2.0]},
               {**sp, "x": 3, "mz": [99.0, 101.5, 103.0], "it": [1.0, 2.0, 4.0]}]
        yield {**base, "size": [3, 1], "spectra": sps, "masses": [101.0, 103.0], "width": {"kind": "mz", "value": 1.0},
               "share": {"1": {"mz": 0, "it": 0}, "2": {"it": 0}}}
        # 1xN and Nx1 images with the first / last pixel missing, a single recorded pixel
        for size, pos in (([7, 1], [(2, 1), (7, 1), (4, 1)]), ([1, 9], [(1, 1), (1, 8)]), ([5, 6], [(3, 4)]), (None, [(1, 12), (1, 3)])):
            yield {**base, "size": size, "spectra": [{**tri, "x": x, "y": y} for (x, y) in pos], "masses": [100.0], "width": w2}
        # ---- outside the quantifier, implementation vs model only: positions as NumPy subscripts, the dict of spectra
        w1 = {"masses": [100.0, 250.0], "width": {"kind": "mz", "value": 2.0}}
        a, b, c = ({**sp, "it": [float(k), 2.0, 4.0, 8.0], "tic": None} for k in (1, 16, 32))
        for size, pos in (([2, 2], [(0, 1)]), ([2, 2], [(1, 0)]), ([2, 2], [(3, 1)]), ([2, 2], [(1, 3)]), ([2, 2], [(-1, 1)]),
                          ([2, 2], [(-2, 1)]), ([2, 2], [(-1, -1)]), ([2, 2], [(0, 1), (2, 1)]), ([2, 2], [(2, 1), (0, 1)]),
                          ([2, 2], [(0, 1), (2, 1), (0, 1)]), ([1, 1], [(1, 1), (1, 1)]), ([2, 1], [(1, 1), (2, 1), (1, 1)]),
                          (None, [(0, 1), (2, 1)]), (None, [(0, 0)]), (None, [(-1, 1)]), (None, []), ([0, 1], [(1, 1)]),
                          ([-1, 1], [(1, 1)]), ([1, 1], [(2, 1)]), ([0, 0], [])):
            yield {**base, **w1, "size": size, "binw": 64.0,
                   "spectra": [{**t, "x": x, "y": y} for t, (x, y) in zip((a, b, c), pos)]}
        # ---- the external binary, directly: whole arrays, every element type, both byte orders, reads that end after
        # the file, start beyond it, and lengths that are no whole number of elements (16 bytes UUID + 32 + 16 bytes)
        rd = lambda off, ln, dt, order="little", past=None: {"off": off, "len": ln, "dt": dt, "order": order, "past": past}
        yield {**base, **w1, "spectra": [sp],
               "reads": [rd(16, 32, "f8"), rd(48, 16, "f4"), rd(16, 32, "f8", "big"), rd(48, 16, "f4", "big"), rd(16, 32, "u8"),
                         rd(48, 16, "u4"), rd(17, 6, "u2"), rd(19, 5, "u1"), rd(48, 16, "u2", "big")]}
        yield {**base, **w1, "spectra": [sp],
               "reads": [rd(56, 16, "f4", past="across-end"), rd(60, 8, "f8", past="across-end"), rd(64, 8, "f4", past="beyond-end"),
                         rd(70, 0, "f8", past="empty-read"), rd(16, 31, "f8"), rd(16, 30, "f4"), rd(0, 64, "u8"), rd(61, 9, "u2", past="across-end")]}

    # ------------------------------------------------------------------ evaluation
    @staticmethod
    def targ_of(case):
        """argument types of the main extraction; cases written before the argument-type class have none: the types
        the harness used then (a Python float, a float64 ndarray or a list of floats; a Python float width)"""
        t = case.get("targ")
        if t:
            return t.get("mt", "list"), t.get("wt", "float")
        if case.get("scalar"):
            return "pyfloat", "float"
        return ("f8" if case.get("style", 0) % 2 else "list"), "float"

    def call_list(self, case):
        """the calls made on ONE ImzML object, in order: (key, descriptor).  `extract`, `tic`, `range`, `binned` are the
        four observation points of the property; `x<i>` are further calls of the same methods (other targets / widths /
        argument types, repeated calls, `load`) - a history: nothing a call leaves behind may change a later result"""
        calls = [("extract", {"op": "extract", "main": True}), ("tic", {"op": "tic"}), ("range", {"op": "range"})]
        if case.get("binw") is not None:
            calls.append(("binned", {"op": "bins", "w": case["binw"]}))
        for i, x in enumerate(case.get("extra") or []):
            calls.append((f"x{i}", x))
        if case.get("order") is not None:
            import random
            random.Random(case["order"]).shuffle(calls)
        return calls

    def call_args(self, case, c):
        """an extraction-like call: (target object, width argument(s), exact target values, (kind, exact width), mt, wt)"""
        op = c["op"]
        if op == "again" or c.get("main"):
            masses, width = case["masses"], case["width"]
            mt, wt = self.targ_of(case)
        else:
            masses, width = c["masses"], c.get("width")
            t = c.get("targ") or {}
            mt, wt = t.get("mt", "list"), t.get("wt", "float")
        obj, mvals = build_target(masses, mt)
        if op == "load":
            if c.get("ppm") is None:
                return obj, None, mvals, ("ppm", F(10)), mt, "float"
            wobj, wval = build_width(c["ppm"], wt)
            return obj, wobj, mvals, ("ppm", wval), mt, wt
        wobj, wval = build_width(width["value"], wt)
        kw = {"mass_width_ppm": wobj} if width["kind"] == "ppm" else {"mass_width_mz": wobj}
        return obj, kw, mvals, (width["kind"], wval), mt, wt

    def observe(self, case, path, ibdp, fast):
        """everything the property observes, through one parser, on one object, in the order of the history"""
        from pewlib.io import imzml as M

        api = case.get("api") or {}
        arg = str(path) if api.get("str") else path
        kw0 = {}
        if ibdp != path.with_suffix(".ibd") or api.get("ibd-arg"):
            kw0["external_binary"] = str(ibdp) if api.get("str") else ibdp
        try:
            imz = M.ImzML.from_file(arg, use_fast_parse=True, **kw0) if fast else M.ImzML.from_file(arg, **kw0)
        except Exception as e:
            return None, {"raises": type(e).__name__, "msg": str(e)[:160]}, None

        def extract(obj, kw, positional):
            if positional:  # extract_masses(target_masses, mass_width_ppm, mass_width_mz)
                return imz.extract_masses(obj, kw.get("mass_width_ppm"), kw.get("mass_width_mz"))
            return imz.extract_masses(obj, **kw)
        impl, impl_bins = {}, None
        for key, c in self.call_list(case):
            op = c["op"]
            if op in ("extract", "again"):
                obj, kw, *_ = self.call_args(case, c)
                posl = bool(((case.get("targ") if (c.get("main") or op == "again") else c.get("targ")) or {}).get("pos"))
                r = call(lambda: extract(obj, kw, posl))
                impl[key] = r if isinstance(r, dict) else canon_pixels(r)
            elif op == "load":
                obj, wobj, *_ = self.call_args(case, c)
                src = imz if c.get("how") == "object" else path
                src = str(src) if (api.get("str") and src is path) else src
                r = call((lambda: M.load(src, ibdp, obj)) if wobj is None else (lambda: M.load(src, ibdp, obj, wobj)))
                if not isinstance(r, dict):
                    r = r[0] if isinstance(r, tuple) and len(r) == 2 else {"raises": "load-did-not-return-a-pair"}
                impl[key] = r if isinstance(r, dict) else canon_pixels(r)
            elif op == "tic":
                r = call(imz.extract_tic)
                impl[key] = r if isinstance(r, dict) else canon_pixels(r)
            elif op == "range":
                r = call(imz.mass_range)
                impl[key] = r if isinstance(r, dict) else [fr(r[0]), fr(r[1])]
            elif op == "bins":
                r = call(lambda: imz.binned_masses(c["w"]))
                if isinstance(r, dict):
                    impl[key] = r
                else:
                    b = np.asarray(r[0], dtype=float)
                    if b.ndim == 1 and np.all(np.isfinite(b)):
                        impl_bins = [F(float(v)) for v in b]
                    impl[key] = {"bins": [fr(v) for v in b.ravel()], "data": canon_pixels(r[1])}
        dct = self.observe_dict(imz)
        if dct is not None:
            impl["dict"] = dct
        return imz, impl, impl_bins

    def evaluate(self, case, ctx):
        import random

        d = ctx.tmpdir()
        specs = case["spectra"]
        prng = random.Random(case["pad"]) if case["pad"] is not None else None
        ibd, metas = gen_imzml.layout_ibd(specs, case["mzdt"], case["itdt"], shared=case["shared"], rng=prng,
                                          intensity_first=case["ifirst"], links=case.get("share"))
        doc = gen_imzml.simple_doc([(s["x"], s["y"]) for s in specs], [s["tic"] for s in specs], metas,
                                   size=case["size"], mzdt=case["mzdt"], itdt=case["itdt"], style=case["style"])
        path = gen_imzml.write_pair(d, doc, ibd)
        ibdp = path.with_suffix(".ibd")
        if (case.get("api") or {}).get("ibd-elsewhere"):
            # the external binary under another name in another directory: only the explicit argument finds it
            (d / "bin").mkdir(exist_ok=True)
            ibdp = ibdp.rename(d / "bin" / "data.bin.ibd")
        calls = self.call_list(case)

        # both parsers of the public entry point ImzML.from_file: the property speaks of every imzML/ibd pair
        # imported, not of the default parser; both are judged against the same Lean model and specification
        obs = {}
        fast_unjudged = False
        for name, fast in (("xml", False), ("fast", True)):
            imz, im, ib = self.observe(case, path, ibdp, fast)
            if fast and not specs and imz is None:
                # a document without any <spectrum>: the fast parser takes the <spectrumList> line for a spectrum and
                # raises KeyError (DESIGN 9.5, C17: outside the line layout it is written for) - recorded, not judged
                fast_unjudged = True
                continue
            obs[name] = {"ok": imz is not None, "impl": im, "bins": ib}
        reads = self.run_reads(case, ibdp, ibd)
        impl = {k: v["impl"] for k, v in obs.items()}
        if reads is not None:
            impl["reads"] = reads[0]

        # the same file, abstractly, for the model: the bytes of the .ibd as written, and per <spectrum> what was
        # written into the imzML (position, TIC text as the float it parses to, offset and encoded length of the arrays)
        fspecs = [{"x": s["x"], "y": s["y"], "tic": None if s["tic"] is None else core.rat(F(float(s["tic"]))),
                   "mz": [m["mz"][0], m["mz"][1]], "it": [m["it"][0], m["it"][1]]} for s, m in zip(specs, metas)]
        ffile = dict(size=case["size"], ibd=ibd.hex(), mzdt=case["mzdt"], itdt=case["itdt"], spectra=fspecs)

        # one driver call per extraction of the history; the targets / width are the exact values of what is PASSED
        # (a float32 array passes float32 values, an int array integers)
        ext = {}  # key -> {"rep", "mvals", "width", "mt", "wt"}
        rep = None
        for key, c in calls:
            if c["op"] not in ("extract", "again", "load"):
                continue
            _, _, mvals, (wkind, wval), mt, wt = self.call_args(case, c)
            fields = dict(masses=[core.rat(m) for m in mvals], width={"kind": wkind, "value": core.rat(wval)}, **ffile)
            if key == "extract":
                rep = ctx.driver.call("c05.image", **fields)
                r = rep
            else:
                r = ctx.driver.call("c05.extract", **fields)
            ext[key] = {"rep": r, "mvals": mvals, "wkind": wkind, "wval": wval, "mt": mt, "wt": wt}
        hyp = bool(rep["hyp"])
        dspecs = rep["values"]  # the arrays as the model decoded them from the bytes
        dvals = [([core.unrat(m) for m in s["mz"]], [core.unrat(v) for v in s["it"]]) for s in dspecs]

        def mimg(j, vec):
            return {"raises": True} if j is None else drv_table(j["table"], vec)

        def mrange(j):
            return {"raises": True} if j is None else [("inf", "-inf")[i] if v is None else qs(v) for i, v in enumerate(j)]

        model = {"tic": mimg(rep["tic_model"], False), "range": mrange(rep["range_model"]),
                 "dict": [[int(s["x"]), int(s["y"]), [qs(v) for v in s["mz"]], [qs(v) for v in s["it"]]] for s in rep["dict"]]}
        spec = {}
        for key, e in ext.items():
            model[key] = mimg(e["rep"]["extract_model"], True)
            if hyp:
                spec[key] = drv_table(e["rep"]["extract_spec"], True)
        if hyp:
            spec["tic"] = drv_table(rep["tic_spec"], False)
            if specs:
                spec["range"] = [qs(v) for v in rep["range_spec"]]
        else:
            spec = {"outside-the-quantifier": True}
        if reads is not None:
            model["reads"] = reads[1](ctx)
        # binning: the specification is evaluated on the edges the implementation returned (one driver call per
        # distinct edge list: the two parsers normally return the same one)
        breps = {}
        if case["binw"] is not None:
            for name, o in obs.items():
                if not o["ok"]:
                    continue
                k = None if o["bins"] is None else tuple(o["bins"])
                if k not in breps:
                    breps[k] = ctx.driver.call("c05.bins", w=core.rat(F(case["binw"])),
                                               impl_bins=None if k is None else [core.rat(v) for v in k], **ffile)
                o["brep"] = breps[k]
            brep0 = next(iter(breps.values()), None)
            if brep0 is not None:
                bm = brep0["model"]
                model["binned"] = {"raises": True} if bm is None else {"bins": [qs(v) for v in bm["bins"]],
                                                                      "data": drv_table(bm["table"], True)}

        # ---- tolerances.  Exact stream: 0 wherever the float sum is the exact sum for ANY order of summation (one
        # value, or integers whose absolute values add up to less than 2^24 / 2^53); a window (pixel total) that is
        # not summable exactly in the intensity type — a dominant peak inside it next to small ones — is
        # rounding-determined for every implementation: 8*n*eps*sum|it|.  Real stream: 8*n*eps*total of the pixel.
        p_it = 24 if case["itdt"] == "f4" else 53
        eps = 2.0 ** (1 - p_it)

        def sum_tol(vals):
            if len(vals) <= 1:
                return F(0)
            tot = sum(abs(v) for v in vals)
            if all(v.denominator == 1 for v in vals) and tot < 2 ** p_it:
                return F(0)
            return F(8 * len(vals) * eps) * tot

        real = case["kind"] == "real"
        is_sorted = [all(a < b for a, b in zip(mz, mz[1:])) for mz, _ in dvals]
        pix_tol = []  # per <spectrum>: tolerance of sums over the whole spectrum (TIC, bins)
        for mz, it in dvals:
            pix_tol.append(F(8 * max(1, len(it)) * eps) * sum(abs(v) for v in it) if real else sum_tol(it))

        def extract_tols(e):
            """per <spectrum> a list over the windows: tolerance, or None where a peak lies within the guard of an edge
            whose float value depends on how the code rounds (undetermined element)"""
            edges = [core.unrat(q) for q in e["rep"]["edges"]]
            wins = list(zip(edges[::2], edges[1::2]))
            g = edge_guard(real, e["wkind"], e["mvals"], e["wval"], e["mt"], e["wt"], edges)
            out, hit = [], False
            bands = None if g is None else [[(b - g * abs(b), b + g * abs(b)) for b in w] for w in wins]
            for si, (mz, it) in enumerate(dvals):
                row = []
                srt = is_sorted[si]
                for wi, (lo, hi) in enumerate(wins):
                    if bands is not None:
                        if srt:
                            near = False
                            for a, b in bands[wi]:
                                i = bisect.bisect_left(mz, a)
                                if i < len(mz) and mz[i] <= b:
                                    near = True
                        else:
                            near = any(a <= q <= b for q in mz for a, b in bands[wi])
                        if near:
                            row.append(None)
                            hit = True
                            continue
                    if real:
                        row.append(pix_tol[si])
                    elif srt and len(it) == len(mz):
                        row.append(sum_tol(it[bisect.bisect_left(mz, lo):bisect.bisect_left(mz, hi)]) if lo < hi else F(0))
                    else:
                        row.append(sum_tol([v for q, v in zip(mz, it) if lo <= q < hi]))
                out.append(row)
            return out, hit

        # outside the quantifier two dict values can be written to one pixel (positions 0 and X): which one stays depends
        # on the order of the loop, which the property does not fix: only the NaN-ness of such a pixel is compared
        ali = rep["aliased"] or []
        is_ali = lambda r, c: r < len(ali) and c < len(ali[r]) and bool(ali[r][c])
        where = {(s["y"] - 1, s["x"] - 1): i for i, s in enumerate(specs)}

        def by_pixel(per_spec, default):
            """tolerance function of a table: in the quantifier the pixel's own spectrum decides; outside it (positions
            wrap, repeat, alias) the loosest tolerance of the file for every pixel, nothing where one is undetermined"""
            if hyp:
                return lambda r, c: per_spec[where[(r, c)]] if (r, c) in where else default
            flat = [t for v in per_spec for t in (v if isinstance(v, list) else [v])]
            loose = None if any(t is None for t in flat) else max(flat, default=F(0))
            return lambda r, c: None if is_ali(r, c) else loose

        tic_tol = by_pixel([F(0) if s["tic"] is not None else pix_tol[i] for i, s in enumerate(specs)], F(0))
        bin_tol = by_pixel(pix_tol, F(0))
        undet_keys = []
        for key, e in ext.items():
            tv, hit = extract_tols(e)
            e["tol"] = by_pixel(tv, F(0))
            if hit:
                undet_keys.append(key)

        parts_spec, parts_model, bnotes = {}, {}, {}
        for name, o in obs.items():
            P = lambda k: f"{name}:{k}"
            im = o["impl"]
            if not o["ok"]:
                parts_spec[P("parse")] = parts_model[P("parse")] = False
                continue
            for key, e in ext.items():
                if hyp:
                    parts_spec[P(key)] = tables_close(im[key], spec[key], e["tol"])
                parts_model[P(key)] = both_raise(im[key], model[key]) or tables_close(im[key], model[key], e["tol"])
            for key, c in calls:
                if c["op"] == "tic":
                    if hyp:
                        parts_spec[P(key)] = tables_close(im[key], spec["tic"], tic_tol)
                    parts_model[P(key)] = both_raise(im[key], model["tic"]) or tables_close(im[key], model["tic"], tic_tol)
                elif c["op"] == "range":
                    ir = im[key]
                    if hyp and specs:
                        ok = isinstance(ir, list) and None not in ir
                        parts_spec[P(key)] = ok and self.le(ir[0], spec["range"][0]) and self.le(spec["range"][1], ir[1])
                    parts_model[P(key)] = both_raise(ir, model["range"]) or ir == model["range"]
            if case["binw"] is not None:
                brep = o["brep"]
                bm = brep["model"]
                mb = {"raises": True} if bm is None else {"bins": [qs(v) for v in bm["bins"]], "data": drv_table(bm["table"], True)}
                ib = im["binned"]
                if hyp and specs:
                    sdata = drv_table(brep["spec"], True)
                    ok = "data" in ib and bool(brep["cover"]) and tables_close(ib["data"], sdata, bin_tol)
                    parts_spec[P("binned")] = ok
                    parts_model[P("binned")] = "data" in ib and "data" in mb and ib["bins"] == mb["bins"] \
                        and self.binned_matches_model(ib["data"], mb["data"], sdata, brep["dense"], bin_tol)
                    spec.setdefault("binned", {"edges_step_by_w_and_cover_range": True, "returned_edges_do": bool(brep["cover"]),
                                               "data": sdata})
                    if "data" in ib and not ok:
                        # which disagreeing pixels lie in the class of the known finding (a bin without a peak / bins
                        # above the last peak)
                        bad_dense = 0
                        idata = ib["data"]
                        same_shape = len(idata) == len(sdata) and all(len(a) == len(b) for a, b in zip(idata, sdata))
                        if same_shape:
                            for r, row in enumerate(idata):
                                for c_, px in enumerate(row):
                                    if not tables_close([[px]], [[sdata[r][c_]]], lambda *_: bin_tol(r, c_)) \
                                            and brep["dense"][r][c_] is not False:
                                        bad_dense += 1
                        bnotes[name] = {"cover": bool(brep["cover"]), "same_shape": same_shape, "bad_dense_pixels": bad_dense,
                                        "matches_defect_model": "data" in mb and ib["bins"] == mb["bins"]
                                        and tables_close(ib["data"], mb["data"], bin_tol)}
                else:
                    # outside the quantifier (and for a file without spectra) only raising, the edges, the shape and the
                    # NaN pattern are compared: the values of binned_masses are covered by the known finding, a repair
                    # of it must not break the tie here
                    parts_model[P("binned")] = both_raise(ib, mb) or ("data" in ib and "data" in mb and ib["bins"] == mb["bins"]
                                                                     and same_pattern(ib["data"], mb["data"]))
            if "dict" in im:
                parts_model[P("dict")] = im["dict"] == model["dict"]
        if reads is not None:
            inq = [r["off"] + r["len"] <= len(ibd) and r["len"] % int(r["dt"][1:]) == 0 for r in case["reads"]]
            pairs = list(zip(inq, impl["reads"], model["reads"]))
            parts_model["reads"] = all(i == m for q, i, m in pairs if q)          # arrays inside the file: always
            parts_model["reads-off"] = all(i == m for q, i, m in pairs if not q)  # short / misaligned reads: off-domain

        note = {"fail": sorted(k for k, v in parts_spec.items() if not v),
                "model_fail": sorted(k for k, v in parts_model.items() if not v)}
        if bnotes:
            note["binned"] = bnotes
        brep_f = next((o.get("brep") for o in obs.values() if o.get("brep") is not None), None)
        case = {**case, "_refs": [{"mz": list(m["mz"][:2]), "it": list(m["it"][:2])} for m in metas]}
        feats = self.features(case, rep, brep_f, dspecs, hyp, reads is not None,
                              any("dict" in (o["impl"] or {}) for o in obs.values() if o["ok"]), ext, calls, dvals)
        if fast_unjudged and feats:
            feats = list(feats) + ["fast-parser:no-spectrum-document-raises (recorded only)"]
        if undet_keys and feats:
            feats = list(feats) + ["undetermined-element:peak-within-guard-of-inexact-edge"]
        if not self.OFF_DOMAIN_VERDICT:
            # disagreements outside the quantifier are only counted (feature), they do not reach the verdict
            offp = [k for k in parts_model if k == "reads-off" or (not hyp and k not in ("reads", "xml:parse", "fast:parse"))]
            if any(not parts_model[k] for k in offp) and feats:
                feats = list(feats) + ["off:DIFFERS-from-model"]
            for k in offp:
                parts_model[k] = True
        # a case in which EVERY extraction has an undetermined element is counted as undetermined as before when nothing
        # else of it fails; the elements themselves are never compared (tolerance None) whatever the flag says
        return outcome(impl, model, spec, spec_ok=all(parts_spec.values()), model_ok=all(parts_model.values()),
                       undetermined=False, hyp=hyp, features=feats, note=json.dumps(note, sort_keys=True))

    # ------------------------------------------------------------------ the external binary, directly
    @staticmethod
    def observe_dict(imz):
        """ImzML.spectra in iteration order with the arrays get_binary_data reads for each value; None when the
        attributes are not there (a restructured class is not an error of the property)"""
        try:
            out = []
            for sp in imz.spectra.values():
                mz = sp.get_binary_data(imz.mz_params.id, imz.mz_params.dtype, imz.external_binary)
                it = sp.get_binary_data(imz.intensity_params.id, imz.intensity_params.dtype, imz.external_binary)
                out.append([int(sp.x), int(sp.y), [fr(v) for v in mz], [fr(v) for v in it]])
            return out
        except (AttributeError, TypeError, KeyError):
            return None
        except Exception as e:  # the read itself fails: an observation, not an error of the harness
            return {"raises": type(e).__name__}

    @staticmethod
    def run_reads(case, ibdp, ibd):
        """Spectrum.get_binary_data on the real .ibd for the offsets / lengths / dtypes of the case (inside the file,
        across its end, beyond it, lengths that are no multiple of the element width, both byte orders).
        Returns (impl, model thunk) or None when the case has none / the class cannot be built as documented."""
        reads = case.get("reads") or []
        if not reads:
            return None
        try:
            from pewlib.io.imzml import Spectrum
            sp = Spectrum((1, 1), None, {str(i): r["off"] for i, r in enumerate(reads)},
                          {str(i): r["len"] for i, r in enumerate(reads)})
            getter = sp.get_binary_data
        except (ImportError, AttributeError, TypeError):
            return None
        impl = []
        # the documented fast way: one BufferedReader kept open for all reads (each read must seek for itself)
        handle = ibdp.open("rb") if (case.get("api") or {}).get("read-handle") else None
        try:
            return C05._run_reads(reads, getter, handle if handle is not None else ibdp, ibd, impl)
        finally:
            if handle is not None:
                handle.close()

    @staticmethod
    def _run_reads(reads, getter, source, ibd, impl):
        for i, r in enumerate(reads):
            o = "<" if r["order"] == "little" else ">"
            dt = np.dtype(r["dt"]) if r["dt"] == "u1" else np.dtype(o + r["dt"])
            try:
                arr = getter(str(i), dt, source)
            except TypeError:
                return None
            except Exception:  # np.frombuffer: ValueError
                impl.append({"raises": True})
                continue
            arr = np.asarray(arr)
            bits = arr.view(np.dtype("u1") if r["dt"] == "u1" else np.dtype(o + "u" + r["dt"][1:]))
            vals = [None if (arr.dtype.kind == "f" and not np.isfinite(v)) else str(F(float(v)) if arr.dtype.kind == "f" else int(v))
                    for v in arr]
            impl.append({"bits": [int(b) for b in bits], "values": vals})

        def model(ctx):
            out = []
            for r in reads:
                rep = ctx.driver.call("c05.read", ibd=ibd.hex(), dtype=r["dt"], order=r["order"], off=r["off"], len=r["len"])
                if rep["bits"] is None:
                    out.append({"raises": True})
                elif rep["pointwise"] != rep["bits"]:
                    out.append({"pointwise-formula-differs": True})
                else:
                    out.append({"bits": [int(b) for b in rep["bits"]], "values": [qs(v) for v in rep["values"]]})
            return out

        return impl, model

    @staticmethod
    def binned_matches_model(idata, mdata, sdata, dense, tol):
        """correspondence for binned_masses: every pixel equals the mechanism model (the documented, unrepaired
        behaviour); on pixels outside the proved class (a bin without a peak) the specified value is accepted too,
        so that a correct repair of the known finding is not reported as a broken tie"""
        if len(idata) != len(mdata) or any(len(a) != len(b) for a, b in zip(idata, mdata)):
            return False
        for r, row in enumerate(idata):
            for c, px in enumerate(row):
                t = lambda *_: tol(r, c)
                if tables_close([[px]], [[mdata[r][c]]], t):
                    continue
                if dense[r][c] is False and tables_close([[px]], [[sdata[r][c]]], t):
                    continue
                return False
        return True

    @staticmethod
    def le(a, b):
        inf = {"inf": 1, "-inf": -1}
        if a in inf or b in inf:
            return inf.get(a, 0) <= inf.get(b, 0) if (a in inf and b in inf) else (a == "-inf" or b == "inf")
        return F(a) <= F(b)

    def features(self, case, rep, brep, dspecs, hyp, did_reads, did_dict, ext, calls, dvals):
        f = set()
        specs = case["spectra"]
        off = set()
        X = Y = None
        if rep["extract_model"] is None:
            off.add("off:model-raises")
        else:
            Y, X = rep["extract_model"]["shape"]
            f.add(f"img:{'1x1' if (X, Y) == (1, 1) else 'line' if 1 in (X, Y) else 'grid'}")
            if max(X, Y) >= 5:
                f.add("img:long-side>=5")
            if len(specs) < X * Y:
                f.add("sparse-pixels")
            if 0 in (X, Y):
                off.add("off:empty-image")
        if not hyp:
            pos = [(s["x"], s["y"]) for s in specs]
            if any(0 in p for p in pos):
                off.add("off:position-0-wraps-to-last")
            if any(min(p) < 0 for p in pos):
                off.add("off:negative-position")
            if len(set(pos)) < len(pos):
                off.add("off:position-recorded-twice")
            if case["size"] is not None and any(p[0] > case["size"][0] or p[1] > case["size"][1] for p in pos):
                off.add("off:position-beyond-size")
            if case["size"] is not None and min(case["size"]) < 0:
                off.add("off:negative-size")
            if any(v for row in (rep["aliased"] or []) for v in row):
                off.add("off:two-positions-one-pixel-value-not-compared")
            if any(not mz for mz, _ in dvals):
                off.add("off:spectrum-without-peaks")
            f.add("outside-the-quantifier")
        if did_reads:
            f.add("direct-read")
            for r in case["reads"]:
                w = int(r["dt"][1:])
                f.add(f"read:{r['dt']}")
                if r["order"] == "big":
                    f.add("read:big-endian")
                if r["len"] % w:
                    off.add("read:length-not-multiple")
                if r.get("past"):
                    off.add("read:" + r["past"])
        if did_dict:
            f.add("dict-observed")
        if not specs:
            f.add("no-spectra")
        if case["size"] is None:
            f.add("size-absent")
        if case["shared"] and len(specs) > 1:
            f.add("shared-axis")
        f.add(f"mz:{case['mzdt']}+it:{case['itdt']}")
        f.add(f"stream:{case['kind']}")
        nontriv = set()
        # ---- stored / absent TIC in file order (a parser or image method that carries state from one <spectrum> to the
        # next shows only when presence CHANGES along the file)
        pres = [s["tic"] is not None for s in specs]
        if any(not p for p in pres):
            f.add("tic-absent")
        if any(pres):
            f.add("tic-stored")
        changes = [(a, b) for a, b in zip(pres, pres[1:]) if a != b]
        if (True, False) in changes:
            nontriv.add("tic-mixed:stored-then-absent")
        if (False, True) in changes:
            nontriv.add("tic-mixed:absent-then-stored")
        if len(changes) >= 2:
            nontriv.add("tic-mixed:alternating")
        # ---- spectra sharing external arrays (offsets / lengths as the model read them: rep["refs"] is what was written)
        refs = case.get("_refs") or []
        order = list(range(len(refs)))
        for which in ("mz", "it"):
            for a, b in zip(order, order[1:]):
                ra, rb = refs[a][which], refs[b][which]
                if ra[0] == rb[0] and ra[1] > 0 and rb[1] > 0:
                    if ra[1] == rb[1]:
                        f.add(f"shared-{which}-offset:equal-lengths")
                    else:
                        nontriv.add(f"shared-{which}-offset:{'shorter' if ra[1] < rb[1] else 'longer'}-first")
        if any(refs[a]["mz"][0] == refs[b]["mz"][0] and refs[a]["mz"][1] != refs[b]["mz"][1] for a, b in zip(order, order[1:])):
            for a, b in zip(order, order[1:]):
                if refs[a]["mz"][0] != refs[b]["mz"][0] or refs[a]["mz"][1] == refs[b]["mz"][1] or a >= len(dvals) or b >= len(dvals):
                    continue
                short, long_ = (a, b) if refs[a]["mz"][1] < refs[b]["mz"][1] else (b, a)
                beyond = dvals[long_][0][len(dvals[short][0]):]
                for e in ext.values():
                    edges = [core.unrat(q) for q in e["rep"]["edges"]]
                    if any(lo <= m < hi for m in beyond for lo, hi in zip(edges[::2], edges[1::2])):
                        nontriv.add("shared-mz-offset:window-holds-a-peak-beyond-the-shorter-length")
        # ---- pixel coverage
        if hyp and X and Y and specs:
            pos = {(s["x"], s["y"]) for s in specs}
            if X * Y > 1:
                if (1, 1) not in pos:
                    nontriv.add("pixel:first-missing")
                if (X, Y) not in pos:
                    nontriv.add("pixel:last-missing")
                if len(pos) == 1:
                    nontriv.add("pixel:single-recorded")
        api = case.get("api") or {}
        for k in ("str", "ibd-arg", "ibd-elsewhere", "read-handle"):
            if api.get(k) and (k != "read-handle" or did_reads):
                f.add("api:" + {"str": "str-paths", "ibd-arg": "external-binary-argument", "ibd-elsewhere": "external-binary-elsewhere",
                               "read-handle": "reads-through-one-open-handle"}[k])
        longest = max((len(mz) for mz, _ in dvals), default=0)
        if longest >= 32:
            nontriv.add("spectrum:>=32-peaks" if longest < 512 else "spectrum:>=512-peaks")
        # ---- the history
        ops = [c["op"] for _, c in calls]
        nat = [k for k, _ in calls]
        if case.get("order") is not None and nat[:3] != ["extract", "tic", "range"]:
            f.add("history:reordered")
            if nat.index("tic") < nat.index("extract"):
                f.add("history:extraction-after-tic")
        if sum(o in ("extract", "again", "load") for o in ops) >= 2:
            nontriv.add("history:several-extractions-one-object")
        if "again" in ops:
            f.add("history:same-extraction-twice")
        for _, c in calls:
            if c["op"] == "load":
                f.add("history:load-" + ("object" if c.get("how") == "object" else "path") + ("-default-ppm" if c.get("ppm") is None else ""))
        if ops.count("tic") > 1 or ops.count("range") > 1:
            f.add("history:tic-or-range-twice")
        # ---- per extraction: argument types and window classes
        for key, e in ext.items():
            edges = [core.unrat(q) for q in e["rep"]["edges"]]
            wins = list(zip(edges[::2], edges[1::2]))
            mt, wt = e["mt"], e["wt"]
            f.add(f"targ:{mt}")
            f.add(f"wtype:{wt}")
            if key != "extract" and any(k == key and (c.get("targ") or {}).get("pos") for k, c in calls) \
                    or key == "extract" and (case.get("targ") or {}).get("pos"):
                f.add("width-passed-positionally")
            f.add(f"width:{e['wkind']}")
            if mt in INT_MT or mt == "list-mixed":
                nontriv.add(f"int-targets+{'abs' if e['wkind'] == 'mz' else 'ppm'}-width")
            if mt in F4_MT or wt == "np-f4":
                nontriv.add("float32-targets-or-width")
            if mt in SCALAR_MT:
                f.add("scalar-target")
            if len(wins) >= 100:
                nontriv.add("targets:>=100")
            mv = e["mvals"]
            if len(set(mv)) < len(mv):
                nontriv.add("targets:duplicate")
            if mv and max(mv) < 16:
                f.add("targets:mass<16")
            if mv and max(mv) >= 2048:
                f.add("targets:mass>=2048")
            los = [w[0] for w in wins]
            if los != sorted(los):
                f.add("windows-unsorted")
            small = wins[:40]
            if any(a[0] < b[1] and b[0] < a[1] for i, a in enumerate(small) for b in small[i + 1:]):
                f.add("windows-overlap")
            shared_edges = {a[1] for a in wins if a[0] < a[1]} & {b[0] for b in wins if b[0] < b[1]}
            if shared_edges:
                nontriv.add("windows-adjacent")
            # 32-bit m/z next to a window edge that is not a float32 value: the stored neighbours of the edge
            brackets = []
            if case["mzdt"] == "f4" and len(wins) <= 12:
                brackets = [(f32_bracket(lo), f32_bracket(hi)) for lo, hi in wins]
                if any(b is not None for pair in brackets for b in pair):
                    f.add("f32-unrepresentable-edge")
            p_it = 24 if case["itdt"] == "f4" else 53
            for mz, it in dvals:
                mzset = set(mz)
                if not mz:
                    continue
                for pair in brackets:
                    for name, b in zip(("lower", "upper"), pair):
                        if b is not None:
                            if b[0] in mzset:
                                nontriv.add(f"f32-peak-just-below-{name}-edge")
                            if b[1] in mzset:
                                nontriv.add(f"f32-peak-just-above-{name}-edge")
                f.add("n1" if len(mz) == 1 else "n2" if len(mz) == 2 else "n>2")
                if shared_edges & mzset:
                    nontriv.add("peak-on-shared-edge-of-adjacent-windows")
                # peaks that dominate a non-empty window they are NOT in by more than the precision of the intensity
                # type (2^24 / 2^53): any arithmetic that lets them meet the window's content (running totals) loses it
                doms = [(q, abs(v)) for q, v in zip(mz, it) if abs(v) >= 2 ** p_it]
                below_of, above_of = set(), set()
                srt = all(a < b for a, b in zip(mz, mz[1:]))
                for lo, hi in wins[:60]:
                    if srt:
                        inside = mz[bisect.bisect_left(mz, lo):bisect.bisect_left(mz, hi)] if lo < hi else []
                    else:
                        inside = [m for m in mz if lo <= m < hi]
                    if lo in mzset:
                        nontriv.add("peak-on-lower-edge")
                    if hi in mzset:
                        nontriv.add("peak-on-upper-edge")
                    if not inside:
                        if hi <= mz[0]:
                            nontriv.add("window-below")
                        elif lo > mz[-1]:
                            nontriv.add("window-above")
                        else:
                            nontriv.add("window-empty-inside")
                    else:
                        if len(inside) > 1:
                            nontriv.add("window-many-peaks")
                        if inside[0] == mz[0]:
                            nontriv.add("window-has-first-peak")
                        if inside[-1] == mz[-1]:
                            nontriv.add("window-has-last-peak")
                        if len(inside) == len(mz) and len(mz) > 1:
                            nontriv.add("window-has-every-peak")
                        content = sum(abs(v) for q, v in zip(mz, it) if lo <= q < hi) if doms else 0
                        if content > 0:
                            for q, v in doms:
                                if v >= content * 2 ** p_it and not (lo <= q < hi):
                                    (below_of if q < lo else above_of).add(q)
                                    big = ">2^53" if v >= content * 2 ** 53 else ">2^24"
                                    nontriv.add(f"dominant({big}x)-peak-{'below' if q < lo else 'above'}-nonempty-window")
                if below_of & above_of:
                    nontriv.add("dominant-peak-between-nonempty-windows")
        if brep is not None and hyp and brep["dense"] is not None and brep["model"] is not None:
            flat = [d for row in brep["dense"] for d in row if d is not None]
            if any(flat):
                nontriv.add("bins-dense-pixel")
            if not all(flat):
                nontriv.add("bins-pixel-with-empty-bin")
            f.add("bins:%d" % min(len(brep["model"]["bins"]), 5))
        if {"sparse-pixels", "size-absent", "no-spectra"} & f:
            nontriv.add("placement")
        nontriv |= off
        return (f | nontriv) if nontriv else []

    # ------------------------------------------------------------------ known finding
    def known(self, case, out):
        try:
            note = json.loads(out.get("note") or "{}")
        except ValueError:
            return None
        fail = note.get("fail") or []
        if not fail or any(k.split(":")[-1] != "binned" for k in fail):
            return None  # anything else that fails is a violation
        notes = note.get("binned") or {}
        for k in fail:  # every parser through which binned_masses fails must show exactly the documented behaviour
            b = notes.get(k.split(":")[0])
            if not b or not b["cover"] or not b["same_shape"]:
                return None
            if b["bad_dense_pixels"] != 0:
                return None  # a pixel whose every bin holds a peak must be right
            if not b["matches_defect_model"]:
                return None  # not the documented behaviour (neighbouring peak / repeated last intensity)
        return KNOWN_BINS

    # ------------------------------------------------------------------ shrinking
    def shrink(self, case):
        sp = case["spectra"]
        ex = case.get("extra") or []
        for i in range(len(ex)):
            yield {**case, "extra": ex[:i] + ex[i + 1:]}
        if case.get("order") is not None:
            yield {**case, "order": None}
        for i, x in enumerate(ex):
            ms = x.get("masses") or []
            if len(ms) > 1:
                yield {**case, "extra": ex[:i] + [{**x, "masses": ms[:len(ms) // 2]}] + ex[i + 1:]}
                yield {**case, "extra": ex[:i] + [{**x, "masses": ms[len(ms) // 2:]}] + ex[i + 1:]}
                if len(ms) <= 8:
                    for j in range(len(ms)):
                        yield {**case, "extra": ex[:i] + [{**x, "masses": ms[:j] + ms[j + 1:]}] + ex[i + 1:]}
            if x.get("targ"):
                yield {**case, "extra": ex[:i] + [{**x, "targ": None}] + ex[i + 1:]}
        if case.get("targ"):
            yield {**case, "targ": None}
        if case.get("api"):
            yield {**case, "api": None}
        if case.get("share"):
            yield {**case, "share": None}
            for k in list(case["share"]):
                if len(case["share"]) > 1:
                    yield {**case, "share": {a: v for a, v in case["share"].items() if a != k}}
        for i in range(len(sp)):
            if len(sp) > 1:
                yield {**case, "spectra": sp[:i] + sp[i + 1:], "shared": False, "share": reshare(case.get("share"), i)}
        if len(case["masses"]) > 1:
            for i in range(len(case["masses"])):
                yield {**case, "masses": case["masses"][:i] + case["masses"][i + 1:], "scalar": False}
        for i, s in enumerate(sp):
            n = len(s["mz"])
            if n > 8:  # long spectra: halves and quarters before single peaks
                for a, b in ((0, n // 2), (n // 2, n), (0, n // 4), (n // 4, n // 2), (n // 2, 3 * n // 4), (3 * n // 4, n)):
                    t = {**s, "mz": s["mz"][:a] + s["mz"][b:], "it": s["it"][:a] + s["it"][b:]}
                    yield {**case, "spectra": sp[:i] + [t] + sp[i + 1:], "shared": False}
            for j in range(n if n <= 64 else 0):
                if len(s["mz"]) > 1:
                    t = {**s, "mz": s["mz"][:j] + s["mz"][j + 1:], "it": s["it"][:j] + s["it"][j + 1:]}
                    yield {**case, "spectra": sp[:i] + [t] + sp[i + 1:], "shared": False}
            if s["tic"] is not None:
                yield {**case, "spectra": sp[:i] + [{**s, "tic": None}] + sp[i + 1:]}
        if case["binw"] is not None:
            yield {**case, "binw": None}
        rd = case.get("reads") or []
        if rd:
            yield {**case, "reads": []}
            for i in range(len(rd)):
                if len(rd) > 1:
                    yield {**case, "reads": rd[:i] + rd[i + 1:]}
        if case["pad"] is not None:
            yield {**case, "pad": None}
        if case["ifirst"]:
            yield {**case, "ifirst": False}


PROP = C05()

if __name__ == "__main__":
    sys.exit(core.main(PROP, "harness.c05"))
