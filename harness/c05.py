"""C05 — imzML mass-window extraction: pewlib.io.imzml.ImzML.extract_masses / extract_tic / mass_range /
binned_masses on synthetic imzML/ibd pairs against PewModel/Imzml.lean (mechanism: get_binary_data on the
bytes of the .ibd -> dict of spectra -> searchsorted -> sentinel -> reduceat -> [::2] -> zeroing -> placement by
NumPy subscripts; specification: windowSum per pixel at [y-1][x-1]).  The driver gets the bytes of the .ibd file
the harness wrote plus the offsets / lengths it wrote into the imzML and decodes the arrays itself."""
import json
import math
import sys
from fractions import Fraction

import numpy as np

from harness import core, gen_imzml
from harness.core import Prop, outcome

KNOWN_BINS = "C05-binned-masses-empty-bins"
F = Fraction


def fr(v):
    """float -> canonical exact string; NaN -> None"""
    v = float(v)
    if math.isnan(v):
        return None
    if math.isinf(v):
        return "inf" if v > 0 else "-inf"
    return str(F(v))


def qs(j):
    q = core.unrat(j)
    return None if q is None else str(q)


def f32_bracket(e):
    """exact rational e -> (largest float32 < e, smallest float32 > e) as Fractions; None when e is itself a
    float32 value (or out of the float32 range)"""
    with np.errstate(over="ignore"):
        c = np.float32(float(e))
    if not np.isfinite(c):
        return None
    fc = F(float(c))
    if fc == e:
        return None
    if fc < e:
        lo, hi = c, np.nextafter(c, np.float32(np.inf))
    else:
        lo, hi = np.nextafter(c, np.float32(-np.inf)), c
    if not (np.isfinite(lo) and np.isfinite(hi)):
        return None
    return F(float(lo)), F(float(hi))


def canon_pixels(arr):
    """(Y, X, N) or (Y, X) array -> rows of pixels; an all-NaN pixel is None"""
    arr = np.asarray(arr)
    rows = []
    for r in range(arr.shape[0]):
        row = []
        for c in range(arr.shape[1]):
            px = arr[r, c]
            if px.ndim == 0:
                row.append(fr(px))
            else:
                vals = [fr(v) for v in px]
                row.append(None if len(vals) > 0 and all(v is None for v in vals) else vals)
        rows.append(row)
    return rows


def drv_table(tab, vec):
    return [[None if px is None else ([qs(v) for v in px] if vec else qs(px)) for px in row] for row in tab]


def call(f):
    try:
        return f()
    except Exception as e:  # the quantified inputs never raise
        return {"raises": type(e).__name__, "msg": str(e)[:160]}


def tables_close(a, b, tol_of):
    """same shape, same NaN pattern, values within tol_of(r, c) (0 -> exact)"""
    if isinstance(a, dict) or isinstance(b, dict):
        return False
    if len(a) != len(b):
        return False
    for r, (ra, rb) in enumerate(zip(a, b)):
        if len(ra) != len(rb):
            return False
        for c, (pa, pb) in enumerate(zip(ra, rb)):
            if (pa is None) != (pb is None):
                return False
            if pa is None:
                continue
            va, vb = (pa, pb) if isinstance(pa, list) else ([pa], [pb])
            if not isinstance(pb, list) and isinstance(pa, list):
                return False
            if len(va) != len(vb):
                return False
            tol = tol_of(r, c)
            if tol is None:  # only the NaN pattern of this pixel is compared
                continue
            for x, y in zip(va, vb):
                if x is None or y is None:
                    if x is not y:
                        return False
                elif x != y and abs(F(x) - F(y)) > tol:
                    return False
    return True


def both_raise(impl_part, model_part):
    """the model says the call raises and the implementation raised (the exception class is not compared)"""
    return isinstance(model_part, dict) and model_part.get("raises") is True and isinstance(impl_part, dict) and "raises" in impl_part


def same_pattern(a, b):
    """same shape and the same NaN pixels"""
    if isinstance(a, dict) or isinstance(b, dict) or len(a) != len(b):
        return False
    return all(len(ra) == len(rb) and all((pa is None) == (pb is None) for pa, pb in zip(ra, rb)) for ra, rb in zip(a, b))


class C05(Prop):
    id = "C05"
    anchored = ["src/pewlib/io/imzml.py"]
    cases = {"quick": 1500, "thorough": 20000}
    rule = ("synthetic imzML/ibd pairs: images 1x1..4x4, random subsets of pixels (also none), per-pixel or shared m/z axes of "
            "1..8 strictly increasing dyadic values, f32/f64 arrays, TIC stored/absent, image size present/absent; 1..5 target "
            "masses with ppm or absolute widths whose edges are exactly representable, spectra drawn from a grid plus (absolute widths) "
            "the window edges themselves (peaks exactly on the lower/upper edge; with ppm widths a peak within 1e-9 of an edge is "
            "undetermined); windows empty / below / above / touching first or last "
            "peak / many peaks / overlapping / unsorted; a 'real' stream with non-dyadic values and a summation tolerance; "
            "a 32-bit-edge class (20% of the exact stream): decimal masses 100..1000 with absolute widths 0.05..3.3 or 10..5000 ppm, "
            "mostly f32 m/z, integer intensities, peaks on float32(e) and its float32 neighbours for the edges e = m -/+ w/2 that are "
            "not float32 values (peak just below/above the lower/upper edge, one float32 step >= 6e-8 relative away); "
            "bins with dyadic widths incl. spectra with a peak in every bin. "
            "70% of the cases carry 1-3 direct calls of Spectrum.get_binary_data on the written .ibd (the arrays the imzML points to and "
            "random offsets / lengths, element types u1..u8 / f4 / f8, both byte orders, reads ending after or starting beyond the file, "
            "lengths that are no whole number of elements). 8% of the cases are moved OUTSIDE the quantifier (position 0, negative, "
            "beyond the size, recorded twice, two positions on one pixel, smaller / empty / negative size, nothing at all): "
            "implementation vs model only, the specification is not evaluated. "
            "non-trivial = at least one of the named window classes, a sparse/size-absent image or an off: class; distinct by canonical case hash")
    trusted = ["np.searchsorted on a sorted array returns #{p | a[p] < v}; np.add.reduceat, np.append, np.arange as documented; "
               "np.frombuffer / file seek+read and IEEE-754 decoding are MODELLED (getBinaryData, ieeeVal) and compared element by element "
               "(bit patterns and exact values) with what get_binary_data returns on the written file",
               "exact stream: m/z k/2^14 < 256 and integer intensities < 2^11 so float32/float64 sums and the float window edges "
               "of absolute widths are exact; 32-bit-edge class: m/z < 1024 stored as float32, integer intensities < 2^11, sums exact; "
               "ppm widths, the real stream and every absolute width whose float64 edges m -/+ w/2 are not exact: cases with a peak "
               "within 1e-9 relative of a window edge are undetermined; real stream: sums compared with tolerance 8*n*eps*total",
               "xml.etree.ElementTree parses the synthetic document as written (position, size, offset, encoded length, element type); "
               "float(text) of the stored TIC (the harness hands the model the parsed value)"]
    assumptions = ["the specification is evaluated only where the quantifier holds: every position recorded once, 1-based and inside the "
                   "image; spectra non-empty with strictly increasing m/z and as many intensities (decided by the driver, `hyp`); outside it "
                   "the implementation is compared with the mechanism model only (raising vs not raising, shape, NaN pattern, values; the "
                   "exception class and the value of a pixel two positions share are not compared)",
                   "mass_range is checked as a bound (low <= every m/z <= high); bin edges returned by binned_masses are accepted when they "
                   "step by the requested width and cover the recorded range, the per-bin sums are then checked against those edges"]

    # Outside the property's quantifier (position 0 / negative / beyond the size / recorded twice, empty or negative
    # sizes, reads that end after the file or are no whole number of elements) the property says nothing; there the
    # implementation is compared with the MODEL only.  True: such a disagreement reaches the verdict ("VIOLATION ...
    # no-failing-input-found": the model no longer describes the code).  False: it is only counted as the feature
    # "off:DIFFERS-from-model" in the evidence.
    OFF_DOMAIN_VERDICT = True

    # ------------------------------------------------------------------ generation
    def gen_tic(self, rng, total):
        k = rng.randint(0, 6)
        v = rng.choice([total, total + 0.5, 7.25, 0.0, 1536.0])
        if k == 0:
            return None
        if k == 1:
            return "%d" % int(v)
        if k == 2:
            return "%.6f" % v
        if k == 3:
            return "%.6e" % v
        if k == 4:
            return "%g" % (v + 0.25)
        return repr(float(v))

    def generate(self, rng, tier):
        case = self.generate_main(rng, tier)
        # everything below draws AFTER the main case, so the main stream is what it was
        if case["spectra"] and rng.random() < 0.7:
            case["reads"] = self.gen_reads(rng, case)
        if rng.random() < 0.08:
            self.off_domain(rng, case)
        return case

    DTYPES = ["u1", "u2", "u4", "u8", "f4", "f8"]

    def gen_reads(self, rng, case):
        """offsets / lengths / dtypes for direct calls of Spectrum.get_binary_data on the .ibd of the case"""
        import random
        prng = random.Random(case["pad"]) if case["pad"] is not None else None
        ibd, metas = gen_imzml.layout_ibd(case["spectra"], case["mzdt"], case["itdt"], shared=case["shared"], rng=prng,
                                          intensity_first=case["ifirst"])
        L = len(ibd)
        out = []
        for _ in range(rng.choice([1, 1, 2, 3])):
            k = rng.random()
            dt = rng.choice(self.DTYPES)
            if k < 0.35:  # one of the arrays the imzML points to, with its own or another element type
                m = rng.choice(metas)
                which = rng.choice(["mz", "it"])
                off, ln = m[which][0], m[which][1]
                if rng.random() < 0.6:
                    dt = case["mzdt"] if which == "mz" else case["itdt"]
            elif k < 0.6:  # anywhere inside the file
                off = rng.randint(0, L)
                ln = rng.randint(0, L - off)
                if rng.random() < 0.5:
                    ln -= ln % int(dt[1:])
            elif k < 0.85:  # across the end of the file: read() returns fewer bytes
                off = rng.randint(max(0, L - 12), L)
                ln = (L - off) + rng.randint(1, 16)
            else:  # at or beyond the end: nothing to read
                off = L + rng.randint(0, 8)
                ln = rng.choice([0, 4, 8, 7])
            past = "empty-read" if ln == 0 else "beyond-end" if off >= L else "across-end" if off + ln > L else None
            out.append({"off": off, "len": ln, "dt": dt, "order": "big" if rng.random() < 0.2 else "little", "past": past})
        return out

    def off_domain(self, rng, case):
        """positions / sizes outside the property's quantifier (impl vs model only): position 0 (NumPy subscript -1:
        last row / column), negative positions, positions beyond the stated size (IndexError), a position recorded
        twice (dict: last value, first place), two positions on one pixel, empty and negative sizes, nothing at all"""
        sp = case["spectra"]
        kinds = ["size-small", "size-zero", "size-neg"] if case["size"] is not None else []
        if sp:
            kinds += ["zero-x", "zero-y", "zero-x", "negative", "negative", "beyond", "nothing"]
        if len(sp) >= 2:
            kinds += ["dup", "dup", "alias", "alias"]
        if not kinds:
            return
        k = rng.choice(kinds)
        X = case["size"][0] if case["size"] is not None else max(s["x"] for s in sp)
        Y = case["size"][1] if case["size"] is not None else max(s["y"] for s in sp)
        if k in ("dup", "alias"):
            # two distinct spectra are needed to see which one is kept: never a shared description
            case["shared"] = case["shared"] and all(s["mz"] == sp[0]["mz"] for s in sp)
        if k == "zero-x":
            rng.choice(sp)["x"] = 0
        elif k == "zero-y":
            rng.choice(sp)["y"] = 0
        elif k == "negative":
            t = rng.choice(sp)
            if rng.random() < 0.5:
                t["x"] = -rng.randint(1, X + 1)
            else:
                t["y"] = -rng.randint(1, Y + 1)
        elif k == "beyond":
            t = rng.choice(sp)
            if rng.random() < 0.5:
                t["x"] = X + rng.randint(1, 2)
            else:
                t["y"] = Y + rng.randint(1, 2)
        elif k == "dup":
            i, j = rng.sample(range(len(sp)), 2)
            sp[j]["x"], sp[j]["y"] = sp[i]["x"], sp[i]["y"]
        elif k == "alias":
            i, j = rng.sample(range(len(sp)), 2)
            if rng.random() < 0.5:
                sp[i]["x"], sp[j]["x"], sp[j]["y"] = 0, X, sp[i]["y"]
            else:
                sp[i]["y"], sp[j]["y"], sp[j]["x"] = 0, Y, sp[i]["x"]
            if len(sp) >= 3 and rng.random() < 0.6:  # and the first position once more: the dict keeps its place
                l = next(n for n in range(len(sp)) if n not in (i, j))
                sp[l]["x"], sp[l]["y"] = sp[min(i, j)]["x"], sp[min(i, j)]["y"]
        elif k == "size-small":
            case["size"] = [max(0, X - rng.randint(0, 1)), max(0, Y - rng.randint(0, 1))]
            if case["size"] == [X, Y]:
                case["size"] = [max(0, X - 1), Y]
        elif k == "size-zero":
            case["size"] = rng.choice([[0, Y], [X, 0], [0, 0]])
        elif k == "size-neg":
            case["size"] = rng.choice([[-1, Y], [X, -2]])
        elif k == "nothing":
            case["spectra"], case["size"], case["binw"], case["reads"] = [], None, case["binw"], []

    def generate_main(self, rng, tier):
        real = rng.random() < 0.15
        if not real and rng.random() < 0.2:
            return self.generate_f32edge(rng)
        X, Y = rng.choice([(1, 1), (1, 1), (1, 2), (2, 1), (2, 2), (3, 2), (2, 3), (1, 4), (4, 1), (3, 3), (4, 4)])
        cells = [(x, y) for y in range(1, Y + 1) for x in range(1, X + 1)]
        mode = rng.random()
        if mode < 0.25:
            pos = list(cells)
        elif mode < 0.3:
            pos = []
        else:
            pos = [p for p in cells if rng.random() < 0.6] or [rng.choice(cells)]
        rng.shuffle(pos)
        size = [X, Y]
        if pos and rng.random() < 0.3:
            size = None
        mzdt, itdt = rng.choice(["f4", "f8"]), rng.choice(["f4", "f8"])
        # width and masses first, so that spectra can put peaks exactly on the edges
        if real:
            width = {"kind": rng.choice(["ppm", "mz"]), "value": 0.0}
            width["value"] = rng.choice([10.0, 25.0, 5000.0, 1e5]) if width["kind"] == "ppm" else rng.choice([0.1, 0.33, 1.7, 40.0])
            masses = [round(rng.uniform(95.0, 165.0), rng.choice([1, 3, 6])) for _ in range(rng.randint(1, 5))]
        else:
            if rng.random() < 0.5:
                width = {"kind": "ppm", "value": 1e6 / 2 ** rng.randint(2, 9)}
            else:
                width = {"kind": "mz", "value": rng.choice([0.0, 0.125, 0.25, 0.5, 1.0, 2.0, 8.0, 64.0, 128.0])}
            masses = [rng.randint(96 * 16, 160 * 16) / 16 for _ in range(rng.randint(1, 5))]
            if rng.random() < 0.25 and len(masses) > 1:
                masses[1] = masses[0] + rng.choice([0.0, 0.0625, 0.25])  # overlapping / identical windows
        edges = []
        for m in masses:
            h = F(m) * F(width["value"]) / 10 ** 6 / 2 if width["kind"] == "ppm" else F(width["value"]) / 2
            edges += [F(m) - h, F(m) + h]
        nshared = rng.random() < 0.25

        def axis():
            n = rng.choice([1, 1, 2, 2, 3, 4, 5, 6, 8])
            if real:
                vals = {float(np.float32(rng.uniform(95.0, 165.0))) for _ in range(n)}
            else:
                vals = set()
                while len(vals) < n:
                    r = rng.random()
                    if r < 0.45 and edges and width["kind"] == "mz":
                        e = rng.choice(edges)
                        if 0 < e < 256:
                            vals.add(float(e))
                            continue
                    if r < 0.6 and masses:
                        vals.add(float(rng.choice(masses)))
                        continue
                    vals.add(rng.randint(94 * 64, 162 * 64) / 64)
            return sorted(vals)

        shared_axis = axis()
        spectra = []
        for (x, y) in pos:
            mz = list(shared_axis) if nshared else axis()
            if real:
                it = [float(np.float32(rng.uniform(0.5, 5000.0))) for _ in mz]
            else:
                it = [float(rng.choice([0, 1, 2, 3, 5, 8, 100, 1000, 2047, rng.randint(0, 2047)])) for _ in mz]
            spectra.append({"x": x, "y": y, "mz": mz, "it": it, "tic": self.gen_tic(rng, sum(it))})
        # a dominant peak below every window (m/z < 30 < 96 - 128/2): the window sums stay small exact integers,
        # but any implementation that lets peaks OUTSIDE the window take part in float32 arithmetic
        # (running totals, subtraction of prefix sums) rounds them away.  The summed TIC / binning would be
        # inexact in float32 for such spectra, so the TIC is stored and binning is skipped.
        dominant = (not real) and itdt == "f4" and bool(spectra) and not nshared and rng.random() < 0.5
        if dominant:
            for sp in spectra:
                if rng.random() < 0.7:
                    big = float(2 ** rng.choice([25, 27, 30]))
                    sp["mz"] = [rng.randint(1 * 64, 29 * 64) / 64] + sp["mz"]
                    sp["it"] = [big] + sp["it"]
                    sp["tic"] = float(rng.choice([0.0, 7.25, 1536.0]))
        binw = None
        if spectra and not real and not dominant and rng.random() < 0.55:
            binw = rng.choice([0.25, 0.5, 1.0, 1.0, 2.0, 4.0, 16.0])
            if rng.random() < 0.6 and not nshared:
                self.densify(rng, spectra, binw)
        if rng.random() < 0.3:
            rng.shuffle(masses)
        return {"kind": "real" if real else "exact", "size": size, "mzdt": mzdt, "itdt": itdt, "shared": nshared,
                "ifirst": rng.random() < 0.3, "pad": rng.randint(0, 10 ** 6) if rng.random() < 0.5 else None,
                "spectra": spectra, "masses": masses, "scalar": len(masses) == 1 and rng.random() < 0.5,
                "width": width, "binw": binw, "style": rng.randint(0, gen_imzml.NSTYLES - 1)}

    def generate_f32edge(self, rng):
        """exact-intensity stream, 32-bit m/z next to window edges that are NOT float32 values: decimal target masses
        and widths (absolute and ppm), peaks on float32(e) and on its float32 neighbours for the edges e = m -/+ w/2.
        The stored peaks are at least ~6e-8 relative away from the edge (one float32 step), far outside the 1e-9
        guard that covers the float64 rounding of the edge expression itself."""
        X, Y = rng.choice([(1, 1), (1, 1), (1, 2), (2, 1), (2, 2), (3, 2), (2, 3), (3, 3)])
        cells = [(x, y) for y in range(1, Y + 1) for x in range(1, X + 1)]
        pos = list(cells) if rng.random() < 0.3 else ([p for p in cells if rng.random() < 0.6] or [rng.choice(cells)])
        rng.shuffle(pos)
        size = None if rng.random() < 0.3 else [X, Y]
        mzdt = "f4" if rng.random() < 0.85 else "f8"
        itdt = rng.choice(["f4", "f8"])
        if rng.random() < 0.5:
            width = {"kind": "mz", "value": rng.choice([0.2, 0.2, 0.33, 0.1, 0.05, 0.7, 1.7, 3.3])}
        else:
            width = {"kind": "ppm", "value": rng.choice([10.0, 25.0, 50.0, 100.0, 500.0, 5000.0])}

        def half(m):
            return m * width["value"] / 1e6 / 2.0 if width["kind"] == "ppm" else width["value"] / 2.0

        masses = []
        for _ in range(rng.randint(1, 5)):
            if rng.random() < 0.3:
                masses.append(rng.choice([499.9, 500.1, 500.3, 120.7, 250.15, 999.9]))
            else:
                masses.append(round(rng.uniform(100.0, 1000.0), rng.choice([1, 1, 2, 3])))
        if len(masses) > 1 and rng.random() < 0.25:
            # adjacent windows (upper edge of one next to the lower edge of the other) / identical windows
            masses[1] = rng.choice([masses[0], round(masses[0] + 2 * half(masses[0]), 6)])
        f32, inf = np.float32, np.float32(np.inf)
        cands = []
        for m in masses:
            for e in (m - half(m), m + half(m)):
                c = f32(e)
                near = [c, np.nextafter(c, -inf), np.nextafter(c, inf)]
                # an edge that (nearly) is a float32 value: a peak on it would fall inside the guard, keep its neighbours only
                cands.append([float(v) for v in near if abs(float(v) - e) > 1e-8 * abs(e)])
                if rng.random() < 0.2:
                    cands.append([float(np.nextafter(near[1], -inf)), float(np.nextafter(near[2], inf))])
        nshared = rng.random() < 0.2

        def axis():
            n = rng.choice([1, 1, 2, 2, 3, 4, 5, 6, 8])
            vals = set()
            while len(vals) < n:
                r = rng.random()
                if r < 0.7:
                    vals.add(rng.choice(rng.choice(cands)))
                elif r < 0.8:
                    vals.add(float(f32(rng.choice(masses))))
                else:
                    vals.add(rng.randint(100 * 64, 1000 * 64) / 64)
            return sorted(vals)

        shared_axis = axis()
        spectra = []
        for (x, y) in pos:
            mz = list(shared_axis) if nshared else axis()
            it = [float(rng.choice([1, 2, 3, 5, 8, 100, 1000, 2047, rng.randint(0, 2047)])) for _ in mz]
            spectra.append({"x": x, "y": y, "mz": mz, "it": it, "tic": self.gen_tic(rng, sum(it))})
        if rng.random() < 0.3:
            rng.shuffle(masses)
        return {"kind": "exact", "size": size, "mzdt": mzdt, "itdt": itdt, "shared": nshared,
                "ifirst": rng.random() < 0.3, "pad": rng.randint(0, 10 ** 6) if rng.random() < 0.5 else None,
                "spectra": spectra, "masses": masses, "scalar": len(masses) == 1 and rng.random() < 0.5,
                "width": width, "binw": None, "style": rng.randint(0, gen_imzml.NSTYLES - 1)}

    def densify(self, rng, spectra, w):
        """rewrite some spectra so that every bin of arange(min, max + w, w) holds one of their peaks and
        the last bin holds the global maximum (the class for which binned_masses is proved correct)"""
        K = rng.choice([1, 2, 2, 3, 4, 6])
        lo = rng.randint(96 * 4, 150 * 4) / 4
        hi = lo + (K - 1) * w
        chosen = {i for i in range(len(spectra)) if rng.random() < 0.7} or {0}
        for i, s in enumerate(spectra):
            if i in chosen:
                mz = []
                for k in range(K - 1):
                    base = lo + k * w
                    offs = sorted({0.0 if (k == 0 and (i == 0 or rng.random() < 0.5)) else rng.randint(0, 15) * w / 16
                                   for _ in range(rng.choice([1, 1, 2]))})
                    mz += [base + o for o in offs]
                mz.append(hi)
                if rng.random() < 0.15 and K > 2:  # leave one bin empty after all
                    del mz[1]
            else:
                n = rng.randint(1, 4)
                mz = sorted({lo + rng.randint(0, max(0, int((hi - lo) * 16))) / 16 for _ in range(n)})
            s["mz"] = mz
            s["it"] = [float(rng.choice([1, 2, 4, 8, 16, rng.randint(0, 2047)])) for _ in mz]
        # guarantee the global extremes
        spectra[0]["mz"] = sorted(set(spectra[0]["mz"]) | {lo, hi})
        spectra[0]["it"] = [float(2 ** (j % 10)) for j in range(len(spectra[0]["mz"]))]

    def targeted(self, tier):
        base = {"kind": "exact", "size": [1, 1], "mzdt": "f8", "itdt": "f4", "shared": False, "ifirst": False, "pad": None,
                "scalar": False, "binw": None, "style": 0}
        sp = {"x": 1, "y": 1, "mz": [100.0, 200.0, 300.0, 400.0], "it": [1.0, 2.0, 4.0, 8.0], "tic": None}
        # the documented failing input of the repaired defect: empty window, last peak, above the spectrum
        yield {**base, "spectra": [sp], "masses": [250.0, 400.0, 500.0, 50.0, 100.0], "width": {"kind": "mz", "value": 2.0}}
        # peaks exactly on the lower (included) and upper (excluded) edge
        yield {**base, "spectra": [sp], "masses": [101.0, 99.0, 399.0, 401.0], "width": {"kind": "mz", "value": 2.0}}
        yield {**base, "spectra": [{**sp, "mz": [100.0], "it": [7.0]}], "masses": [100.0], "scalar": True,
               "width": {"kind": "ppm", "value": 1e6 / 64}}
        # sparse 2x3 image without a stated size, unsorted overlapping windows, bins
        yield {**base, "size": None, "mzdt": "f4", "itdt": "f8",
               "spectra": [{**sp, "x": 2, "y": 3, "tic": "15.000000"}, {**sp, "x": 1, "y": 2, "mz": [150.0, 250.0], "it": [3.0, 5.0]}],
               "masses": [300.0, 150.0, 200.0], "width": {"kind": "mz", "value": 128.0}, "binw": 64.0}
        # dense bins: every bin holds a peak, the last bin holds the last peak
        yield {**base, "spectra": [{**sp, "mz": [100.0, 100.5, 101.25, 102.0]}], "masses": [101.0],
               "width": {"kind": "mz", "value": 1.0}, "binw": 1.0}
        yield {**base, "spectra": [{**sp, "mz": [100.0], "it": [9.0]}], "masses": [101.0],
               "width": {"kind": "mz", "value": 1.0}, "binw": 0.5}
        # 32-bit m/z, window edges that are not float32 values, peaks on the float32 neighbours of each edge
        f32, inf = np.float32, np.float32(np.inf)
        for m, width in ((500.0, {"kind": "mz", "value": 0.2}), (500.2, {"kind": "mz", "value": 0.2}),
                         (120.7, {"kind": "mz", "value": 0.33}), (500.0, {"kind": "ppm", "value": 100.0}),
                         (731.3, {"kind": "ppm", "value": 25.0})):
            h = m * width["value"] / 1e6 / 2.0 if width["kind"] == "ppm" else width["value"] / 2.0
            mz = sorted({float(v) for e in (m - h, m + h) for c in [f32(e)]
                         for v in (np.nextafter(c, -inf), c, np.nextafter(c, inf))} | {float(f32(m))})
            yield {**base, "mzdt": "f4", "spectra": [{**sp, "mz": mz, "it": [float(2 ** j) for j in range(len(mz))]}],
                   "masses": [m], "width": width}
        # no spectrum at all
        yield {**base, "size": [2, 1], "spectra": [], "masses": [101.0], "width": {"kind": "mz", "value": 1.0}}
        # ---- outside the quantifier, implementation vs model only: positions as NumPy subscripts, the dict of spectra
        w1 = {"masses": [100.0, 250.0], "width": {"kind": "mz", "value": 2.0}}
        a, b, c = ({**sp, "it": [float(k), 2.0, 4.0, 8.0], "tic": None} for k in (1, 16, 32))
        for size, pos in (([2, 2], [(0, 1)]), ([2, 2], [(1, 0)]), ([2, 2], [(3, 1)]), ([2, 2], [(1, 3)]), ([2, 2], [(-1, 1)]),
                          ([2, 2], [(-2, 1)]), ([2, 2], [(-1, -1)]), ([2, 2], [(0, 1), (2, 1)]), ([2, 2], [(2, 1), (0, 1)]),
                          ([2, 2], [(0, 1), (2, 1), (0, 1)]), ([1, 1], [(1, 1), (1, 1)]), ([2, 1], [(1, 1), (2, 1), (1, 1)]),
                          (None, [(0, 1), (2, 1)]), (None, [(0, 0)]), (None, [(-1, 1)]), (None, []), ([0, 1], [(1, 1)]),
                          ([-1, 1], [(1, 1)]), ([1, 1], [(2, 1)]), ([0, 0], [])):
            yield {**base, **w1, "size": size, "binw": 64.0,
                   "spectra": [{**t, "x": x, "y": y} for t, (x, y) in zip((a, b, c), pos)]}
        # ---- the external binary, directly: whole arrays, every element type, both byte orders, reads that end after
        # the file, start beyond it, and lengths that are no whole number of elements (16 bytes UUID + 32 + 16 bytes)
        rd = lambda off, ln, dt, order="little", past=None: {"off": off, "len": ln, "dt": dt, "order": order, "past": past}
        yield {**base, **w1, "spectra": [sp],
               "reads": [rd(16, 32, "f8"), rd(48, 16, "f4"), rd(16, 32, "f8", "big"), rd(48, 16, "f4", "big"), rd(16, 32, "u8"),
                         rd(48, 16, "u4"), rd(17, 6, "u2"), rd(19, 5, "u1"), rd(48, 16, "u2", "big")]}
        yield {**base, **w1, "spectra": [sp],
               "reads": [rd(56, 16, "f4", past="across-end"), rd(60, 8, "f8", past="across-end"), rd(64, 8, "f4", past="beyond-end"),
                         rd(70, 0, "f8", past="empty-read"), rd(16, 31, "f8"), rd(16, 30, "f4"), rd(0, 64, "u8"), rd(61, 9, "u2", past="across-end")]}

    # ------------------------------------------------------------------ evaluation
    def evaluate(self, case, ctx):
        from pewlib.io.imzml import ImzML
        import random

        d = ctx.tmpdir()
        specs = case["spectra"]
        prng = random.Random(case["pad"]) if case["pad"] is not None else None
        ibd, metas = gen_imzml.layout_ibd(specs, case["mzdt"], case["itdt"], shared=case["shared"], rng=prng,
                                          intensity_first=case["ifirst"])
        doc = gen_imzml.simple_doc([(s["x"], s["y"]) for s in specs], [s["tic"] for s in specs], metas,
                                   size=case["size"], mzdt=case["mzdt"], itdt=case["itdt"], style=case["style"])
        path = gen_imzml.write_pair(d, doc, ibd)
        masses, width = case["masses"], case["width"]
        kw = {"mass_width_ppm": width["value"]} if width["kind"] == "ppm" else {"mass_width_mz": width["value"]}
        target = masses[0] if case["scalar"] else (np.array(masses) if case["style"] % 2 else list(masses))

        impl = {}
        try:
            imz = ImzML.from_file(path)
        except Exception as e:
            imz = None
            impl = {"raises": type(e).__name__, "msg": str(e)[:160]}
        impl_bins = None
        if imz is not None:
            r = call(lambda: imz.extract_masses(target, **kw))
            impl["extract"] = r if isinstance(r, dict) else canon_pixels(r)
            r = call(imz.extract_tic)
            impl["tic"] = r if isinstance(r, dict) else canon_pixels(r)
            r = call(imz.mass_range)
            impl["range"] = r if isinstance(r, dict) else [fr(r[0]), fr(r[1])]
            if case["binw"] is not None:
                r = call(lambda: imz.binned_masses(case["binw"]))
                if isinstance(r, dict):
                    impl["binned"] = r
                else:
                    b = np.asarray(r[0], dtype=float)
                    if b.ndim == 1 and np.all(np.isfinite(b)):
                        impl_bins = [F(float(v)) for v in b]
                    impl["binned"] = {"bins": [fr(v) for v in b.ravel()], "data": canon_pixels(r[1])}
            dct = self.observe_dict(imz)
            if dct is not None:
                impl["dict"] = dct
        reads = self.run_reads(case, path, ibd)
        if reads is not None:
            impl["reads"] = reads[0]

        # the same file, abstractly, for the model: the bytes of the .ibd as written, and per <spectrum> what was
        # written into the imzML (position, TIC text as the float it parses to, offset and encoded length of the arrays)
        fspecs = [{"x": s["x"], "y": s["y"], "tic": None if s["tic"] is None else core.rat(F(float(s["tic"]))),
                   "mz": [m["mz"][0], m["mz"][1]], "it": [m["it"][0], m["it"][1]]} for s, m in zip(specs, metas)]
        ffile = dict(size=case["size"], ibd=ibd.hex(), mzdt=case["mzdt"], itdt=case["itdt"], spectra=fspecs)
        rep = ctx.driver.call("c05.image", masses=[core.rat(F(m)) for m in masses],
                              width={"kind": width["kind"], "value": core.rat(F(width["value"]))}, **ffile)
        hyp = bool(rep["hyp"])
        dspecs = rep["values"]  # the arrays as the model decoded them from the bytes

        def mimg(j, vec):
            return {"raises": True} if j is None else drv_table(j["table"], vec)

        def mrange(j):
            return {"raises": True} if j is None else [("inf", "-inf")[i] if v is None else qs(v) for i, v in enumerate(j)]

        model = {"extract": mimg(rep["extract_model"], True), "tic": mimg(rep["tic_model"], False),
                 "range": mrange(rep["range_model"]),
                 "dict": [[int(s["x"]), int(s["y"]), [qs(v) for v in s["mz"]], [qs(v) for v in s["it"]]] for s in rep["dict"]]}
        if reads is not None:
            model["reads"] = reads[1](ctx)
        spec = {"outside-the-quantifier": True}
        if hyp:
            spec = {"extract": drv_table(rep["extract_spec"], True), "tic": drv_table(rep["tic_spec"], False)}
            if specs:
                spec["range"] = [qs(v) for v in rep["range_spec"]]
        brep = None
        if case["binw"] is not None:
            brep = ctx.driver.call("c05.bins", w=core.rat(F(case["binw"])),
                                   impl_bins=None if impl_bins is None else [core.rat(v) for v in impl_bins], **ffile)
            bm = brep["model"]
            model["binned"] = {"raises": True} if bm is None else {"bins": [qs(v) for v in bm["bins"]], "data": drv_table(bm["table"], True)}
            if hyp and specs:
                spec["binned"] = {"edges_step_by_w_and_cover_range": True, "returned_edges_do": bool(brep["cover"]),
                                  "data": drv_table(brep["spec"], True)}

        # tolerances: exact stream 0; real stream 8*n*eps*total of the pixel
        totals = {}
        for s in specs:
            eps = 2.0 ** -23 if case["itdt"] == "f4" else 2.0 ** -52
            totals[(s["y"] - 1, s["x"] - 1)] = F(8 * max(1, len(s["it"])) * eps * sum(s["it"])) if case["kind"] == "real" else F(0)
        big = max(totals.values(), default=F(0))
        # outside the quantifier two dict values can be written to one pixel (positions 0 and X): which one stays depends
        # on the order of the loop, which the property does not fix: only the NaN-ness of such a pixel is compared
        ali = rep["aliased"] or []
        is_ali = lambda r, c: r < len(ali) and c < len(ali[r]) and bool(ali[r][c])
        tol = (lambda r, c: totals.get((r, c), F(0))) if hyp else (lambda r, c: None if is_ali(r, c) else big)
        # the summed TIC of a pixel whose exact total is not representable in the intensity type is rounding-determined
        # for ANY implementation (a dominant peak next to small ones): tolerance for the TIC table only
        tic_totals = dict(totals)
        for s in specs:
            lim = 2 ** 24 if case["itdt"] == "f4" else 2 ** 53
            if s["tic"] is None and sum(s["it"]) >= lim:
                eps = 2.0 ** -23 if case["itdt"] == "f4" else 2.0 ** -52
                tic_totals[(s["y"] - 1, s["x"] - 1)] = F(8 * max(1, len(s["it"])) * eps * sum(s["it"]))
        bigt = max(tic_totals.values(), default=F(0))
        tol_tic = (lambda r, c: tic_totals.get((r, c), F(0))) if hyp else (lambda r, c: None if is_ali(r, c) else bigt)
        parts_spec, parts_model = {}, {}
        if imz is None:
            parts_spec["parse"] = parts_model["parse"] = False
        else:
            for k in ("extract", "tic"):
                t = tol if k == "extract" else tol_tic
                if hyp:
                    parts_spec[k] = tables_close(impl[k], spec[k], t)
                parts_model[k] = both_raise(impl[k], model[k]) or tables_close(impl[k], model[k], t)
            ir = impl["range"]
            if hyp and specs:
                ok = isinstance(ir, list) and None not in ir
                parts_spec["range"] = ok and self.le(ir[0], spec["range"][0]) and self.le(spec["range"][1], ir[1])
            parts_model["range"] = both_raise(ir, model["range"]) or ir == model["range"]
            if brep is not None:
                ib, mb = impl["binned"], model["binned"]
                if hyp and specs:
                    parts_spec["binned"] = "data" in ib and bool(brep["cover"]) and tables_close(ib["data"], spec["binned"]["data"], tol)
                    parts_model["binned"] = "data" in ib and "data" in mb and ib["bins"] == mb["bins"] \
                        and self.binned_matches_model(ib["data"], mb["data"], spec["binned"]["data"], brep["dense"], tol)
                else:
                    # outside the quantifier (and for a file without spectra) only raising, the edges, the shape and the
                    # NaN pattern are compared: the values of binned_masses are covered by the known finding, a repair
                    # of it must not break the tie here
                    parts_model["binned"] = both_raise(ib, mb) or ("data" in ib and "data" in mb and ib["bins"] == mb["bins"]
                                                                  and same_pattern(ib["data"], mb["data"]))
            if "dict" in impl:
                parts_model["dict"] = impl["dict"] == model["dict"]
        if reads is not None:
            inq = [r["off"] + r["len"] <= len(ibd) and r["len"] % int(r["dt"][1:]) == 0 for r in case["reads"]]
            pairs = list(zip(inq, impl["reads"], model["reads"]))
            parts_model["reads"] = all(i == m for q, i, m in pairs if q)          # arrays inside the file: always
            parts_model["reads-off"] = all(i == m for q, i, m in pairs if not q)  # short / misaligned reads: off-domain

        # undetermined: a peak within 1e-9 relative of a window edge whose float value depends on how the code
        # rounds (real stream; every ppm width: m*ppm/1e6/2 and e.g. m*(ppm*5e-7) are both right but round differently)
        undet = False
        edges = [core.unrat(e) for e in rep["edges"]]
        guard = case["kind"] == "real" or width["kind"] == "ppm"
        if not guard:
            # absolute width: the float64 expressions m - w/2, m + w/2 are exact for the dyadic classes; where they
            # round (decimal masses / widths) the same guard applies, whatever stream the case came from
            h = float(width["value"]) / 2.0
            fl = [F(v) for m in masses for v in (float(m) - h, float(m) + h)]
            guard = fl != edges
        if guard:
            for s in dspecs:
                for m in s["mz"]:
                    q = core.unrat(m)
                    if any(abs(q - e) <= F(1, 10 ** 9) * abs(e) for e in edges):
                        undet = True

        note = {"fail": sorted(k for k, v in parts_spec.items() if not v),
                "model_fail": sorted(k for k, v in parts_model.items() if not v)}
        if brep is not None and imz is not None and "data" in impl.get("binned", {}) and not parts_spec.get("binned", True):
            # which disagreeing pixels lie in the class of the known finding (a bin without a peak / bins above the last peak)
            bad_dense = 0
            ib = impl["binned"]
            idata, sdata = ib["data"], spec["binned"]["data"]
            same_shape = len(idata) == len(sdata) and all(len(a) == len(b) for a, b in zip(idata, sdata))
            if same_shape:
                for r, row in enumerate(idata):
                    for c, px in enumerate(row):
                        if not tables_close([[px]], [[sdata[r][c]]], lambda *_: tol(r, c)) and brep["dense"][r][c] is not False:
                            bad_dense += 1
            mb = model["binned"]
            note["binned"] = {"cover": bool(brep["cover"]), "same_shape": same_shape, "bad_dense_pixels": bad_dense,
                              "matches_defect_model": "data" in mb and ib["bins"] == mb["bins"]
                              and tables_close(ib["data"], mb["data"], tol)}
        feats = self.features(case, rep, brep, dspecs, hyp, reads is not None, "dict" in impl)
        if not self.OFF_DOMAIN_VERDICT:
            # disagreements outside the quantifier are only counted (feature), they do not reach the verdict
            offp = [k for k in parts_model if k == "reads-off" or (not hyp and k not in ("reads", "parse"))]
            if any(not parts_model[k] for k in offp) and feats:
                feats = list(feats) + ["off:DIFFERS-from-model"]
            for k in offp:
                parts_model[k] = True
        return outcome(impl, model, spec, spec_ok=all(parts_spec.values()), model_ok=all(parts_model.values()),
                       undetermined=undet, hyp=hyp, features=feats, note=json.dumps(note, sort_keys=True))

    # ------------------------------------------------------------------ the external binary, directly
    @staticmethod
    def observe_dict(imz):
        """ImzML.spectra in iteration order with the arrays get_binary_data reads for each value; None when the
        attributes are not there (a restructured class is not an error of the property)"""
        try:
            out = []
            for sp in imz.spectra.values():
                mz = sp.get_binary_data(imz.mz_params.id, imz.mz_params.dtype, imz.external_binary)
                it = sp.get_binary_data(imz.intensity_params.id, imz.intensity_params.dtype, imz.external_binary)
                out.append([int(sp.x), int(sp.y), [fr(v) for v in mz], [fr(v) for v in it]])
            return out
        except (AttributeError, TypeError, KeyError):
            return None
        except Exception as e:  # the read itself fails: an observation, not an error of the harness
            return {"raises": type(e).__name__}

    @staticmethod
    def run_reads(case, path, ibd):
        """Spectrum.get_binary_data on the real .ibd for the offsets / lengths / dtypes of the case (inside the file,
        across its end, beyond it, lengths that are no multiple of the element width, both byte orders).
        Returns (impl, model thunk) or None when the case has none / the class cannot be built as documented."""
        reads = case.get("reads") or []
        if not reads:
            return None
        try:
            from pewlib.io.imzml import Spectrum
            sp = Spectrum((1, 1), None, {str(i): r["off"] for i, r in enumerate(reads)},
                          {str(i): r["len"] for i, r in enumerate(reads)})
            getter = sp.get_binary_data
        except (ImportError, AttributeError, TypeError):
            return None
        impl = []
        for i, r in enumerate(reads):
            o = "<" if r["order"] == "little" else ">"
            dt = np.dtype(r["dt"]) if r["dt"] == "u1" else np.dtype(o + r["dt"])
            try:
                arr = getter(str(i), dt, path.with_suffix(".ibd"))
            except TypeError:
                return None
            except Exception:  # np.frombuffer: ValueError
                impl.append({"raises": True})
                continue
            arr = np.asarray(arr)
            bits = arr.view(np.dtype("u1") if r["dt"] == "u1" else np.dtype(o + "u" + r["dt"][1:]))
            vals = [None if (arr.dtype.kind == "f" and not np.isfinite(v)) else str(F(float(v)) if arr.dtype.kind == "f" else int(v))
                    for v in arr]
            impl.append({"bits": [int(b) for b in bits], "values": vals})

        def model(ctx):
            out = []
            for r in reads:
                rep = ctx.driver.call("c05.read", ibd=ibd.hex(), dtype=r["dt"], order=r["order"], off=r["off"], len=r["len"])
                if rep["bits"] is None:
                    out.append({"raises": True})
                elif rep["pointwise"] != rep["bits"]:
                    out.append({"pointwise-formula-differs": True})
                else:
                    out.append({"bits": [int(b) for b in rep["bits"]], "values": [qs(v) for v in rep["values"]]})
            return out

        return impl, model

    @staticmethod
    def binned_matches_model(idata, mdata, sdata, dense, tol):
        """correspondence for binned_masses: every pixel equals the mechanism model (the documented, unrepaired
        behaviour); on pixels outside the proved class (a bin without a peak) the specified value is accepted too,
        so that a correct repair of the known finding is not reported as a broken tie"""
        if len(idata) != len(mdata) or any(len(a) != len(b) for a, b in zip(idata, mdata)):
            return False
        for r, row in enumerate(idata):
            for c, px in enumerate(row):
                t = lambda *_: tol(r, c)
                if tables_close([[px]], [[mdata[r][c]]], t):
                    continue
                if dense[r][c] is False and tables_close([[px]], [[sdata[r][c]]], t):
                    continue
                return False
        return True

    @staticmethod
    def le(a, b):
        inf = {"inf": 1, "-inf": -1}
        if a in inf or b in inf:
            return inf.get(a, 0) <= inf.get(b, 0) if (a in inf and b in inf) else (a == "-inf" or b == "inf")
        return F(a) <= F(b)

    def features(self, case, rep, brep, dspecs, hyp, did_reads, did_dict):
        f = set()
        specs = case["spectra"]
        edges = [core.unrat(e) for e in rep["edges"]]
        wins = list(zip(edges[::2], edges[1::2]))
        off = set()
        if rep["extract_model"] is None:
            off.add("off:model-raises")
        else:
            Y, X = rep["extract_model"]["shape"]
            f.add(f"img:{'1x1' if (X, Y) == (1, 1) else 'line' if 1 in (X, Y) else 'grid'}")
            if len(specs) < X * Y:
                f.add("sparse-pixels")
            if 0 in (X, Y):
                off.add("off:empty-image")
        if not hyp:
            pos = [(s["x"], s["y"]) for s in specs]
            if any(0 in p for p in pos):
                off.add("off:position-0-wraps-to-last")
            if any(min(p) < 0 for p in pos):
                off.add("off:negative-position")
            if len(set(pos)) < len(pos):
                off.add("off:position-recorded-twice")
            if case["size"] is not None and any(p[0] > case["size"][0] or p[1] > case["size"][1] for p in pos):
                off.add("off:position-beyond-size")
            if case["size"] is not None and min(case["size"]) < 0:
                off.add("off:negative-size")
            if any(v for row in (rep["aliased"] or []) for v in row):
                off.add("off:two-positions-one-pixel-value-not-compared")
            f.add("outside-the-quantifier")
        if did_reads:
            f.add("direct-read")
            for r in case["reads"]:
                w = int(r["dt"][1:])
                f.add(f"read:{r['dt']}")
                if r["order"] == "big":
                    f.add("read:big-endian")
                if r["len"] % w:
                    off.add("read:length-not-multiple")
                if r.get("past"):
                    off.add("read:" + r["past"])
        if did_dict:
            f.add("dict-observed")
        if not specs:
            f.add("no-spectra")
        if case["size"] is None:
            f.add("size-absent")
        if case["shared"] and len(specs) > 1:
            f.add("shared-axis")
        f.add(f"mz:{case['mzdt']}")
        f.add(f"it:{case['itdt']}")
        f.add(f"width:{case['width']['kind']}")
        f.add(f"stream:{case['kind']}")
        if any(s["tic"] is None for s in specs):
            f.add("tic-absent")
        if any(s["tic"] is not None for s in specs):
            f.add("tic-stored")
        if case["scalar"]:
            f.add("scalar-target")
        los = [w[0] for w in wins]
        if los != sorted(los):
            f.add("windows-unsorted")
        if any(a[0] < b[1] and b[0] < a[1] for i, a in enumerate(wins) for b in wins[i + 1:]):
            f.add("windows-overlap")
        nontriv = set()
        # 32-bit m/z next to a window edge that is not a float32 value: the stored neighbours of the edge
        brackets = []
        if case["mzdt"] == "f4":
            brackets = [(f32_bracket(lo), f32_bracket(hi)) for lo, hi in wins]
            if any(b is not None for pair in brackets for b in pair):
                f.add("f32-unrepresentable-edge")
        for s in dspecs:
            mz = [core.unrat(m) for m in s["mz"]]
            mzset = set(mz)
            for pair in brackets:
                for name, b in zip(("lower", "upper"), pair):
                    if b is not None:
                        if b[0] in mzset:
                            nontriv.add(f"f32-peak-just-below-{name}-edge")
                        if b[1] in mzset:
                            nontriv.add(f"f32-peak-just-above-{name}-edge")
            f.add("n1" if len(mz) == 1 else "n2" if len(mz) == 2 else "n>2")
            for lo, hi in wins:
                inside = [m for m in mz if lo <= m < hi]
                if lo in mz:
                    nontriv.add("peak-on-lower-edge")
                if hi in mz:
                    nontriv.add("peak-on-upper-edge")
                if not inside:
                    if hi <= mz[0]:
                        nontriv.add("window-below")
                    elif lo > mz[-1]:
                        nontriv.add("window-above")
                    else:
                        nontriv.add("window-empty-inside")
                else:
                    if len(inside) > 1:
                        nontriv.add("window-many-peaks")
                    if inside[0] == mz[0]:
                        nontriv.add("window-has-first-peak")
                    if inside[-1] == mz[-1]:
                        nontriv.add("window-has-last-peak")
        if brep is not None and hyp and brep["dense"] is not None and brep["model"] is not None:
            flat = [d for row in brep["dense"] for d in row if d is not None]
            if any(flat):
                nontriv.add("bins-dense-pixel")
            if not all(flat):
                nontriv.add("bins-pixel-with-empty-bin")
            f.add("bins:%d" % min(len(brep["model"]["bins"]), 5))
        if {"sparse-pixels", "size-absent", "no-spectra"} & f:
            nontriv.add("placement")
        nontriv |= off
        return (f | nontriv) if nontriv else []

    # ------------------------------------------------------------------ known finding
    def known(self, case, out):
        try:
            note = json.loads(out.get("note") or "{}")
        except ValueError:
            return None
        if note.get("fail") != ["binned"]:
            return None  # anything else that fails is a violation
        b = note.get("binned")
        if not b or not b["cover"] or not b["same_shape"]:
            return None
        if b["bad_dense_pixels"] != 0:
            return None  # a pixel whose every bin holds a peak must be right
        if not b["matches_defect_model"]:
            return None  # not the documented behaviour (neighbouring peak / repeated last intensity)
        return KNOWN_BINS

    # ------------------------------------------------------------------ shrinking
    def shrink(self, case):
        sp = case["spectra"]
        for i in range(len(sp)):
            if len(sp) > 1:
                yield {**case, "spectra": sp[:i] + sp[i + 1:], "shared": False}
        if len(case["masses"]) > 1:
            for i in range(len(case["masses"])):
                yield {**case, "masses": case["masses"][:i] + case["masses"][i + 1:], "scalar": False}
        for i, s in enumerate(sp):
            for j in range(len(s["mz"])):
                if len(s["mz"]) > 1:
                    t = {**s, "mz": s["mz"][:j] + s["mz"][j + 1:], "it": s["it"][:j] + s["it"][j + 1:]}
                    yield {**case, "spectra": sp[:i] + [t] + sp[i + 1:], "shared": False}
            if s["tic"] is not None:
                yield {**case, "spectra": sp[:i] + [{**s, "tic": None}] + sp[i + 1:]}
        if case["binw"] is not None:
            yield {**case, "binw": None}
        rd = case.get("reads") or []
        if rd:
            yield {**case, "reads": []}
            for i in range(len(rd)):
                if len(rd) > 1:
                    yield {**case, "reads": rd[:i] + rd[i + 1:]}
        if case["pad"] is not None:
            yield {**case, "pad": None}
        if case["ifirst"]:
            yield {**case, "ifirst": False}


PROP = C05()

if __name__ == "__main__":
    sys.exit(core.main(PROP, "harness.c05"))
